/-
  GoHeader.Prelude — shared vocabulary of the model (core Lean only).

  Headers are abstract records: what `header.Verify` looks at (zero-ness, chain id, height, time)
  plus an abstract hash `id` and the hash of the predecessor `prev`.  Hashes are natural numbers
  assumed collision free (trusted base, see DESIGN.md §6).
-/
namespace GoHeader

structure Hdr where
  zero   : Bool := false
  chain  : Nat  := 0
  height : Nat  := 0
  time   : Int  := 0
  id     : Nat  := 0
  prev   : Nat  := 0
deriving DecidableEq, Repr, Inhabited

/-- the five sentinels of the mandatory checks plus the two of `VerifyRange` -/
inductive Sentinel
  | ErrZeroHeader | ErrWrongChainID | ErrKnownHeader | ErrUnorderedTime | ErrFromFuture
  | ErrEmptyRange | ErrNonAdjacentRange
deriving DecidableEq, Repr, Inhabited

/-- every shape of result the type-level `Header.Verify` can produce -/
inductive TV
  | ok                     -- nil
  | plain                  -- an error that is not a *VerifyError
  | verr (soft : Bool)     -- a bare *VerifyError
  | wrapped (soft : Bool)  -- a *VerifyError wrapped by fmt.Errorf("%w")
deriving DecidableEq, Repr, Inhabited

inductive Origin
  | sentinel (s : Sentinel)
  | typeErr
deriving DecidableEq, Repr, Inhabited

/-- a `*header.VerifyError` as the callers see it: what it wraps, and the SoftFailure flag -/
structure VErr where
  origin : Origin
  soft   : Bool
deriving DecidableEq, Repr, Inhabited

def Sentinel.tag : Sentinel → String
  | .ErrZeroHeader => "zero" | .ErrWrongChainID => "chain" | .ErrKnownHeader => "known"
  | .ErrUnorderedTime => "unordered" | .ErrFromFuture => "future"
  | .ErrEmptyRange => "empty" | .ErrNonAdjacentRange => "nonadj"

def VErr.tag (e : VErr) : String :=
  (match e.origin with
   | .sentinel s => s.tag
   | .typeErr => "type") ++ (if e.soft then ":1" else ":0")

def optVErrTag : Option VErr → String
  | none => "nil"
  | some e => e.tag

def TV.ofString? : String → Option TV
  | "ok" => some .ok | "plain" => some .plain
  | "verr0" => some (.verr false) | "verr1" => some (.verr true)
  | "wrap0" => some (.wrapped false) | "wrap1" => some (.wrapped true)
  | "join0" => some (.wrapped false) | "join1" => some (.wrapped true)   -- inside a multi-error: found by errors.As all the same
  | _ => none

/-! ### tiny parsing helpers for the line protocol (driver side) -/

def splitWs (s : String) : List String :=
  (s.splitOn " ").filter (· ≠ "")

def natList? (s : String) : Option (List Nat) :=
  if s = "" || s = "-" then some [] else (s.splitOn ",").mapM String.toNat?

def kv? (toks : List String) (k : String) : Option String :=
  toks.findSome? fun t =>
    match t.splitOn "=" with
    | [k', v] => if k' = k then some v else none
    | _ => none

def kvNat? (toks : List String) (k : String) : Option Nat := (kv? toks k).bind String.toNat?
def kvInt? (toks : List String) (k : String) : Option Int := (kv? toks k).bind String.toInt?

end GoHeader
