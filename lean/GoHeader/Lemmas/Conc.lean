/-
  Lemmas.Conc — invariants of the hook-granular reader × flusher system (`Store.Conc`).
-/
import GoHeader.Store.Conc
namespace GoHeader.Conc

/-- the flusher still owes a Notify for height `h` -/
def OwesNotify (s : St) (h : Nat) : Prop :=
  match s.fpc with
  | .appended b => h ∈ b
  | .inited b => h ∈ b
  | _ => False

/-- the batch the flusher is working on is already retrievable -/
def BatchStored (s : St) : Prop :=
  match s.fpc with
  | .appended b | .inited b | .notified b | .headStored b _ | .heightSet b => ∀ h ∈ b, h ∈ s.stored
  | .idle => True

/-- the invariant: a parked reader's height is not stored unless its wake-up is still owed;
    the published head is retrievable; a reader that returned `found` was right -/
structure Inv (s : St) : Prop where
  parked : ∀ r ∈ s.readers, r.pc = .parked → (r.h ∉ s.stored ∨ OwesNotify s r.h)
  batch : BatchStored s
  headStored : ∀ hd, s.head = some hd → hd ∈ s.stored
  found : ∀ r ∈ s.readers, r.pc = .done .found → r.h ∈ s.stored

theorem mem_wake (p : Nat → Bool) (rs : List Reader) (r : Reader) (h : r ∈ wake p rs) :
    ∃ r0 ∈ rs, r.h = r0.h ∧ (r.pc = r0.pc ∨ (r.pc = .woken ∧ (r0.pc = .parked ∨ r0.pc = .registered) ∧ p r0.h = true)) := by
  unfold wake at h
  simp only [List.mem_map] at h
  obtain ⟨r0, hr0, e⟩ := h
  refine ⟨r0, hr0, ?_⟩
  split at e
  · rename_i hc
    subst e
    simp only [Bool.and_eq_true, Bool.or_eq_true, beq_iff_eq] at hc
    exact ⟨rfl, Or.inr ⟨rfl, hc.1, hc.2⟩⟩
  · subst e; exact ⟨rfl, Or.inl rfl⟩

theorem wake_parked (p : Nat → Bool) (rs : List Reader) (r : Reader) (h : r ∈ wake p rs) (hp : r.pc = .parked) :
    r ∈ rs ∧ p r.h = false := by
  unfold wake at h
  simp only [List.mem_map] at h
  obtain ⟨r0, hr0, e⟩ := h
  split at e
  · subst e; simp at hp
  · rename_i hc
    subst e
    refine ⟨hr0, ?_⟩
    simp only [Bool.and_eq_true, Bool.or_eq_true, beq_iff_eq, not_and] at hc
    cases hpr : p r0.h with
    | false => rfl
    | true => exact absurd hpr (hc (Or.inl hp))

theorem walkUp_ge (p) (f h : Nat) : h ≤ walkUp p f h := by
  induction f generalizing h with
  | zero => simp [walkUp]
  | succ n ih => unfold walkUp; split; (have := ih (h+1); omega); omega

theorem walkUp_mem (p : Nat → Bool) (f h : Nat) : walkUp p f h = h ∨ p (walkUp p f h) = true := by
  induction f generalizing h with
  | zero => left; rfl
  | succ n ih =>
    unfold walkUp; split
    · rename_i hp
      rcases ih (h+1) with e | e
      · right; rw [e]; exact hp
      · right; exact e
    · left; rfl

theorem inv_init : Inv ({} : St) :=
  ⟨by simp, by simp [BatchStored], by simp, by simp⟩

theorem inv_stepF (s s' : St) (hi : Inv s) (h : stepF s = some s') : Inv s' := by
  unfold stepF at h
  cases hf : s.fpc with
  | idle =>
    simp only [hf] at h
    cases hq : s.queue with
    | nil => simp [hq] at h
    | cons b q =>
      simp only [hq, Option.some.injEq] at h; subst h
      refine ⟨?_, ?_, ?_, ?_⟩
      · intro r hr hp
        by_cases hb : r.h ∈ b
        · right; simp [OwesNotify, hb]
        · left
          rcases hi.parked r hr hp with h1 | h1
          · simp [hb, h1]
          · simp [OwesNotify, hf] at h1
      · simp [BatchStored]; intro h hh; exact Or.inl hh
      · intro hd e; simp; exact Or.inr (hi.headStored hd e)
      · intro r hr hp; simp; exact Or.inr (hi.found r hr hp)
  | appended b =>
    simp only [hf] at h
    have hb := hi.batch; simp only [BatchStored, hf] at hb
    cases hh : s.head with
    | none =>
      cases b with
      | nil =>
        simp only [hh, Option.some.injEq] at h; subst h
        exact ⟨fun r hr hp => by
                 rcases hi.parked r hr hp with h1 | h1
                 · exact Or.inl h1
                 · simp [OwesNotify, hf] at h1,
               by simp [BatchStored], fun hd e => by simp [hh] at e, hi.found⟩
      | cons x xs =>
        simp only [hh, Option.some.injEq] at h; subst h
        refine ⟨?_, by simpa [BatchStored] using hb, ?_, ?_⟩
        · intro r hr hp
          obtain ⟨hr0, _⟩ := wake_parked (fun y => decide (y < x)) s.readers r hr hp
          rcases hi.parked r hr0 hp with h1 | h1
          · exact Or.inl h1
          · right; simpa [OwesNotify, hf] using h1
        · intro hd e; simp at e; subst e; exact hb x (by simp)
        · intro r hr hp
          obtain ⟨r0, hr0, e1, e2⟩ := mem_wake (fun y => decide (y < x)) s.readers r hr
          rcases e2 with e2 | ⟨e2, _⟩
          · rw [e1]; exact hi.found r0 hr0 (by rw [← e2]; exact hp)
          · rw [hp] at e2; cases e2
    | some hd =>
      simp only [hh, Option.some.injEq] at h; subst h
      refine ⟨?_, by simpa [BatchStored] using hb, fun hd' e => hi.headStored hd' (by simpa [hh] using e), hi.found⟩
      intro r hr hp
      rcases hi.parked r hr hp with h1 | h1
      · exact Or.inl h1
      · right; simpa [OwesNotify, hf] using h1
  | inited b =>
    simp only [hf, Option.some.injEq] at h; subst h
    have hb := hi.batch; simp only [BatchStored, hf] at hb
    refine ⟨?_, by simpa [BatchStored] using hb, hi.headStored, ?_⟩
    · intro r hr hp
      obtain ⟨hr0, hnp⟩ := wake_parked (fun h => b.contains h) s.readers r hr hp
      left
      rcases hi.parked r hr0 hp with h1 | h1
      · exact h1
      · simp [OwesNotify, hf] at h1
        simp at hnp; exact absurd h1 hnp
    · intro r hr hp
      obtain ⟨r0, hr0, e1, e2⟩ := mem_wake (fun h => b.contains h) s.readers r hr
      rcases e2 with e2 | ⟨e2, _⟩
      · rw [e1]; exact hi.found r0 hr0 (by rw [← e2]; exact hp)
      · rw [hp] at e2; cases e2
  | notified b =>
    simp only [hf] at h
    have hb := hi.batch; simp only [BatchStored, hf] at hb
    have hpk : ∀ r ∈ s.readers, r.pc = .parked → r.h ∉ s.stored := by
      intro r hr hp
      rcases hi.parked r hr hp with h1 | h1
      · exact h1
      · simp [OwesNotify, hf] at h1
    cases hh : s.head with
    | none =>
      simp only [hh, Option.some.injEq] at h; subst h
      exact ⟨fun r hr hp => Or.inl (hpk r hr hp), by simpa [BatchStored] using hb, fun hd e => by simp [hh] at e, hi.found⟩
    | some hd =>
      simp only [hh, Option.some.injEq] at h; subst h
      refine ⟨fun r hr hp => Or.inl (hpk r hr hp), by simpa [BatchStored] using hb, ?_, hi.found⟩
      intro hd' e
      have e' : hd' = walkUp (fun h => s.stored.contains h) (s.stored.length + 1) hd := by
        simp only [Option.some.injEq] at e; exact e.symm
      show hd' ∈ s.stored
      rcases walkUp_mem (fun h => s.stored.contains h) (s.stored.length + 1) hd with w | w
      · rw [e', w]; exact hi.headStored hd hh
      · rw [e']; simpa using w
  | headStored b old =>
    simp only [hf] at h
    have hb := hi.batch; simp only [BatchStored, hf] at hb
    have hpk : ∀ r ∈ s.readers, r.pc = .parked → r.h ∉ s.stored := by
      intro r hr hp
      rcases hi.parked r hr hp with h1 | h1
      · exact h1
      · simp [OwesNotify, hf] at h1
    cases hh : s.head with
    | none =>
      simp only [hh, Option.some.injEq] at h; subst h
      exact ⟨fun r hr hp => Or.inl (hpk r hr hp), by simpa [BatchStored] using hb, fun hd e => by simp [hh] at e, hi.found⟩
    | some hd =>
      simp only [hh] at h
      split at h
      · simp only [Option.some.injEq] at h; subst h
        refine ⟨?_, by simpa [BatchStored] using hb, fun hd' e => hi.headStored hd' (by simpa [hh] using e), ?_⟩
        · intro r hr hp
          obtain ⟨hr0, _⟩ := wake_parked (fun h => decide (old ≤ h ∧ h ≤ hd)) s.readers r hr hp
          exact Or.inl (hpk r hr0 hp)
        · intro r hr hp
          obtain ⟨r0, hr0, e1, e2⟩ := mem_wake (fun h => decide (old ≤ h ∧ h ≤ hd)) s.readers r hr
          rcases e2 with e2 | ⟨e2, _⟩
          · rw [e1]; exact hi.found r0 hr0 (by rw [← e2]; exact hp)
          · rw [hp] at e2; cases e2
      · simp only [Option.some.injEq] at h; subst h
        exact ⟨fun r hr hp => Or.inl (hpk r hr hp), by simpa [BatchStored] using hb,
          fun hd' e => hi.headStored hd' (by simpa [hh] using e), hi.found⟩
  | heightSet b =>
    simp only [hf, Option.some.injEq] at h; subst h
    refine ⟨?_, by simp [BatchStored], hi.headStored, hi.found⟩
    intro r hr hp
    rcases hi.parked r hr hp with h1 | h1
    · exact Or.inl h1
    · simp [OwesNotify, hf] at h1

theorem inv_stepR (s s' : St) (i : Nat) (c : Bool) (hi : Inv s) (h : stepR s i c = some s') : Inv s' := by
  unfold stepR at h
  cases hr : s.readers[i]? with
  | none => simp [hr] at h
  | some r =>
    simp only [hr] at h
    have hmem : r ∈ s.readers := List.mem_of_getElem? hr
    have key : ∀ (pc : RPc), (pc = .parked → r.h ∉ s.stored) → (pc = .done .found → r.h ∈ s.stored) →
        Inv { s with readers := s.readers.set i { r with pc := pc } } := by
      intro pc hpk hfd
      have hb := hi.batch
      refine ⟨?_, ?_, hi.headStored, ?_⟩
      · intro r' hr' hp
        rcases List.mem_or_eq_of_mem_set hr' with h1 | h1
        · rcases hi.parked r' h1 hp with h2 | h2
          · exact Or.inl h2
          · exact Or.inr (by simpa [OwesNotify] using h2)
        · subst h1; simp at hp; exact Or.inl (hpk hp)
      · simpa [BatchStored] using hb
      · intro r' hr' hp
        rcases List.mem_or_eq_of_mem_set hr' with h1 | h1
        · exact hi.found r' h1 hp
        · subst h1; simp at hp; exact hfd hp
    cases hpc : r.pc with
    | start =>
      simp only [hpc, Option.some.injEq] at h; subst h
      apply key
      · intro e; split at e <;> cases e
      · intro e; split at e
        · rename_i hc; simpa using hc
        · cases e
    | missed =>
      simp only [hpc, Option.some.injEq] at h; subst h
      apply key <;> (intro e; split at e <;> cases e)
    | toRegister =>
      simp only [hpc, Option.some.injEq] at h; subst h
      apply key <;> (intro e; split at e <;> cases e)
    | registered =>
      simp only [hpc, Option.some.injEq] at h; subst h
      apply key
      · intro e; split at e
        · cases e
        · rename_i hc; simpa using hc
      · intro e; split at e <;> cases e
    | parked =>
      simp only [hpc] at h
      split at h
      · simp only [Option.some.injEq] at h; subst h
        apply key <;> (intro e; cases e)
      · cases h
    | woken =>
      simp only [hpc, Option.some.injEq] at h; subst h
      apply key
      · intro e; cases e
      · intro e
        simp only [RPc.done.injEq] at e
        split at e
        · rename_i hc; simpa using hc
        · cases e
    | done x => simp [hpc] at h

theorem inv_step (s : St) (e : Ev) (hi : Inv s) : Inv (step s e) := by
  cases e with
  | flusher =>
    simp only [step]
    cases h : stepF s with
    | none => simpa using hi
    | some s' => simpa using inv_stepF s s' hi h
  | reader i =>
    simp only [step]
    cases h : stepR s i false with
    | none => simpa using hi
    | some s' => simpa using inv_stepR s s' i false hi h
  | cancel i =>
    simp only [step]
    cases h : stepR s i true with
    | none => simpa using hi
    | some s' => simpa using inv_stepR s s' i true hi h
  | append b =>
    simp only [step]; split
    · exact hi
    · exact ⟨fun r hr hp => by
               rcases hi.parked r hr hp with h1 | h1
               · exact Or.inl h1
               · exact Or.inr (by simpa [OwesNotify] using h1),
             by simpa [BatchStored] using hi.batch, hi.headStored, hi.found⟩
  | call h =>
    simp only [step]
    refine ⟨?_, by simpa [BatchStored] using hi.batch, hi.headStored, ?_⟩
    · intro r hr hp
      simp only [List.mem_append, List.mem_singleton] at hr
      rcases hr with hr | hr
      · rcases hi.parked r hr hp with h1 | h1
        · exact Or.inl h1
        · exact Or.inr (by simpa [OwesNotify] using h1)
      · subst hr; simp at hp
    · intro r hr hp
      simp only [List.mem_append, List.mem_singleton] at hr
      rcases hr with hr | hr
      · exact hi.found r hr hp
      · subst hr; simp at hp

theorem inv_run (evs : List Ev) : Inv (run evs) := by
  unfold run
  have : ∀ (s : St), Inv s → Inv (evs.foldl step s) := by
    induction evs with
    | nil => intro s h; exact h
    | cons e es ih => intro s h; exact ih _ (inv_step s e h)
  exact this _ inv_init

end GoHeader.Conc
