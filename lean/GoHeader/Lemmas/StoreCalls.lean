/-
  Lemmas.StoreCalls — the OnDelete handler call log of `Store.Seq.delLoop`.
-/
import GoHeader.Lemmas.Store
namespace GoHeader.Store

theorem runHandlers_length (s : St) (h : Nat) (hs : List Handler) (i : Nat) :
    (runHandlers s h hs i).1.length = hs.length := by
  induction hs generalizing i with
  | nil => simp [runHandlers]
  | cons hd rest ih =>
    unfold runHandlers; split
    · simp
    · simp [ih]

/-- every logged call is for height `h`, carries the readability of `h` at that moment, and the
    handler indexes count up from `i` -/
theorem runHandlers_calls (s : St) (h : Nat) (hs : List Handler) (i : Nat) :
    ∀ c ∈ (runHandlers s h hs i).2.1, c.height = h ∧ c.readable = (s.getByHeight h == .found) := by
  induction hs generalizing i with
  | nil => simp [runHandlers]
  | cons hd rest ih =>
    unfold runHandlers; split
    · intro c hc; simp at hc; subst hc; simp
    · intro c hc; simp at hc
      rcases hc with rfl | hc
      · simp
      · exact ih (i + 1) c hc

/-- when every handler returned nil, the log holds exactly one call per handler, in registration order -/
theorem runHandlers_ok_log (s : St) (h : Nat) (hs : List Handler) (i : Nat)
    (hok : (runHandlers s h hs i).2.2 = true) :
    (runHandlers s h hs i).2.1.map (·.handler) = List.range' i hs.length := by
  induction hs generalizing i with
  | nil => simp [runHandlers]
  | cons hd rest ih =>
    unfold runHandlers at hok ⊢
    split
    · rename_i hf; simp [hf] at hok
    · rename_i hf
      simp only [hf, if_false] at hok
      simp [List.range'_succ, ih (i + 1) hok]

/-- a failing handler is the last one logged (no later handler runs for that header) -/
theorem runHandlers_fail_log (s : St) (h : Nat) (hs : List Handler) (i : Nat)
    (hf : (runHandlers s h hs i).2.2 = false) :
    ∃ j, j < hs.length ∧ (runHandlers s h hs i).2.1.map (·.handler) = List.range' i (j + 1) := by
  induction hs generalizing i with
  | nil => simp [runHandlers] at hf
  | cons hd rest ih =>
    unfold runHandlers at hf ⊢
    split
    · exact ⟨0, by simp, by simp⟩
    · rename_i hnf
      simp only [hnf, if_false] at hf
      obtain ⟨j, hj, e⟩ := ih (i + 1) hf
      exact ⟨j + 1, by simp; omega, by simp [List.range'_succ, e]⟩

theorem found_of_stored (s : St) (hc : Coh s) (a : Nat) (h0 : 0 < a) (hin : a ∈ s.idx ∨ a ∈ s.pending) :
    s.getByHeight a = .found := by
  have hp : s.present a := by
    rcases hin with h | h
    · exact Or.inr ⟨h, (hc a).mp h⟩
    · exact Or.inl h
  unfold St.getByHeight; simp [lookup_of_present s a hp]; omega

/-- C14 core: every call `delLoop` adds to the log is for a height of the range and happened while
    that header was still readable through GetByHeight -/
theorem delLoop_calls (s : St) (hc : Coh s) (a n : Nat) (h0 : 0 < a) :
    ∃ added, (s.delLoop a n).1.calls = s.calls ++ added ∧
      ∀ c ∈ added, a ≤ c.height ∧ c.height < a + n ∧ c.readable = true := by
  induction n generalizing s a with
  | zero => exact ⟨[], by simp [St.delLoop], by simp⟩
  | succ m ih =>
    unfold St.delLoop
    split
    · rename_i hin
      have hfound := found_of_stored s hc a h0 hin
      have hcalls := runHandlers_calls s a s.handlers 0
      split
      · have hc1 : Coh ((s.afterHandlers a).delOne a) := coh_delOne _ _ (by simpa [St.afterHandlers, Coh] using hc)
        obtain ⟨added, e, hall⟩ := ih ((s.afterHandlers a).delOne a) hc1 (a + 1) (by omega)
        refine ⟨(runHandlers s a s.handlers 0).2.1 ++ added, ?_, ?_⟩
        · rw [e]; simp [St.delOne, St.afterHandlers]
        · intro c hcm
          simp at hcm
          rcases hcm with hcm | hcm
          · obtain ⟨x, y⟩ := hcalls c hcm
            exact ⟨by omega, by omega, by rw [y, hfound]; rfl⟩
          · obtain ⟨x, y, z⟩ := hall c hcm
            exact ⟨by omega, by omega, z⟩
      · refine ⟨(runHandlers s a s.handlers 0).2.1, by simp [St.afterHandlers], ?_⟩
        intro c hcm
        obtain ⟨x, y⟩ := hcalls c hcm
        exact ⟨by omega, by omega, by rw [y, hfound]; rfl⟩
    · obtain ⟨added, e, hall⟩ := ih s hc (a + 1) (by omega)
      exact ⟨added, e, fun c hcm => by obtain ⟨x, y, z⟩ := hall c hcm; exact ⟨by omega, by omega, z⟩⟩

/-- the (height, handler) pairs a fully successful delete logs: every stored height of the range, in
    ascending order, each with every handler once in registration order -/
def expectedCalls (stored : Nat → Bool) (nh : Nat) (a : Nat) : Nat → List (Nat × Nat)
  | 0 => []
  | n+1 => (if stored a then (List.range' 0 nh).map (fun i => (a, i)) else []) ++ expectedCalls stored nh (a+1) n

theorem expectedCalls_congr (f g : Nat → Bool) (nh : Nat) (n a : Nat) (h : ∀ k, a ≤ k → f k = g k) :
    expectedCalls f nh a n = expectedCalls g nh a n := by
  induction n generalizing a with
  | zero => simp [expectedCalls]
  | succ k ih =>
    simp only [expectedCalls]
    rw [h a (Nat.le_refl _), ih (a + 1) (fun k hk => h k (by omega))]

theorem delLoop_ok_log (s : St) (hc : Coh s) (a n : Nat) (hok : (s.delLoop a n).2 = none) :
    ∃ added, (s.delLoop a n).1.calls = s.calls ++ added ∧
      added.map (fun c => (c.height, c.handler)) =
        expectedCalls (fun h => decide (h ∈ s.idx ∨ h ∈ s.pending)) s.handlers.length a n ∧
      (s.delLoop a n).1.handlers.length = s.handlers.length := by
  induction n generalizing s a with
  | zero => exact ⟨[], by simp [St.delLoop], by simp [expectedCalls], by simp [St.delLoop]⟩
  | succ m ih =>
    unfold St.delLoop at hok ⊢
    split
    · rename_i hin
      split
      · rename_i hhok
        simp only [hin, hhok, if_true] at hok
        have hc1 : Coh ((s.afterHandlers a).delOne a) := coh_delOne _ _ (by simpa [St.afterHandlers, Coh] using hc)
        obtain ⟨added, e, hexp, hlen⟩ := ih ((s.afterHandlers a).delOne a) hc1 (a + 1) hok
        have hl : ((s.afterHandlers a).delOne a).handlers.length = s.handlers.length := by
          simp [St.delOne, St.afterHandlers, runHandlers_length]
        have hstab : ∀ h, a + 1 ≤ h →
            (decide (h ∈ ((s.afterHandlers a).delOne a).idx ∨ h ∈ ((s.afterHandlers a).delOne a).pending))
              = decide (h ∈ s.idx ∨ h ∈ s.pending) := by
          intro h hh
          have : h ≠ a := by omega
          simp [St.delOne, St.afterHandlers, this]
        have hexp' := expectedCalls_congr
          (fun h => decide (h ∈ ((s.afterHandlers a).delOne a).idx ∨ h ∈ ((s.afterHandlers a).delOne a).pending))
          (fun h => decide (h ∈ s.idx ∨ h ∈ s.pending)) s.handlers.length m (a + 1) hstab
        refine ⟨(runHandlers s a s.handlers 0).2.1 ++ added, ?_, ?_, by rw [hlen, hl]⟩
        · rw [e]; simp [St.delOne, St.afterHandlers]
        · have hlog := runHandlers_ok_log s a s.handlers 0 hhok
          have hhts := runHandlers_calls s a s.handlers 0
          have hpair : (runHandlers s a s.handlers 0).2.1.map (fun c => (c.height, c.handler))
              = (List.range' 0 s.handlers.length).map (fun i => (a, i)) := by
            rw [← hlog, List.map_map]
            apply List.map_congr_left
            intro c hcm; simp [(hhts c hcm).1]
          simp only [expectedCalls, List.map_append, hpair]
          rw [hexp, hl, hexp']; simp [hin]
      · rename_i hhok; simp [hin, hhok] at hok
    · rename_i hnin
      simp only [hnin, if_false] at hok
      obtain ⟨added, e, hexp, hlen⟩ := ih s hc (a + 1) hok
      refine ⟨added, e, ?_, hlen⟩
      simp only [expectedCalls]
      rw [hexp]; simp [hnin]

end GoHeader.Store
