/- helper lemmas for GoHeader.Sync.Ranges -/
import GoHeader.Sync.Ranges
namespace GoHeader.Ranges

theorem amt_le (s len e : Nat) : amt s len e ≤ len := by
  unfold amt; split
  · omega
  · split <;> omega

theorem contig_mem : ∀ {s : Nat} {xs : List Nat}, Contig s xs → ∀ x, x ∈ xs ↔ s ≤ x ∧ x < s + xs.length
  | _, [], _, x => by simp
  | s, y :: ys, h, x => by
    obtain ⟨rfl, h'⟩ := h
    have ih := contig_mem h' x
    simp only [List.mem_cons, List.length_cons, ih]
    omega

theorem contig_take : ∀ {s : Nat} {xs : List Nat} (e : Nat), Contig s xs →
    xs.take (amt s xs.length e) = xs.filter (· ≤ e)
  | _, [], _, _ => by simp
  | s, y :: ys, e, h => by
    obtain ⟨rfl, h'⟩ := h
    have ih := contig_take e h'
    by_cases hs : y ≤ e
    · have : amt y (ys.length + 1) e = amt (y + 1) ys.length e + 1 := by
        unfold amt; split <;> split <;> (try split) <;> (try split) <;> omega
      simp only [List.length_cons, this, List.take_succ_cons, List.filter_cons, decide_eq_true hs, if_true, ih]
    · have h0 : amt y (ys.length + 1) e = 0 := by unfold amt; split <;> omega
      have h1 : amt (y + 1) ys.length e = 0 := by unfold amt; split <;> omega
      rw [h1] at ih
      simp only [List.length_cons, h0, List.take_zero, List.filter_cons, decide_eq_false hs]
      simpa using ih

theorem contig_drop : ∀ {s : Nat} {xs : List Nat} (e : Nat), Contig s xs →
    xs.drop (amt s xs.length e) = xs.filter (· > e) ∧ Contig (s + amt s xs.length e) (xs.drop (amt s xs.length e))
  | _, [], _, _ => by simp [Contig]
  | s, y :: ys, e, h => by
    obtain ⟨rfl, h'⟩ := h
    have ih := contig_drop e h'
    by_cases hs : y ≤ e
    · have : amt y (ys.length + 1) e = amt (y + 1) ys.length e + 1 := by
        unfold amt; split <;> split <;> (try split) <;> (try split) <;> omega
      have hn : ¬ (y > e) := by omega
      simp only [List.length_cons, this, List.drop_succ_cons, List.filter_cons, decide_eq_false hn]
      refine ⟨by simpa using ih.1, ?_⟩
      have : y + (amt (y + 1) ys.length e + 1) = y + 1 + amt (y + 1) ys.length e := by omega
      rw [this]; exact ih.2
    · have h0 : amt y (ys.length + 1) e = 0 := by unfold amt; split <;> omega
      have h1 : amt (y + 1) ys.length e = 0 := by unfold amt; split <;> omega
      have hy : y > e := by omega
      rw [h1] at ih
      simp only [List.length_cons, h0, List.drop_zero, List.filter_cons, decide_eq_true hy, if_true, Nat.add_zero]
      refine ⟨?_, rfl, h'⟩
      have := ih.1; simp only [List.drop_zero] at this; rw [← this]

theorem contig_head : ∀ {s : Nat} {xs : List Nat}, Contig s xs → xs.headD s = s
  | _, [], _ => rfl
  | _, _ :: _, h => h.1

theorem contig_append {s : Nat} : ∀ {xs : List Nat}, Contig s xs → Contig s (xs ++ [s + xs.length])
  | [], _ => by simp [Contig]
  | y :: ys, h => by
    obtain ⟨rfl, h'⟩ := h
    have := contig_append (s := y + 1) h'
    refine ⟨rfl, ?_⟩
    have e : y + 1 + ys.length = y + (ys.length + 1) := by omega
    simpa [e] using this

theorem contig_getLast {s : Nat} : ∀ {xs : List Nat} {hd : Nat}, Contig s xs → xs.getLast? = some hd → hd + 1 = s + xs.length
  | [], _, _, h => by simp at h
  | [y], hd, hc, h => by
    obtain ⟨rfl, _⟩ := hc
    simp at h; subst h; simp
  | y :: z :: zs, hd, hc, h => by
    obtain ⟨rfl, h'⟩ := hc
    have : (z :: zs).getLast? = some hd := by simpa [List.getLast?_cons_cons] using h
    have := contig_getLast h' this
    simp only [List.length_cons] at this ⊢; omega

/-! ### the operations keep the invariant -/

theorem contig_headD {s d : Nat} : ∀ {xs : List Nat}, Contig s xs → Contig (xs.headD d) xs
  | [], _ => trivial
  | _ :: _, h => by obtain ⟨rfl, h'⟩ := h; exact ⟨rfl, h'⟩

theorem remove_wf {r : Rng} (e : Nat) (h : r.WF) : (remove r e).WF := by
  unfold Rng.WF at *
  exact contig_headD (contig_drop e h).2


theorem get_spec {r : Rng} (e : Nat) (h : r.WF) : get r e = r.hs.filter (· ≤ e) := contig_take e h
theorem remove_spec {r : Rng} (e : Nat) (h : r.WF) : (remove r e).hs = r.hs.filter (· > e) := (contig_drop e h).1

theorem headOf_snoc : ∀ (pre : Ranges) (r : Rng), headOf (pre ++ [r]) = r.hs.getLast?
  | [], _ => rfl
  | [p], r => rfl
  | p :: q :: rest, r => by
    have := headOf_snoc (q :: rest) r
    simpa [headOf] using this

theorem heights_snoc (pre : Ranges) (r : Rng) : heights (pre ++ [r]) = heights pre ++ r.hs := by
  simp [heights]

/-- what `Add` does, by cases on the head of the last range -/
theorem add_cases : ∀ (rs : Ranges) (h : Nat),
    (add rs h = rs ∧ ∃ hd, headOf rs = some hd ∧ hd ≥ h) ∨
    (add rs h = rs ++ [⟨h, [h]⟩] ∧ (headOf rs = none ∨ ∃ hd, headOf rs = some hd ∧ hd + 1 < h)) ∨
    (∃ pre r hd, rs = pre ++ [r] ∧ r.hs.getLast? = some hd ∧ h = hd + 1 ∧ add rs h = pre ++ [{ r with hs := r.hs ++ [h] }])
  | [], h => by right; left; simp [add, headOf]
  | [r], h => by
    unfold add headOf
    cases hl : r.hs.getLast? with
    | none => right; left; simp
    | some hd =>
      simp only
      by_cases h1 : hd ≥ h
      · left; simp [h1]
      · by_cases h2 : h = hd + 1
        · right; right; exact ⟨[], r, hd, rfl, hl, h2, by subst h2; simp; omega⟩
        · right; left; simp only [h1, h2, if_false, List.cons_append, List.nil_append, true_and]
          right; exact ⟨hd, rfl, by omega⟩
  | r :: r' :: rest, h => by
    have ih := add_cases (r' :: rest) h
    have hh : headOf (r :: r' :: rest) = headOf (r' :: rest) := rfl
    have ha : add (r :: r' :: rest) h = r :: add (r' :: rest) h := rfl
    rw [hh, ha]
    rcases ih with ⟨e, hd⟩ | ⟨e, hd⟩ | ⟨pre, q, hd, e1, e2, e3, e4⟩
    · left; exact ⟨by rw [e], hd⟩
    · right; left; exact ⟨by rw [e]; rfl, hd⟩
    · right; right; exact ⟨r :: pre, q, hd, by rw [e1]; rfl, e2, e3, by rw [e4]; rfl⟩

theorem snoc_cases : ∀ (rs : Ranges), rs = [] ∨ ∃ pre r, rs = pre ++ [r]
  | [] => Or.inl rfl
  | r :: rest => by
    right
    rcases snoc_cases rest with h | ⟨pre, q, h⟩
    · exact ⟨[], r, by simp [h]⟩
    · exact ⟨r :: pre, q, by simp [h]⟩

theorem inv_snoc {pre : Ranges} {r : Rng} :
    Inv (pre ++ [r]) ↔ Inv pre ∧ r.WF ∧ (∀ a ∈ pre, Sep a r) ∧ (∀ a ∈ pre, EP a r) := by
  constructor
  · intro ⟨wf, sep, ep⟩
    rw [List.pairwise_append] at sep ep
    refine ⟨⟨fun a ha => wf a (by simp [ha]), sep.1, ep.1⟩, wf r (by simp), ?_, ?_⟩
    · intro a ha; exact sep.2.2 a ha r (by simp)
    · intro a ha; exact ep.2.2 a ha r (by simp)
  · intro ⟨⟨wf, sep, ep⟩, wr, s2, e2⟩
    refine ⟨?_, ?_, ?_⟩
    · intro a ha
      rcases List.mem_append.1 ha with h | h
      · exact wf a h
      · have : a = r := by simpa using h
        exact this ▸ wr
    · rw [List.pairwise_append]
      refine ⟨sep, by simp, fun a ha b hb => ?_⟩
      have : b = r := by simpa using hb
      exact this ▸ s2 a ha
    · rw [List.pairwise_append]
      refine ⟨ep, by simp, fun a ha b hb => ?_⟩
      have : b = r := by simpa using hb
      exact this ▸ e2 a ha

/-- under the invariant the head of the last range is the maximum of all cached heights -/
theorem inv_head_max {rs : Ranges} (hi : Inv rs) {hd : Nat} (hh : headOf rs = some hd) :
    hd ∈ heights rs ∧ ∀ x ∈ heights rs, x ≤ hd := by
  rcases snoc_cases rs with rfl | ⟨pre, r, rfl⟩
  · simp [headOf] at hh
  · rw [headOf_snoc] at hh
    obtain ⟨ip, wr, s2, _⟩ := inv_snoc.1 hi
    have hmem : hd ∈ r.hs := List.mem_of_getLast? hh
    have hlen := contig_getLast wr hh
    rw [heights_snoc]
    refine ⟨by simp [hmem], ?_⟩
    intro x hx
    rcases List.mem_append.1 hx with h | h
    · obtain ⟨a, ha, hxa⟩ := List.mem_flatMap.1 h
      have := s2 a ha x hxa hd hmem; omega
    · have := (contig_mem wr x).1 h; omega

/-- … and when that head is zero nothing is cached at all -/
theorem inv_head_none {rs : Ranges} (hi : Inv rs) (hh : headOf rs = none) : heights rs = [] := by
  rcases snoc_cases rs with rfl | ⟨pre, r, rfl⟩
  · rfl
  · rw [headOf_snoc] at hh
    obtain ⟨_, _, _, e2⟩ := inv_snoc.1 hi
    have hr : r.hs = [] := List.getLast?_eq_none_iff.1 hh
    rw [heights_snoc, hr]
    simp only [heights, List.append_nil, List.flatMap_eq_nil_iff]
    intro a ha; exact e2 a ha hr

theorem add_inv {rs : Ranges} (h : Nat) (hi : Inv rs) : Inv (add rs h) := by
  rcases add_cases rs h with ⟨e, _⟩ | ⟨e, hd⟩ | ⟨pre, r, hd, rfl, e2, e3, e4⟩
  · rw [e]; exact hi
  · rw [e]
    refine inv_snoc.2 ⟨hi, ⟨rfl, trivial⟩, ?_, ?_⟩
    · intro a ha x hx y hy
      have hy' : y = h := by simpa using hy
      have hxm : x ∈ heights rs := List.mem_flatMap.2 ⟨a, ha, hx⟩
      rcases hd with hn | ⟨d, hd1, hd2⟩
      · rw [inv_head_none hi hn] at hxm; simp at hxm
      · have := (inv_head_max hi hd1).2 x hxm; omega
    · intro a _ hne; simp at hne
  · rw [e4]
    obtain ⟨ip, wr, s2, ep2⟩ := inv_snoc.1 hi
    have hlen := contig_getLast wr e2
    refine inv_snoc.2 ⟨ip, ?_, ?_, ?_⟩
    · show Contig r.start (r.hs ++ [h])
      have : h = r.start + r.hs.length := by omega
      rw [this]; exact contig_append wr
    · intro a ha x hx y hy
      rcases List.mem_append.1 hy with hy | hy
      · exact s2 a ha x hx y hy
      · have hy' : y = h := by simpa using hy
        have := s2 a ha x hx hd (List.mem_of_getLast? e2); omega
    · intro a _ hne; simp at hne

theorem clean_inv : ∀ {rs : Ranges}, Inv rs → Inv (clean rs)
  | [], h => h
  | r :: rest, h => by
    unfold clean
    split
    · exact clean_inv ⟨fun a ha => h.wf a (by simp [ha]), (List.pairwise_cons.1 h.sep).2, (List.pairwise_cons.1 h.ep).2⟩
    · exact h

theorem heights_clean : ∀ (rs : Ranges), heights (clean rs) = heights rs
  | [] => rfl
  | r :: rest => by
    unfold clean
    split
    · rename_i he
      have : r.hs = [] := by simpa using he
      rw [heights_clean rest]; simp [heights, this]
    · rfl

theorem remove_subset (r : Rng) (e : Nat) : ∀ x ∈ (remove r e).hs, x ∈ r.hs := by
  intro x hx; exact List.mem_of_mem_drop hx

theorem removeFirst_inv {rs : Ranges} (e : Nat) (hi : Inv rs) : Inv (removeFirst rs e) := by
  cases rs with
  | nil => exact hi
  | cons r rest =>
    obtain ⟨wf, sep, ep⟩ := hi
    rw [List.pairwise_cons] at sep ep
    refine ⟨?_, ?_, ?_⟩
    · intro a ha
      rcases List.mem_cons.1 ha with rfl | ha
      · exact remove_wf e (wf r (by simp))
      · exact wf a (by simp [ha])
    · show List.Pairwise Sep (remove r e :: rest)
      rw [List.pairwise_cons]
      exact ⟨fun b hb x hx y hy => sep.1 b hb x (remove_subset r e x hx) y hy, sep.2⟩
    · show List.Pairwise EP (remove r e :: rest)
      rw [List.pairwise_cons]
      refine ⟨fun b hb hne => ?_, ep.2⟩
      have := ep.1 b hb hne
      show (r.hs.drop _) = []
      rw [this]; simp


/-! ### `Add` split into its read and its apply, with the loop's `Remove` in between -/

theorem addApply_addRead : ∀ (rs : Ranges) (h : Nat), addApply true rs (addRead rs h) h = add rs h
  | [], h => by simp [addRead, headOf, addApply, add]
  | [r], h => by
    unfold addRead headOf add
    cases hl : r.hs.getLast? with
    | none => simp [addApply]
    | some hd =>
      have hne : r.hs ≠ [] := by intro e; rw [e] at hl; simp at hl
      simp only
      by_cases h1 : hd ≥ h
      · simp [h1, addApply]
      · by_cases h2 : h = hd + 1
        · subst h2
          have h3 : ¬ (hd + 1 ≤ hd) := by omega
          simp [h3, addApply, appendLast, hne]
        · simp [h1, h2, addApply]
  | r :: r' :: rest, h => by
    have ih := addApply_addRead (r' :: rest) h
    have hr : addRead (r :: r' :: rest) h = addRead (r' :: rest) h := rfl
    have ha : add (r :: r' :: rest) h = r :: add (r' :: rest) h := rfl
    rw [hr, ha, ← ih]
    cases addRead (r' :: rest) h <;> simp [addApply, appendLast]

theorem addApply_cons2 (a r' : Rng) (rest : Ranges) (plan : AddPlan) (h : Nat) :
    addApply true (a :: r' :: rest) plan h = a :: addApply true (r' :: rest) plan h := by
  cases plan <;> simp [addApply, appendLast]

theorem getLast?_drop_of_ne {xs : List Nat} {n : Nat} (h : xs.drop n ≠ []) : (xs.drop n).getLast? = xs.getLast? := by
  rw [List.getLast?_drop]
  have : ¬ xs.length ≤ n := by
    intro hc; exact h (List.drop_eq_nil_of_le hc)
  simp [this]

/-- `Add(h)` has read the head of the last range, the sync loop's `Remove(e)` runs on the first range, `Add` applies its
    decision: the invariant still holds (after the F42 repair) -/
theorem add_split_inv : ∀ {rs : Ranges} (h e : Nat), Inv rs → Inv (addApply true (removeFirst rs e) (addRead rs h) h)
  | [], h, e, _ => by
    simp only [removeFirst, addRead, headOf, addApply, List.nil_append]
    refine ⟨?_, by simp, by simp⟩
    intro r hr
    have : r = ⟨h, [h]⟩ := by simpa using hr
    subst this; exact ⟨rfl, trivial⟩
  | [r], h, e, hi => by
    have hr : Inv [remove r e] := removeFirst_inv e hi
    have wr : r.WF := hi.wf r (by simp)
    show Inv (addApply true [remove r e] (addRead [r] h) h)
    unfold addRead headOf
    cases hl : r.hs.getLast? with
    | none =>
      have hre : r.hs = [] := List.getLast?_eq_none_iff.1 hl
      have : (remove r e).hs = [] := by simp [remove, hre]
      simp only [addApply]
      refine (inv_snoc (pre := [remove r e])).2 ⟨hr, ⟨rfl, trivial⟩, ?_, ?_⟩
      · intro a ha x hx; have : a = remove r e := by simpa using ha
        subst this; rw [‹(remove r e).hs = []›] at hx; simp at hx
      · intro a _ hne; simp at hne
    | some hd =>
      simp only
      by_cases h1 : hd ≥ h
      · simpa [h1, addApply] using hr
      · have hmax : ∀ x ∈ (remove r e).hs, x ≤ hd := by
          intro x hx
          have hxr := remove_subset r e x hx
          have := (contig_mem wr x).1 hxr
          have := contig_getLast wr hl; omega
        by_cases h2 : h = hd + 1
        · subst h2
          have h3 : ¬ (hd ≥ hd + 1) := by omega
          simp only [h3, if_false, if_true, addApply, appendLast, Bool.and_true]
          by_cases hem : (remove r e).hs = []
          · simp only [hem, List.isEmpty_nil, if_true]
            refine ⟨?_, by simp, by simp⟩
            intro q hq
            have : q = ⟨hd + 1, [hd + 1]⟩ := by simpa using hq
            subst this; exact ⟨rfl, trivial⟩
          · have hne' : (remove r e).hs.isEmpty = false := by simpa using hem
            simp only [hne', Bool.false_eq_true, if_false]
            have wr' := remove_wf e wr
            have hlast : (remove r e).hs.getLast? = some hd := by
              show (r.hs.drop _).getLast? = some hd
              rw [getLast?_drop_of_ne hem]; exact hl
            have hlen := contig_getLast wr' hlast
            refine ⟨?_, by simp, by simp⟩
            intro q hq
            have : q = { remove r e with hs := (remove r e).hs ++ [hd + 1] } := by simpa using hq
            subst this
            show Contig (remove r e).start ((remove r e).hs ++ [hd + 1])
            have : hd + 1 = (remove r e).start + (remove r e).hs.length := by omega
            rw [this]; exact contig_append wr'
        · simp only [h1, h2, if_false, addApply]
          refine (inv_snoc (pre := [remove r e])).2 ⟨hr, ⟨rfl, trivial⟩, ?_, ?_⟩
          · intro a ha x hx y hy
            have : a = remove r e := by simpa using ha
            subst this
            have hy' : y = h := by simpa using hy
            have := hmax x hx; omega
          · intro a _ hne; simp at hne
  | r :: r' :: rest, h, e, hi => by
    have hrd : addRead (r :: r' :: rest) h = addRead (r' :: rest) h := rfl
    show Inv (addApply true (remove r e :: r' :: rest) (addRead (r :: r' :: rest) h) h)
    rw [hrd, addApply_cons2, addApply_addRead]
    have := removeFirst_inv e (add_inv h hi)
    exact this

/-! ### the cache loop of processHeaders -/

theorem heights_cons (r : Rng) (rest : Ranges) : heights (r :: rest) = r.hs ++ heights rest := by simp [heights]

theorem clean_length_le : ∀ (rs : Ranges), (clean rs).length ≤ rs.length
  | [] => Nat.le_refl _
  | r :: rest => by
    unfold clean; split
    · exact Nat.le_trans (clean_length_le rest) (Nat.le_succ _)
    · exact Nat.le_refl _

theorem clean_head_ne : ∀ {rs : Ranges} {r : Rng} {rest : Ranges}, clean rs = r :: rest → r.hs ≠ []
  | [], _, _, h => by simp [clean] at h
  | q :: qs, r, rest, h => by
    unfold clean at h
    split at h
    · exact clean_head_ne h
    · rename_i hne
      have : q = r := by injection h
      subst this; simpa using hne

theorem clean_of_ne {r : Rng} {rest : Ranges} (h : r.hs ≠ []) : clean (r :: rest) = r :: rest := by
  unfold clean; simp [h]

/-- everything cached lies above `to` once the first (non-empty) range starts above it -/
theorem all_above {r : Rng} {rest : Ranges} {to : Nat} (hi : Inv (r :: rest)) (hne : r.hs ≠ []) (hg : get r to = []) :
    ∀ x ∈ heights (r :: rest), x > to := by
  have wr : r.WF := hi.wf r (by simp)
  rw [get_spec to wr] at hg
  have hr : ∀ x ∈ r.hs, x > to := by
    intro x hx
    have := List.filter_eq_nil_iff.1 hg x hx
    simp at this; omega
  intro x hx
  rw [heights_cons] at hx
  rcases List.mem_append.1 hx with h | h
  · exact hr x h
  · obtain ⟨y, hy⟩ := List.exists_mem_of_ne_nil _ hne
    obtain ⟨b, hb, hxb⟩ := List.mem_flatMap.1 h
    have := (List.pairwise_cons.1 hi.sep).1 b hb y hy x hxb
    have := hr y hy; omega

theorem filter_all_gt {xs : List Nat} {to : Nat} (h : ∀ x ∈ xs, x > to) :
    xs.filter (· ≤ to) = [] ∧ xs.filter (· > to) = xs := by
  constructor
  · apply List.filter_eq_nil_iff.2; intro x hx; have := h x hx; simp; omega
  · apply List.filter_eq_self.2; intro x hx; have := h x hx; simpa using this

theorem drain_spec (to : Nat) : ∀ (fuel : Nat) (rs : Ranges), Inv rs → (clean rs).length ≤ fuel →
    (drain fuel rs to).1 = (heights rs).filter (· ≤ to) ∧
    heights (drain fuel rs to).2 = (heights rs).filter (· > to) ∧ Inv (drain fuel rs to).2
  | 0, rs, hi, hl => by
    have hc : clean rs = [] := List.eq_nil_of_length_eq_zero (Nat.le_zero.1 hl)
    have hh : heights rs = [] := by rw [← heights_clean rs, hc]; rfl
    simp only [drain, hh, List.filter_nil, hc, true_and]
    exact ⟨rfl, clean_inv hi |> (hc ▸ ·)⟩
  | f + 1, rs, hi, hl => by
    have hic := clean_inv hi
    cases hc : clean rs with
    | nil =>
      have hh : heights rs = [] := by rw [← heights_clean rs, hc]; rfl
      simp only [drain, drainStep, hc, hh, List.filter_nil, true_and]
      exact ⟨rfl, hc ▸ hic⟩
    | cons r rest =>
      rw [hc] at hic hl
      have hne := clean_head_ne hc
      have wr : r.WF := hic.wf r (by simp)
      have hhs : heights rs = r.hs ++ heights rest := by rw [← heights_clean rs, hc, heights_cons]
      by_cases hg : (get r to).isEmpty
      · -- nothing up to `to` in the first range: the loop breaks
        have hg' : get r to = [] := by simpa using hg
        have hall := all_above hic hne hg'
        have hf := filter_all_gt hall
        rw [heights_cons] at hf
        simp only [drain, drainStep, hc, hg, if_true, hhs]
        exact ⟨hf.1.symm, by rw [heights_cons]; exact hf.2.symm, hic⟩
      · have hstep : drainStep rs to = some (get r to, remove r to :: rest) := by
          simp only [drainStep, hc, hg, Bool.false_eq_true, if_false]
        have hi' : Inv (remove r to :: rest) := removeFirst_inv to hic
        have hget := get_spec to wr
        have hrem := remove_spec to wr
        by_cases hem : (remove r to).hs = []
        · -- the range is used up: the next `First()` drops it and the loop goes on with the rest
          have hcl : clean (remove r to :: rest) = clean rest := by simp only [clean, hem, List.isEmpty_nil, if_true]
          have hl' : (clean (remove r to :: rest)).length ≤ f := by
            rw [hcl]; have := clean_length_le rest; simp at hl; omega
          obtain ⟨ih1, ih2, ih3⟩ := drain_spec to f (remove r to :: rest) hi' hl'
          have hh' : heights (remove r to :: rest) = heights rest := by rw [heights_cons, hem]; rfl
          simp only [drain, hstep]
          refine ⟨?_, ?_, ih3⟩
          · rw [ih1, hh', hhs, List.filter_append, hget]
          · rw [ih2, hh', hhs, List.filter_append, ← hrem, hem]; rfl
        · -- something above `to` is left in the range: the next iteration finds nothing up to `to` and breaks
          have hcl : clean (remove r to :: rest) = remove r to :: rest := clean_of_ne hem
          have hnext : get (remove r to) to = [] := by
            rw [get_spec to (remove_wf to wr), hrem, List.filter_filter]
            apply List.filter_eq_nil_iff.2; intro x _; simp
          have hall := all_above hi' hem hnext
          have hrest : ∀ x ∈ heights rest, x > to := fun x hx => hall x (by rw [heights_cons]; simp [hx])
          have hfr := filter_all_gt hrest
          have hd : drain f (remove r to :: rest) to = ([], remove r to :: rest) := by
            cases f with
            | zero => simp [drain, hcl]
            | succ f' => simp [drain, drainStep, hcl, hnext]
          simp only [drain, hstep, hd, List.append_nil]
          refine ⟨?_, ?_, hi'⟩
          · rw [hhs, List.filter_append, hfr.1, List.append_nil, hget]
          · rw [heights_cons, hhs, List.filter_append, hfr.2, hrem]

theorem contig_pairwise : ∀ {s : Nat} {xs : List Nat}, Contig s xs → xs.Pairwise (· < ·)
  | _, [], _ => List.Pairwise.nil
  | s, y :: ys, h => by
    obtain ⟨rfl, h'⟩ := h
    rw [List.pairwise_cons]
    exact ⟨fun x hx => by have := (contig_mem h' x).1 hx; omega, contig_pairwise h'⟩

/-- under the invariant the cached heights are strictly ascending -/
theorem heights_sorted : ∀ {rs : Ranges}, Inv rs → (heights rs).Pairwise (· < ·)
  | [], _ => by simp [heights]
  | r :: rest, hi => by
    have hrest : Inv rest := ⟨fun a ha => hi.wf a (by simp [ha]), (List.pairwise_cons.1 hi.sep).2, (List.pairwise_cons.1 hi.ep).2⟩
    rw [heights_cons, List.pairwise_append]
    refine ⟨contig_pairwise (hi.wf r (by simp)), heights_sorted hrest, ?_⟩
    intro x hx y hy
    obtain ⟨b, hb, hyb⟩ := List.mem_flatMap.1 hy
    have := (List.pairwise_cons.1 hi.sep).1 b hb x hx y hyb; omega

theorem prune_inv {rs : Ranges} (e : Nat) (hi : Inv rs) : Inv (prune rs e) := by
  have hboth : rs.Pairwise (fun a b => Sep a b ∧ EP a b) := hi.sep.and hi.ep
  refine ⟨?_, ?_, ?_⟩
  · intro r' hr'
    obtain ⟨r, hr, rfl⟩ := List.mem_map.1 hr'
    exact remove_wf e (hi.wf r hr)
  · unfold prune; rw [List.pairwise_map]
    exact hi.sep.imp (fun {a b} hab x hx y hy => hab x (remove_subset a e x hx) y (remove_subset b e y hy))
  · unfold prune; rw [List.pairwise_map]
    refine hboth.imp_of_mem (fun {a b} ha hb hab hbe => ?_)
    have wa := hi.wf a ha
    have wb := hi.wf b hb
    rw [remove_spec e wa]; rw [remove_spec e wb] at hbe
    apply List.filter_eq_nil_iff.2
    intro x hx
    by_cases hbn : b.hs = []
    · have := hab.2 hbn; rw [this] at hx; simp at hx
    · obtain ⟨y, hy⟩ := List.exists_mem_of_ne_nil _ hbn
      have h1 := hab.1 x hx y hy
      have h2 := List.filter_eq_nil_iff.1 hbe y hy
      simp at h2 ⊢; omega

end GoHeader.Ranges
