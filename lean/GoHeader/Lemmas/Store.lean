/-
  Lemmas.Store — helper lemmas about `Store.Seq` (walks, flush stages, delete loop).
  Property theorems live in Props/C04, C08, C14, C06.
-/
import GoHeader.Store.Seq
namespace GoHeader.Store

/-! ### walks -/

theorem walkUp_ge (p) (f h : Nat) : h ≤ walkUp p f h := by
  induction f generalizing h with
  | zero => simp [walkUp]
  | succ n ih => unfold walkUp; split; (have := ih (h+1); omega); omega

theorem walkUp_run (p) (f h : Nat) : ∀ k, h < k → k ≤ walkUp p f h → p k = true := by
  induction f generalizing h with
  | zero => intro k h1 h2; simp [walkUp] at h2; omega
  | succ n ih =>
    intro k h1 h2; unfold walkUp at h2; split at h2
    · rename_i hp
      by_cases hk : k = h+1
      · subst hk; exact hp
      · exact ih (h+1) k (by omega) h2
    · omega

theorem walkUp_top (p : Nat → Bool) (bound : Nat) (hb : ∀ k, bound < k → p k = false) (f h : Nat)
    (hf : bound ≤ h + f) : p (walkUp p f h + 1) = false := by
  induction f generalizing h with
  | zero => simp [walkUp]; exact hb _ (by omega)
  | succ n ih =>
    unfold walkUp; split
    · exact ih (h+1) (by omega)
    · rename_i hp; simpa using hp

theorem walkDown_le (p) (f h : Nat) : walkDown p f h ≤ h := by
  induction f generalizing h with
  | zero => simp [walkDown]
  | succ n ih =>
    unfold walkDown; split; omega
    split; (have := ih (h-1); omega); omega

theorem walkDown_run (p) (f h : Nat) : ∀ k, walkDown p f h ≤ k → k < h → p k = true := by
  induction f generalizing h with
  | zero => intro k h1 h2; simp [walkDown] at h1; omega
  | succ n ih =>
    intro k h1 h2; unfold walkDown at h1
    split at h1
    · omega
    · split at h1
      · rename_i hz hp
        by_cases hk : k = h-1
        · subst hk; exact hp
        · exact ih (h-1) k h1 (by omega)
      · omega

theorem le_maxOf {l : List Nat} {x : Nat} (h : x ∈ l) : x ≤ maxOf l := by
  induction l with
  | nil => cases h
  | cons a as ih =>
    simp [maxOf]; cases h with
    | head => omega
    | tail _ h' => have := ih h'; omega

/-! ### the invariants -/

def Coh (s : St) : Prop := ∀ h, h ∈ s.idx ↔ h ∈ s.hdr

/-- the store invariant: both ends set or unset, Tail ≤ Head, every height between them present,
    Head is the top of the run, Height() = Head -/
def Inv (s : St) : Prop :=
  (s.head = none ↔ s.tail = none) ∧ Coh s ∧
  ∀ hd tl, s.head = some hd → s.tail = some tl →
    tl ≤ hd ∧ (∀ h, tl ≤ h → h ≤ hd → s.present h) ∧ ¬ s.present (hd+1) ∧ s.hs = hd

/-- weaker invariant between the stages of the flush closure -/
def Pre (s : St) : Prop :=
  Coh s ∧ ∃ hd tl, s.head = some hd ∧ s.tail = some tl ∧ tl ≤ hd ∧
    (∀ h, tl ≤ h → h ≤ hd → s.present h) ∧ s.hs = hd

/-- persisted pointers are current, or the end they lag behind is still in the write batch -/
def PtrInv (s : St) : Prop :=
  (s.headPtr = s.head ∨ ∃ hd, s.head = some hd ∧ hd ∈ s.pending) ∧
  (s.tailPtr = s.tail ∨ ∃ tl, s.tail = some tl ∧ tl ∈ s.pending)

theorem present_le_bound (s : St) (k : Nat) (h : s.present k) : k ≤ s.bound := by
  unfold St.bound
  rcases h with h | ⟨h, _⟩
  · have := le_maxOf h; omega
  · have := le_maxOf h; omega

theorem lookup_iff_present (s : St) (hi : Coh s)
    (hp : ∀ hd, s.head = some hd → s.present hd) (ht : ∀ tl, s.tail = some tl → s.present tl) (h : Nat) :
    s.lookup h = true ↔ s.present h := by
  unfold St.lookup St.present St.byHash
  simp only [Bool.or_eq_true, Bool.and_eq_true, decide_eq_true_eq, beq_iff_eq]
  constructor
  · rintro (((h1 | h1) | h1) | ⟨h1, h2⟩)
    · exact hp h h1
    · exact ht h h1
    · exact Or.inl h1
    · rcases h2 with h2 | h2
      · exact Or.inl h2
      · exact Or.inr ⟨h1, h2⟩
  · rintro (h1 | ⟨h1, h2⟩)
    · exact Or.inl (Or.inr h1)
    · exact Or.inr ⟨h1, Or.inr h2⟩

theorem lookup_eq_present_of_pre (s : St) (hp : Pre s) (h : Nat) : s.lookup h = true ↔ s.present h := by
  obtain ⟨hi, hd, tl, e1, e2, hle, hall, _⟩ := hp
  apply lookup_iff_present s hi
  · intro hd' e; rw [e1] at e; cases e; exact hall hd hle (Nat.le_refl _)
  · intro tl' e; rw [e2] at e; cases e; exact hall tl (Nat.le_refl _) hle

theorem lookup_eq_present_of_inv (s : St) (hi : Inv s) (h : Nat) : s.lookup h = true ↔ s.present h := by
  obtain ⟨hnone, hc, hrun⟩ := hi
  apply lookup_iff_present s hc
  · intro hd e
    cases ht : s.tail with
    | none => exact absurd (hnone.mpr ht) (by simp [e])
    | some tl => obtain ⟨a, b, _, _⟩ := hrun hd tl e ht; exact b hd a (Nat.le_refl _)
  · intro tl e
    cases hh : s.head with
    | none => exact absurd (hnone.mp hh) (by simp [e])
    | some hd => obtain ⟨a, b, _, _⟩ := hrun hd tl hh e; exact b tl (Nat.le_refl _) a

/-! ### advance ; recede turns `Pre` into `Inv` -/

theorem inv_advance_recede (s : St) (hp : Pre s) : Inv s.advance.recede := by
  have hbp := lookup_eq_present_of_pre s hp
  obtain ⟨hi, hd, tl, e1, e2, hle, hall, hhs⟩ := hp
  have hb : ∀ k, s.bound < k → s.lookup k = false := by
    intro k hk
    cases hbk : s.lookup k with
    | false => rfl
    | true => have := present_le_bound s k ((hbp k).mp hbk); omega
  let nh := walkUp s.lookup (s.bound + 1) hd
  have hge : hd ≤ nh := walkUp_ge _ _ _
  have hrun : ∀ k, hd < k → k ≤ nh → s.present k := fun k a b => (hbp k).mp (walkUp_run _ _ _ k a b)
  have htop : ¬ s.present (nh + 1) := by
    intro hc
    have := walkUp_top s.lookup s.bound hb (s.bound + 1) hd (by omega)
    rw [(hbp _).mpr hc] at this; cases this
  have hadv : s.advance = { s with head := some nh, hs := if nh = hd then s.hs else max s.hs nh } := by
    simp [St.advance, e1, nh]
  have hhs' : (if nh = hd then s.hs else max s.hs nh) = nh := by
    split
    · omega
    · omega
  rw [hhs'] at hadv
  have hpres1 : ∀ k, s.advance.present k ↔ s.present k := by intro k; simp [hadv, St.present]
  have hall1 : ∀ h, tl ≤ h → h ≤ nh → s.present h := by
    intro h h1 h2
    by_cases hc : h ≤ hd
    · exact hall h h1 hc
    · exact hrun h (by omega) h2
  have hpre1 : Pre s.advance := by
    refine ⟨by simpa [hadv, Coh] using hi, nh, tl, by simp [hadv], by simp [hadv, e2], by omega, ?_, by simp [hadv]⟩
    intro h h1 h2; exact (hpres1 h).mpr (hall1 h h1 h2)
  have hbp1 := lookup_eq_present_of_pre s.advance hpre1
  let nt := walkDown s.advance.lookup tl tl
  have hrec : s.advance.recede = { s.advance with tail := some nt } := by
    simp [St.recede, hadv, e2, nt]
  have htl : nt ≤ tl := walkDown_le _ _ _
  have hdown : ∀ k, nt ≤ k → k < tl → s.present k := fun k a b =>
    (hpres1 k).mp ((hbp1 k).mp (walkDown_run _ _ _ k a b))
  have hrec' : s.advance.recede = { s with head := some nh, hs := nh, tail := some nt } := by
    rw [hrec, hadv]
  rw [hrec']
  refine ⟨by simp, by simpa [Coh] using hi, ?_⟩
  intro hd' tl' eh et
  have eh' : hd' = nh := by simpa using eh.symm
  have et' : tl' = nt := by simpa using et.symm
  subst eh' et'
  have hpres2 : ∀ k, St.present { s with head := some nh, hs := nh, tail := some nt } k ↔ s.present k := by
    intro k; simp [St.present]
  refine ⟨by omega, ?_, ?_, rfl⟩
  · intro h h1 h2
    apply (hpres2 h).mpr
    by_cases hc : tl ≤ h
    · exact hall1 h hc h2
    · exact hdown h h1 (by omega)
  · intro hc; exact htop ((hpres2 _).mp hc)

/-- `Inv` implies `Pre` once the ends are set -/
theorem pre_of_inv (s : St) (hi : Inv s) (hd : Nat) (hh : s.head = some hd) : Pre s := by
  obtain ⟨hnone, hc, hrun⟩ := hi
  cases ht : s.tail with
  | none => exact absurd (hnone.mpr ht) (by simp [hh])
  | some tl =>
    obtain ⟨a, b, _, d⟩ := hrun hd tl hh ht
    exact ⟨hc, hd, tl, hh, ht, a, b, d⟩

/-- advance ; recede preserves `Inv` also when the store is empty -/
theorem inv_advance_recede_of_inv (s : St) (hi : Inv s) : Inv s.advance.recede := by
  cases hh : s.head with
  | none =>
    have ht : s.tail = none := hi.1.mp hh
    have : s.advance.recede = s := by simp [St.advance, St.recede, hh, ht]
    rw [this]; exact hi
  | some hd => exact inv_advance_recede s (pre_of_inv s hi hd hh)

theorem present_advance_recede (s : St) (k : Nat) : s.advance.recede.present k ↔ s.present k := by
  unfold St.advance St.recede St.present
  cases s.head <;> cases s.tail <;> simp

theorem pending_advance_recede (s : St) : s.advance.recede.pending = s.pending := by
  unfold St.advance St.recede
  cases s.head <;> cases s.tail <;> simp

/-! ### commit -/

theorem present_commit (s : St) (hc : Coh s) (k : Nat) : s.commit.present k ↔ s.present k := by
  unfold St.commit
  simp only [St.present, mem_union, List.not_mem_nil, false_or]
  have := hc k
  constructor
  · rintro ⟨h1 | h1, h2 | h2⟩
    · exact Or.inr ⟨h1, h2⟩
    · exact Or.inl h2
    · exact Or.inl h1
    · exact Or.inl h1
  · rintro (h | ⟨h1, h2⟩)
    · exact ⟨Or.inr h, Or.inr h⟩
    · exact ⟨Or.inl h1, Or.inl h2⟩

theorem coh_commit (s : St) (hc : Coh s) : Coh s.commit := by
  unfold St.commit
  intro h; simp [hc h]

theorem inv_commit (s : St) (hi : Inv s) : Inv s.commit := by
  obtain ⟨hnone, hc, hrun⟩ := hi
  have hpres := present_commit s hc
  have hptr : s.commit.head = s.head ∧ s.commit.tail = s.tail ∧ s.commit.hs = s.hs := by
    unfold St.commit; simp
  refine ⟨by rw [hptr.1, hptr.2.1]; exact hnone, coh_commit s hc, ?_⟩
  intro hd tl eh et
  rw [hptr.1] at eh; rw [hptr.2.1] at et
  obtain ⟨a, b, c, d⟩ := hrun hd tl eh et
  exact ⟨a, fun h h1 h2 => (hpres h).mpr (b h h1 h2), fun hcc => c ((hpres _).mp hcc), by rw [hptr.2.2]; exact d⟩

/-! ### one flushed batch -/

theorem pre_ensureInit (s : St) (x : Nat) (hs : List Nat) (hx : x ∈ hs) (hi : Inv s) :
    Pre (({ s with pending := HSet.union s.pending hs } : St).ensureInit x) := by
  obtain ⟨hnone, hidx, hrun⟩ := hi
  cases hh : s.head with
  | none =>
    have ht : s.tail = none := hnone.mp hh
    refine ⟨by simpa [St.ensureInit, hh, ht, Coh] using hidx, x, x, ?_, ?_, Nat.le_refl _, ?_, ?_⟩ <;>
      simp [St.ensureInit, hh, ht, St.present]
    intro h h1 h2; left; right; have : h = x := by omega
    subst this; exact hx
  | some hd =>
    cases ht : s.tail with
    | none => exact absurd (hnone.mpr ht) (by simp [hh])
    | some tl =>
      obtain ⟨hle, hall, _, hhs⟩ := hrun hd tl hh ht
      refine ⟨by simpa [St.ensureInit, hh, ht, Coh] using hidx, hd, tl, ?_, ?_, hle, ?_, ?_⟩ <;>
        simp [St.ensureInit, hh, ht, St.present]
      · intro h h1 h2
        rcases hall h h1 h2 with hp | hp
        · left; left; exact hp
        · right; exact hp
      · exact hhs

theorem inv_flushBatch (s : St) (hs : List Nat) (hi : Inv s) : Inv (s.flushBatch hs) := by
  unfold St.flushBatch
  cases hs with
  | nil => exact hi
  | cons x xs =>
    simp only
    have hpre := pre_ensureInit s x (x :: xs) (by simp) hi
    have h5 := inv_advance_recede _ hpre
    split
    · exact inv_commit _ h5
    · exact h5

theorem inv_foldl_flush (q : List (List Nat)) (s : St) (hi : Inv s) : Inv (q.foldl St.flushBatch s) := by
  induction q generalizing s with
  | nil => exact hi
  | cons b bs ih => exact ih _ (inv_flushBatch s b hi)

theorem inv_sync (s : St) (hi : Inv s) : Inv s.sync := by
  unfold St.sync
  apply inv_foldl_flush
  exact hi

end GoHeader.Store

namespace GoHeader.Store

/-! ### DeleteRange -/

theorem present_delOne (s : St) (h k : Nat) : (s.delOne h).present k ↔ s.present k ∧ k ≠ h := by
  simp [St.delOne, St.present]; constructor
  · rintro (⟨a, b⟩ | ⟨⟨a, b⟩, c, _⟩)
    · exact ⟨Or.inl a, b⟩
    · exact ⟨Or.inr ⟨a, c⟩, b⟩
  · rintro ⟨a | ⟨a, b⟩, c⟩
    · exact Or.inl ⟨a, c⟩
    · exact Or.inr ⟨⟨a, c⟩, b, c⟩

theorem coh_delOne (s : St) (h : Nat) (hc : Coh s) : Coh (s.delOne h) := by
  intro k; simp [St.delOne, hc k]

/-- what does not change while headers are deleted one by one -/
def SameEnds (s s' : St) : Prop :=
  s'.head = s.head ∧ s'.tail = s.tail ∧ s'.hs = s.hs ∧ s'.headPtr = s.headPtr ∧ s'.tailPtr = s.tailPtr ∧
    s'.batch = s.batch ∧ s'.queue = s.queue

/-- the effect of `deleteSequential` that got as far as `stop` -/
structure DelSpec (s s' : St) (a stop : Nat) : Prop where
  pres : ∀ k, s'.present k ↔ s.present k ∧ ¬ (a ≤ k ∧ k < stop)
  pend : ∀ k, k ∈ s'.pending ↔ k ∈ s.pending ∧ ¬ (a ≤ k ∧ k < stop)
  hdr  : ∀ k, k ∈ s'.hdr ↔ k ∈ s.hdr ∧ ¬ (a ≤ k ∧ k < stop)
  idx  : ∀ k, k ∈ s'.idx ↔ k ∈ s.idx ∧ ¬ (a ≤ k ∧ k < stop)
  ends : SameEnds s s'

theorem delSpec_coh {s s' : St} {a stop : Nat} (d : DelSpec s s' a stop) (hc : Coh s) : Coh s' := by
  intro k; rw [d.idx, d.hdr, hc k]

theorem delLoop_spec (s : St) (hc : Coh s) (a n : Nat) :
    ∃ stop, a ≤ stop ∧ stop ≤ a + n ∧
      ((s.delLoop a n).2 = none → stop = a + n) ∧
      (∀ h, (s.delLoop a n).2 = some h → h = stop ∧ stop < a + n ∧ s.present h) ∧
      DelSpec s (s.delLoop a n).1 a stop := by
  induction n generalizing s a with
  | zero =>
    refine ⟨a, Nat.le_refl _, by omega, by simp [St.delLoop], by simp [St.delLoop], ?_⟩
    simp only [St.delLoop]
    exact ⟨fun k => by simp <;> omega, fun k => by simp <;> omega, fun k => by simp <;> omega, fun k => by simp <;> omega,
      ⟨rfl, rfl, rfl, rfl, rfl, rfl, rfl⟩⟩
  | succ m ih =>
    unfold St.delLoop
    split
    · rename_i hin
      have hpa : s.present a := by
        rcases hin with h | h
        · exact Or.inr ⟨h, (hc a).mp h⟩
        · exact Or.inl h
      split
      · -- all handlers succeeded: header a is deleted, continue
        let s1 : St := s.afterHandlers a
        have hc1 : Coh (s1.delOne a) := coh_delOne _ _ (by simpa [s1, St.afterHandlers, Coh] using hc)
        obtain ⟨stop, h1, h2, h3, h4, d⟩ := ih (s1.delOne a) hc1 (a+1)
        refine ⟨stop, by omega, by omega, fun e => by have := h3 e; omega, ?_, ?_⟩
        · intro h e
          obtain ⟨e1, e2, e3⟩ := h4 h e
          refine ⟨e1, by omega, ?_⟩
          have := (present_delOne s1 a h).mp e3
          simpa [s1, St.afterHandlers, St.present] using this.1
        · have p1 : ∀ k, (s1.delOne a).present k ↔ s.present k ∧ k ≠ a := by
            intro k; rw [present_delOne]; simp [s1, St.afterHandlers, St.present]
          refine ⟨?_, ?_, ?_, ?_, ?_⟩
          · intro k; rw [d.pres, p1]; constructor
            · rintro ⟨⟨x, y⟩, z⟩; exact ⟨x, by omega⟩
            · rintro ⟨x, y⟩; exact ⟨⟨x, by omega⟩, by omega⟩
          · intro k; rw [d.pend]; simp [s1, St.afterHandlers, St.delOne]; constructor
            · rintro ⟨⟨x, y⟩, z⟩; exact ⟨x, by omega⟩
            · rintro ⟨x, y⟩; exact ⟨⟨x, by omega⟩, by omega⟩
          · intro k; rw [d.hdr]; simp [s1, St.afterHandlers, St.delOne]; constructor
            · rintro ⟨⟨x, y⟩, z⟩; exact ⟨x, by omega⟩
            · rintro ⟨x, y⟩; exact ⟨⟨x, by omega⟩, by omega⟩
          · intro k; rw [d.idx]; simp [s1, St.afterHandlers, St.delOne]; constructor
            · rintro ⟨⟨x, y⟩, z⟩; exact ⟨x, by omega⟩
            · rintro ⟨x, y⟩; exact ⟨⟨x, by omega⟩, by omega⟩
          · obtain ⟨e1, e2, e3, e4, e5, e6, e7⟩ := d.ends
            exact ⟨by simpa [s1, St.afterHandlers, St.delOne] using e1, by simpa [s1, St.afterHandlers, St.delOne] using e2, by simpa [s1, St.afterHandlers, St.delOne] using e3,
              by simpa [s1, St.afterHandlers, St.delOne] using e4, by simpa [s1, St.afterHandlers, St.delOne] using e5, by simpa [s1, St.afterHandlers, St.delOne] using e6,
              by simpa [s1, St.afterHandlers, St.delOne] using e7⟩
      · -- a handler failed at a: nothing more is deleted
        refine ⟨a, Nat.le_refl _, by omega, by simp, ?_, ?_⟩
        · intro h e; simp at e; subst e; exact ⟨rfl, by omega, hpa⟩
        · exact ⟨fun k => by simp [St.afterHandlers, St.present] <;> omega, fun k => by simp [St.afterHandlers] <;> omega,
            fun k => by simp [St.afterHandlers] <;> omega,
            fun k => by simp [St.afterHandlers] <;> omega, ⟨rfl, rfl, rfl, rfl, rfl, rfl, rfl⟩⟩
    · -- not found: skipped
      rename_i hnin
      have hna : ¬ s.present a := by
        intro hp; apply hnin
        rcases hp with h | ⟨h, _⟩
        · exact Or.inr h
        · exact Or.inl h
      obtain ⟨stop, h1, h2, h3, h4, d⟩ := ih s hc (a+1)
      refine ⟨stop, by omega, by omega, fun e => by have := h3 e; omega, ?_, ?_⟩
      · intro h e; obtain ⟨e1, e2, e3⟩ := h4 h e; exact ⟨e1, by omega, e3⟩
      · have hnp : a ∉ s.pending := fun h => hnin (Or.inr h)
        have hni : a ∉ s.idx := fun h => hnin (Or.inl h)
        have hnh : a ∉ s.hdr := fun h => hni ((hc a).mpr h)
        refine ⟨?_, ?_, ?_, ?_, d.ends⟩
        · intro k; rw [d.pres]; constructor
          · rintro ⟨x, y⟩; refine ⟨x, ?_⟩; intro hh; by_cases hk : k = a
            · subst hk; exact hna x
            · omega
          · rintro ⟨x, y⟩; exact ⟨x, by omega⟩
        · intro k; rw [d.pend]; constructor
          · rintro ⟨x, y⟩; refine ⟨x, ?_⟩; intro hh; by_cases hk : k = a
            · subst hk; exact hnp x
            · omega
          · rintro ⟨x, y⟩; exact ⟨x, by omega⟩
        · intro k; rw [d.hdr]; constructor
          · rintro ⟨x, y⟩; refine ⟨x, ?_⟩; intro hh; by_cases hk : k = a
            · subst hk; exact hnh x
            · omega
          · rintro ⟨x, y⟩; exact ⟨x, by omega⟩
        · intro k; rw [d.idx]; constructor
          · rintro ⟨x, y⟩; refine ⟨x, ?_⟩; intro hh; by_cases hk : k = a
            · subst hk; exact hni x
            · omega
          · rintro ⟨x, y⟩; exact ⟨x, by omega⟩

end GoHeader.Store

namespace GoHeader.Store

theorem lookup_of_present (s : St) (h : Nat) (hp : s.present h) : s.lookup h = true := by
  unfold St.lookup St.byHash
  rcases hp with hp | ⟨h1, h2⟩
  · simp [hp]
  · simp [h1, h2]

theorem inv_syncedForDelete (s : St) (hi : Inv s) : Inv s.syncedForDelete := inv_sync s hi

/-- under `Inv`, what `delKind` accepts -/
theorem delKind_spec (s : St) (hi : Inv s) (a b : Nat) (k : Kind) (h : s.delKind a b = some k) :
    ∃ hd tl, s.head = some hd ∧ s.tail = some tl ∧ a < b ∧
      (k = .wipe → a = tl ∧ b = hd + 1) ∧
      (k = .tailSide → a = tl ∧ b ≤ hd) ∧
      (k = .headSide → b = hd + 1 ∧ tl < a) := by
  unfold St.delKind at h
  split at h
  · rename_i hd tl e1 e2
    have htop : s.lookup (hd + 1) = false := by
      have := (hi.2.2 hd tl e1 e2).2.2.1
      cases hl : s.lookup (hd + 1) with
      | false => rfl
      | true => exact absurd ((lookup_eq_present_of_inv s hi _).mp hl) this
    refine ⟨hd, tl, e1, e2, ?_⟩
    split at h
    · cases h
    · split at h
      · cases h
      · split at h
        · rename_i hc
          obtain ⟨rfl, rfl⟩ := hc
          simp [htop] at h; subst h
          refine ⟨by omega, ?_, ?_, ?_⟩
          · intro _; exact ⟨rfl, rfl⟩
          · intro hk; cases hk
          · intro hk; cases hk
        · split at h
          · split at h
            · cases h
            · cases h
              rename_i h1 h2 h3 h4 h5
              refine ⟨by omega, ?_, ?_, ?_⟩
              · intro hk; cases hk
              · intro _; exact ⟨h4, by omega⟩
              · intro hk; cases hk
          · split at h
            · split at h
              · cases h
              · cases h
                rename_i h1 h2 h3 h4 h5 h6
                refine ⟨by omega, ?_, ?_, ?_⟩
                · intro hk; cases hk
                · intro hk; cases hk
                · intro _; exact ⟨h5, by omega⟩
            · cases h
  · cases h

end GoHeader.Store

namespace GoHeader.Store

/-- transfer of `Inv` along a deletion of `[a, stop)` from the tail side: new tail `stop` -/
theorem inv_tail_moved (t s1 : St) (hi : Inv t) (a stop hd : Nat) (d : DelSpec t s1 a stop)
    (eh : t.head = some hd) (et : t.tail = some a) (h1 : a ≤ stop) (h2 : stop ≤ hd) :
    Inv { s1 with tail := some stop, tailPtr := some stop } := by
  obtain ⟨hnone, hc, hrun⟩ := hi
  obtain ⟨hle, hall, htop, hhs⟩ := hrun hd a eh et
  obtain ⟨e1, e2, e3, _⟩ := d.ends
  refine ⟨by simp [e1, eh], by simpa [Coh] using delSpec_coh d hc, ?_⟩
  intro hd' tl' eh' et'
  simp [e1, eh] at eh'; simp at et'; subst eh' et'
  refine ⟨h2, ?_, ?_, by simpa [e3] using hhs⟩
  · intro h x y
    have : s1.present h := (d.pres h).mpr ⟨hall h (by omega) y, by omega⟩
    simpa [St.present] using this
  · intro hp
    have : s1.present (hd + 1) := by simpa [St.present] using hp
    exact htop ((d.pres _).mp this).1

theorem setTail_eq (s : St) (to hd : Nat) (hl : s.lookup to = true) (eh : s.head = some hd) (hle : to ≤ hd) :
    s.setTail to = ({ s with tail := some to, tailPtr := some to }, true) := by
  have : ¬ (to > hd) := by omega
  simp [St.setTail, St.tailOver, hl, eh, this]

theorem setHead_eq (s : St) (to : Nat) (hl : s.lookup to = true) :
    s.setHead to = ({ s with head := some to, headPtr := some to, hs := to }, true) := by
  simp [St.setHead, hl]

/-- transfer of `Inv` along a deletion of `[a, stop)` with `stop > a` from the head side: new head `a-1` -/
theorem inv_head_moved (t s1 : St) (hi : Inv t) (a stop hd tl : Nat) (d : DelSpec t s1 a stop)
    (eh : t.head = some hd) (et : t.tail = some tl) (h1 : tl < a) (h2 : a < stop) (h3 : a ≤ hd) :
    Inv { s1 with head := some (a - 1), headPtr := some (a - 1), hs := a - 1 } := by
  obtain ⟨hnone, hc, hrun⟩ := hi
  obtain ⟨hle, hall, htop, hhs⟩ := hrun hd tl eh et
  obtain ⟨e1, e2, e3, _⟩ := d.ends
  refine ⟨by simp [e2, et], by simpa [Coh] using delSpec_coh d hc, ?_⟩
  intro hd' tl' eh' et'
  simp at eh'; simp [e2, et] at et'; subst eh' et'
  refine ⟨by omega, ?_, ?_, by simp⟩
  · intro h x y
    have : s1.present h := (d.pres h).mpr ⟨hall h x (by omega), by omega⟩
    simpa [St.present] using this
  · intro hp
    have : s1.present (a - 1 + 1) := by simpa [St.present] using hp
    have := ((d.pres _).mp this).2
    omega

/-- nothing was deleted: `Inv` carries over -/
theorem inv_same (t s1 : St) (hi : Inv t) (a : Nat) (d : DelSpec t s1 a a) : Inv s1 := by
  obtain ⟨hnone, hc, hrun⟩ := hi
  obtain ⟨e1, e2, e3, _⟩ := d.ends
  refine ⟨by rw [e1, e2]; exact hnone, delSpec_coh d hc, ?_⟩
  intro hd' tl' eh' et'
  rw [e1] at eh'; rw [e2] at et'
  obtain ⟨hle, hall, htop, hhs⟩ := hrun hd' tl' eh' et'
  refine ⟨hle, ?_, ?_, by rw [e3]; exact hhs⟩
  · intro h x y; exact (d.pres h).mpr ⟨hall h x y, by omega⟩
  · intro hp; exact htop ((d.pres _).mp hp).1

/-- the outcome of `DeleteRange` on a drained store satisfying `Inv` -/
theorem deleteSynced_spec (t : St) (hi : Inv t) (a b : Nat) :
    (t.delKind a b = none ∧ t.deleteSynced a b = (t, .err)) ∨
    (∃ k stop, t.delKind a b = some k ∧ a ≤ stop ∧ stop ≤ b ∧
      (∀ h, (t.deleteSynced a b).1.present h ↔ t.present h ∧ ¬ (a ≤ h ∧ h < stop)) ∧
      ((t.deleteSynced a b).2 = .ok ↔ (t.delLoop a (b - a)).2 = none) ∧
      ((t.delLoop a (b - a)).2 = none → stop = b) ∧
      (∀ h, (t.delLoop a (b - a)).2 = some h → h = stop ∧ stop < b) ∧
      Inv (t.deleteSynced a b).1) := by
  cases hk : t.delKind a b with
  | none => left; simp [St.deleteSynced, hk]
  | some k =>
    right
    obtain ⟨hd, tl, eh, et, hab, hw, hts, hhs⟩ := delKind_spec t hi a b k hk
    obtain ⟨stop, s1, s2, s3, s4, d⟩ := delLoop_spec t hi.2.1 a (b - a)
    have hb : a + (b - a) = b := by omega
    rw [hb] at s2 s3 s4
    have hi' := hi
    obtain ⟨hnone, hc, hrun⟩ := hi
    obtain ⟨hle, hall, htop, hheq⟩ := hrun hd tl eh et
    obtain ⟨e1, e2, e3, e4, e5, e6, e7⟩ := d.ends
    refine ⟨k, stop, rfl, s1, s2, ?_⟩
    have hds : t.deleteSynced a b = (t.delLoop a (b - a)).1.finishDelete k a b (t.delLoop a (b - a)).2 := by
      simp [St.deleteSynced, hk]
    rw [hds]
    generalize hr : t.delLoop a (b - a) = r at *
    obtain ⟨r1, r2⟩ := r
    simp only at *
    cases r2 with
    | none =>
      have hstop : stop = b := s3 rfl
      subst hstop
      cases k with
      | wipe =>
        obtain ⟨rfl, rfl⟩ := hw rfl
        simp only [St.finishDelete]
        refine ⟨?_, by simp, by simp, by simp, ?_⟩
        · intro h; simpa [St.present] using d.pres h
        · exact ⟨by simp, by simpa [Coh] using delSpec_coh d hc, by simp⟩
      | tailSide =>
        obtain ⟨rfl, hbh⟩ := hts rfl
        have hpb : r1.present stop := (d.pres stop).mpr ⟨hall stop (by omega) hbh, by omega⟩
        have hst := setTail_eq r1 stop hd (lookup_of_present _ _ hpb) (by rw [e1, eh]) hbh
        simp only [St.finishDelete, hst]
        refine ⟨?_, by simp, by simp, by simp, ?_⟩
        · intro h; simpa [St.present] using d.pres h
        · exact inv_tail_moved t _ hi' a stop hd d eh et (by omega) hbh
      | headSide =>
        obtain ⟨rfl, hta⟩ := hhs rfl
        have hpa : r1.present (a - 1) := (d.pres (a - 1)).mpr ⟨hall (a - 1) (by omega) (by omega), by omega⟩
        have hsh := setHead_eq r1 (a - 1) (lookup_of_present _ _ hpa)
        have hgt : hd + 1 > a := by omega
        simp only [St.finishDelete, hgt, if_true, hsh]
        refine ⟨?_, by simp, by simp, by simp, ?_⟩
        · intro h; simpa [St.present] using d.pres h
        · exact inv_head_moved t _ hi' a (hd + 1) hd tl d eh et hta (by omega) (by omega)
    | some fh =>
      obtain ⟨rfl, hlt, hpf⟩ := s4 fh rfl
      have hfin : fh ≤ hd := by
        cases k with
        | wipe => obtain ⟨_, rfl⟩ := hw rfl; omega
        | tailSide => have := (hts rfl).2; omega
        | headSide => have := (hhs rfl).1; omega
      have hpf1 : r1.present fh := (d.pres fh).mpr ⟨hpf, by omega⟩
      have hst := setTail_eq r1 fh hd (lookup_of_present _ _ hpf1) (by rw [e1, eh]) hfin
      cases k with
      | wipe =>
        obtain ⟨rfl, rfl⟩ := hw rfl
        simp only [St.finishDelete, hst]
        refine ⟨?_, by simp, by simp, by simp; omega, ?_⟩
        · intro h; simpa [St.present] using d.pres h
        · exact inv_tail_moved t _ hi' a fh hd d eh et s1 hfin
      | tailSide =>
        obtain ⟨rfl, hbh⟩ := hts rfl
        simp only [St.finishDelete, hst]
        refine ⟨?_, by simp, by simp, by simp; omega, ?_⟩
        · intro h; simpa [St.present] using d.pres h
        · exact inv_tail_moved t _ hi' a fh hd d eh et s1 hfin
      | headSide =>
        obtain ⟨rfl, hta⟩ := hhs rfl
        by_cases hprog : fh > a
        · have hpa : r1.present (a - 1) := (d.pres (a - 1)).mpr ⟨hall (a - 1) (by omega) (by omega), by omega⟩
          have hsh := setHead_eq r1 (a - 1) (lookup_of_present _ _ hpa)
          simp only [St.finishDelete, hprog, if_true, hsh]
          refine ⟨?_, by simp, by simp, by simp; omega, ?_⟩
          · intro h; simpa [St.present] using d.pres h
          · exact inv_head_moved t _ hi' a fh hd tl d eh et hta hprog (by omega)
        · have hfa : fh = a := by omega
          subst hfa
          simp only [St.finishDelete, hprog, if_false]
          refine ⟨?_, by simp, by simp, by simp; omega, ?_⟩
          · intro h; exact d.pres h
          · exact inv_same t _ hi' fh d

end GoHeader.Store

namespace GoHeader.Store

/-! ### pointers on disk never outlive the ends; restart -/

/-- a persisted pointer exists only while the corresponding end is set -/
def NoPtr (s : St) : Prop := (s.head = none → s.headPtr = none) ∧ (s.tail = none → s.tailPtr = none)

def Good (s : St) : Prop := Inv s ∧ NoPtr s

theorem noPtr_ensureInit (s : St) (x : Nat) (h : NoPtr s) : NoPtr (s.ensureInit x) := by
  unfold St.ensureInit NoPtr at *
  cases hh : s.head <;> cases ht : s.tail <;> simp_all

theorem noPtr_advance (s : St) (h : NoPtr s) : NoPtr s.advance := by
  unfold St.advance NoPtr at *
  cases hh : s.head <;> simp_all

theorem noPtr_recede (s : St) (h : NoPtr s) : NoPtr s.recede := by
  unfold St.recede NoPtr at *
  cases ht : s.tail <;> simp_all

theorem noPtr_commit (s : St) (h : NoPtr s) : NoPtr s.commit := by
  unfold St.commit NoPtr at *
  cases hh : s.head <;> cases ht : s.tail <;> simp_all

theorem noPtr_flushBatch (s : St) (hs : List Nat) (h : NoPtr s) : NoPtr (s.flushBatch hs) := by
  unfold St.flushBatch
  cases hs with
  | nil => exact h
  | cons x xs =>
    simp only
    have h1 : NoPtr ({ s with pending := HSet.union s.pending (x :: xs) } : St) := h
    have h5 := noPtr_recede _ (noPtr_advance _ (noPtr_ensureInit _ x h1))
    split
    · exact noPtr_commit _ h5
    · exact h5

theorem good_flushBatch (s : St) (hs : List Nat) (h : Good s) : Good (s.flushBatch hs) :=
  ⟨inv_flushBatch s hs h.1, noPtr_flushBatch s hs h.2⟩

theorem good_foldl_flush (q : List (List Nat)) (s : St) (h : Good s) : Good (q.foldl St.flushBatch s) := by
  induction q generalizing s with
  | nil => exact h
  | cons b bs ih => exact ih _ (good_flushBatch s b h)

theorem good_sync (s : St) (h : Good s) : Good s.sync := by
  unfold St.sync
  exact good_foldl_flush _ _ h

theorem noPtr_setTail (s : St) (to : Nat) (h : NoPtr s) : NoPtr (s.setTail to).1 := by
  unfold St.setTail
  by_cases hl : s.lookup to = true
  · simp only [hl, Bool.not_true, Bool.false_eq_true, if_false]
    by_cases ho : s.tailOver to = true
    · rw [if_pos ho]; apply noPtr_advance; unfold NoPtr; simp
    · rw [if_neg ho]; unfold NoPtr at *; simp; exact h.1
  · simp [hl]; exact h

theorem noPtr_setHead (s : St) (to : Nat) (h : NoPtr s) : NoPtr (s.setHead to).1 := by
  unfold St.setHead
  split
  · exact h
  · unfold NoPtr at *; simp; exact h.2

theorem noPtr_of_sameEnds (s s' : St) (e : SameEnds s s') (h : NoPtr s) : NoPtr s' := by
  obtain ⟨e1, e2, _, e4, e5, _⟩ := e
  unfold NoPtr; rw [e1, e2, e4, e5]; exact h

theorem noPtr_deleteSynced (t : St) (hc : Coh t) (a b : Nat) (h : NoPtr t) : NoPtr (t.deleteSynced a b).1 := by
  unfold St.deleteSynced
  cases hk : t.delKind a b with
  | none => exact h
  | some k =>
    obtain ⟨stop, _, _, _, _, d⟩ := delLoop_spec t hc a (b - a)
    have h1 := noPtr_of_sameEnds _ _ d.ends h
    simp only
    generalize t.delLoop a (b - a) = r at *
    obtain ⟨r1, r2⟩ := r
    cases k <;> cases r2 <;> simp only [St.finishDelete]
    · unfold NoPtr; simp
    · exact noPtr_setTail _ _ h1
    · exact noPtr_setTail _ _ h1
    · exact noPtr_setTail _ _ h1
    · split
      · exact noPtr_setHead _ _ h1
      · exact h1
    · split
      · exact noPtr_setHead _ _ h1
      · exact h1

theorem good_deleteRange (s : St) (a b : Nat) (h : Good s) : Good (s.deleteRange a b).1 := by
  have hs : Good s.syncedForDelete := good_sync s h
  unfold St.deleteRange
  refine ⟨?_, noPtr_deleteSynced _ hs.1.2.1 a b hs.2⟩
  rcases deleteSynced_spec _ hs.1 a b with ⟨_, e⟩ | ⟨k, stop, _, _, _, _, _, _, _, hi⟩
  · rw [e]; exact hs.1
  · exact hi

/-- the stop signal: advance/recede, then commit -/
theorem good_flushStop (s : St) (h : Good s) : Good s.flushStop :=
  ⟨inv_commit _ (inv_advance_recede_of_inv s h.1), noPtr_commit _ (noPtr_recede _ (noPtr_advance _ h.2))⟩

/-- after the final flush the persisted pointers ARE the ends and nothing is pending -/
theorem flushStop_ptrs (s : St) (h : NoPtr s) :
    s.flushStop.headPtr = s.flushStop.head ∧ s.flushStop.tailPtr = s.flushStop.tail ∧ s.flushStop.pending = [] := by
  have h' := noPtr_recede _ (noPtr_advance _ h)
  unfold St.flushStop St.commit
  generalize s.advance.recede = u at *
  unfold NoPtr at h'
  cases hh : u.head <;> cases ht : u.tail <;> simp_all

/-- C06 (clean restart), state level: Stop + Start on the same datastore reproduces the ends,
    the height and every stored header; nothing is pending any more. -/
theorem restart_spec (s : St) (h : Good s) :
    s.restart.head = s.sync.flushStop.head ∧ s.restart.tail = s.sync.flushStop.tail ∧
    s.restart.hdr = s.sync.flushStop.hdr ∧ s.restart.idx = s.sync.flushStop.idx ∧
    s.restart.pending = [] ∧ (∀ k, s.restart.present k ↔ s.sync.flushStop.present k) ∧
    (∀ hd, s.restart.head = some hd → s.restart.hs = hd) := by
  have hg : Good s.sync.flushStop := good_flushStop _ (good_sync s h)
  obtain ⟨p1, p2, p3⟩ := flushStop_ptrs s.sync (good_sync s h).2
  unfold St.restart
  generalize s.sync.flushStop = u at *
  obtain ⟨⟨hnone, hc, hrun⟩, _⟩ := hg
  have hhd : ∀ hd, u.head = some hd → hd ∈ u.hdr := by
    intro hd e
    cases ht : u.tail with
    | none => exact absurd (hnone.mpr ht) (by simp [e])
    | some tl =>
      obtain ⟨a, b, _, _⟩ := hrun hd tl e ht
      have := b hd a (Nat.le_refl _)
      unfold St.present at this; rw [p3] at this; simp at this; exact this.2
  have htl : ∀ tl, u.tail = some tl → tl ∈ u.hdr := by
    intro tl e
    cases hh : u.head with
    | none => exact absurd (hnone.mp hh) (by simp [e])
    | some hd =>
      obtain ⟨a, b, _, _⟩ := hrun hd tl hh e
      have := b tl (Nat.le_refl _) a
      unfold St.present at this; rw [p3] at this; simp at this; exact this.2
  have e1 : resolvePtr u.headPtr u.hdr = u.head := by
    rw [p1]; unfold resolvePtr; cases hh : u.head with
    | none => rfl
    | some hd => simp [hhd hd hh]
  have e2 : resolvePtr u.tailPtr u.hdr = u.tail := by
    rw [p2]; unfold resolvePtr; cases ht : u.tail with
    | none => rfl
    | some tl => simp [htl tl ht]
  unfold St.reopen
  rw [e1, e2]
  refine ⟨rfl, rfl, rfl, rfl, rfl, ?_, ?_⟩
  · intro k; simp [St.present, p3]
  · intro hd e; simp at e; simp [e]

theorem good_restart (s : St) (h : Good s) : Good s.restart := by
  obtain ⟨r1, r2, r3, r4, r5, r6, r7⟩ := restart_spec s h
  have hg : Good s.sync.flushStop := good_flushStop _ (good_sync s h)
  obtain ⟨p1, p2, p3⟩ := flushStop_ptrs s.sync (good_sync s h).2
  obtain ⟨⟨hnone, hc, hrun⟩, hn⟩ := hg
  refine ⟨⟨by rw [r1, r2]; exact hnone, by intro k; rw [r3, r4]; exact hc k, ?_⟩, ?_⟩
  · intro hd tl eh et
    have eh' := eh; rw [r1] at eh'; rw [r2] at et
    obtain ⟨a, b, c, _⟩ := hrun hd tl eh' et
    exact ⟨a, fun k x y => (r6 k).mpr (b k x y), fun hp => c ((r6 _).mp hp), r7 hd eh⟩
  · unfold St.restart St.reopen NoPtr
    simp only
    constructor <;> intro e <;> exact e

theorem good_init (batch : Nat) : Good (St.init batch) := by
  unfold Good Inv NoPtr Coh St.init
  simp

theorem good_step (s : St) (op : Op) (h : Good s) : Good (s.step op) := by
  cases op with
  | append hs =>
    show Good (if hs.isEmpty then s else { s with queue := s.queue ++ [hs] })
    split
    · exact h
    · exact ⟨h.1, h.2⟩
  | sync => exact good_sync s h
  | delete a b => exact good_deleteRange s a b h
  | restart => exact good_restart s h
  | onDelete f => exact h

theorem good_run (batch : Nat) (ops : List Op) : Good (St.run batch ops) := by
  unfold St.run
  have : ∀ (s : St), Good s → Good (ops.foldl St.step s) := by
    induction ops with
    | nil => intro s h; exact h
    | cons o os ih => intro s h; exact ih _ (good_step s o h)
  exact this _ (good_init batch)

end GoHeader.Store

namespace GoHeader.Store

/-! ### what is stored: exact effect of every operation on `present` -/

theorem present_ensureInit (s : St) (x k : Nat) : (s.ensureInit x).present k ↔ s.present k := by
  unfold St.ensureInit St.present
  cases hh : s.head <;> cases ht : s.tail <;> simp [ht]

theorem coh_ensureInit (s : St) (x : Nat) (hc : Coh s) : Coh (s.ensureInit x) := by
  unfold St.ensureInit Coh at *
  cases hh : s.head <;> cases ht : s.tail <;> simpa [ht] using hc

theorem coh_advance_recede (s : St) (hc : Coh s) : Coh s.advance.recede := by
  unfold St.advance St.recede Coh at *
  cases hh : s.head <;> cases ht : s.tail <;> simpa [ht] using hc

theorem present_flushBatch (s : St) (hc : Coh s) (b : List Nat) (k : Nat) :
    (s.flushBatch b).present k ↔ s.present k ∨ k ∈ b := by
  unfold St.flushBatch
  cases b with
  | nil => simp
  | cons x xs =>
    simp only
    have hc1 : Coh ({ s with pending := HSet.union s.pending (x :: xs) } : St) := hc
    have hc5 := coh_advance_recede _ (coh_ensureInit _ x hc1)
    have hp5 : ∀ k, ((({ s with pending := HSet.union s.pending (x :: xs) } : St).ensureInit x).advance.recede).present k
        ↔ s.present k ∨ k ∈ x :: xs := by
      intro k
      rw [present_advance_recede, present_ensureInit]
      simp only [St.present, mem_union]
      constructor
      · rintro ((h | h) | h)
        · exact Or.inl (Or.inl h)
        · exact Or.inr h
        · exact Or.inl (Or.inr h)
      · rintro ((h | h) | h)
        · exact Or.inl (Or.inl h)
        · exact Or.inr h
        · exact Or.inl (Or.inr h)
    split
    · rw [present_commit _ hc5]; exact hp5 k
    · exact hp5 k

theorem coh_flushBatch (s : St) (hc : Coh s) (b : List Nat) : Coh (s.flushBatch b) := by
  unfold St.flushBatch
  cases b with
  | nil => exact hc
  | cons x xs =>
    simp only
    have hc1 : Coh ({ s with pending := HSet.union s.pending (x :: xs) } : St) := hc
    have hc5 := coh_advance_recede _ (coh_ensureInit _ x hc1)
    split
    · exact coh_commit _ hc5
    · exact hc5

theorem present_foldl_flush (q : List (List Nat)) (s : St) (hc : Coh s) (k : Nat) :
    (q.foldl St.flushBatch s).present k ↔ s.present k ∨ ∃ b ∈ q, k ∈ b := by
  induction q generalizing s with
  | nil => simp
  | cons b bs ih =>
    simp only [List.foldl_cons]
    rw [ih _ (coh_flushBatch s hc b), present_flushBatch s hc]
    constructor
    · rintro ((h | h) | ⟨b', hb, h⟩)
      · exact Or.inl h
      · exact Or.inr ⟨b, by simp, h⟩
      · exact Or.inr ⟨b', by simp [hb], h⟩
    · rintro (h | ⟨b', hb, h⟩)
      · exact Or.inl (Or.inl h)
      · simp at hb; rcases hb with rfl | hb
        · exact Or.inl (Or.inr h)
        · exact Or.inr ⟨b', hb, h⟩

/-- stored, or waiting in the write queue -/
def St.mentions (s : St) (k : Nat) : Prop := s.present k ∨ ∃ b ∈ s.queue, k ∈ b

theorem present_sync (s : St) (hc : Coh s) (k : Nat) : s.sync.present k ↔ s.mentions k := by
  have := present_foldl_flush s.queue { s with queue := [] } hc k
  unfold St.sync St.mentions
  rw [this]
  simp [St.present]

theorem queue_ensureInit (s : St) (x : Nat) : (s.ensureInit x).queue = s.queue := by
  unfold St.ensureInit; cases hh : s.head <;> cases ht : s.tail <;> simp [ht]
theorem queue_advance (s : St) : s.advance.queue = s.queue := by
  unfold St.advance; cases hh : s.head <;> simp
theorem queue_recede (s : St) : s.recede.queue = s.queue := by
  unfold St.recede; cases ht : s.tail <;> simp
theorem queue_commit (s : St) : s.commit.queue = s.queue := rfl

theorem queue_flushBatch (s : St) (b : List Nat) : (s.flushBatch b).queue = s.queue := by
  unfold St.flushBatch
  cases b with
  | nil => rfl
  | cons x xs =>
    simp only
    split
    · rw [queue_commit, queue_recede, queue_advance, queue_ensureInit]
    · rw [queue_recede, queue_advance, queue_ensureInit]

theorem queue_foldl_flush (q : List (List Nat)) (s : St) : (q.foldl St.flushBatch s).queue = s.queue := by
  induction q generalizing s with
  | nil => rfl
  | cons b bs ih => simp only [List.foldl_cons]; rw [ih, queue_flushBatch]

theorem queue_sync (s : St) : s.sync.queue = [] := by
  unfold St.sync; rw [queue_foldl_flush]

theorem mentions_flushStop (s : St) (hc : Coh s) (k : Nat) : s.flushStop.present k ↔ s.present k := by
  unfold St.flushStop
  rw [present_commit _ (coh_advance_recede s hc), present_advance_recede]

/-- restart neither loses nor invents headers -/
theorem present_restart (s : St) (h : Good s) (k : Nat) : s.restart.present k ↔ s.mentions k := by
  rw [(restart_spec s h).2.2.2.2.2.1 k, mentions_flushStop _ (good_sync s h).1.2.1, present_sync _ h.1.2.1]

theorem queue_restart (s : St) : s.restart.queue = [] := rfl

theorem queue_setTail (s : St) (to : Nat) : (s.setTail to).1.queue = s.queue := by
  unfold St.setTail
  split
  · rfl
  · split
    · rw [queue_advance]
    · rfl

theorem queue_setHead (s : St) (to : Nat) : (s.setHead to).1.queue = s.queue := by
  unfold St.setHead; split <;> rfl

theorem queue_deleteSynced (t : St) (hc : Coh t) (a b : Nat) : (t.deleteSynced a b).1.queue = t.queue := by
  unfold St.deleteSynced
  cases hk : t.delKind a b with
  | none => rfl
  | some kd =>
    obtain ⟨stop, _, _, _, _, d⟩ := delLoop_spec t hc a (b - a)
    have e7 := d.ends.2.2.2.2.2.2
    simp only
    generalize t.delLoop a (b - a) = r at *
    obtain ⟨r1, r2⟩ := r
    simp only at e7
    cases kd <;> cases r2 <;> simp only [St.finishDelete]
    · exact e7
    · rw [queue_setTail]; exact e7
    · rw [queue_setTail]; exact e7
    · rw [queue_setTail]; exact e7
    · split
      · rw [queue_setHead]; exact e7
      · exact e7
    · split
      · rw [queue_setHead]; exact e7
      · exact e7

/-- exact effect of one operation on what the store mentions -/
theorem mentions_step (s : St) (h : Good s) (op : Op) (k : Nat) :
    (s.step op).mentions k →
      s.mentions k ∨ (∃ hs, op = .append hs ∧ k ∈ hs) := by
  cases op with
  | append hs =>
    simp only [St.step]
    split
    · exact fun h => Or.inl h
    · intro hm
      unfold St.mentions at hm ⊢
      rcases hm with hm | ⟨b, hb, hk⟩
      · exact Or.inl (Or.inl hm)
      · simp only [List.mem_append, List.mem_singleton] at hb
        rcases hb with hb | hb
        · exact Or.inl (Or.inr ⟨b, hb, hk⟩)
        · subst hb; exact Or.inr ⟨_, rfl, hk⟩
  | sync =>
    intro hm; left
    simp only [St.step] at hm
    unfold St.mentions at hm
    rw [queue_sync] at hm; simp at hm
    exact (present_sync s h.1.2.1 k).mp hm
  | delete a b =>
    intro hm; left
    have hs : Good s.syncedForDelete := good_sync s h
    have hq0 : s.syncedForDelete.queue = [] := by unfold St.syncedForDelete; exact queue_sync s
    have hq : (s.deleteRange a b).1.queue = [] := by
      unfold St.deleteRange; rw [queue_deleteSynced _ hs.1.2.1]; exact hq0
    simp only [St.step] at hm
    unfold St.mentions at hm
    rw [hq] at hm; simp at hm
    have hp : s.syncedForDelete.present k := by
      unfold St.deleteRange at hm
      rcases deleteSynced_spec _ hs.1 a b with ⟨_, e⟩ | ⟨kd, stop, _, _, _, hpres, _⟩
      · rw [e] at hm; exact hm
      · exact ((hpres k).mp hm).1
    exact (present_sync s h.1.2.1 k).mp hp
  | restart =>
    intro hm; left
    simp only [St.step] at hm
    unfold St.mentions at hm
    rw [queue_restart] at hm; simp at hm
    exact (present_restart s h k).mp hm
  | onDelete f => exact fun h => Or.inl h

end GoHeader.Store
