/-
  GoHeader.Verify — hand model of /repo/verify.go: `verify`, `Verify`, `VerifyRange`.

  `now` (the instant `time.Now()` returns inside `verify`) and `drift` (`clockDrift`) are explicit
  arguments; the type-level `Header.Verify` is the parameter `tv`.
  The guard chain `verify` is ALSO regenerated from the Go source on every run
  (`GoHeader.Gen.Verify`), and `Props/C01.lean` proves the two equal.
-/
import GoHeader.Prelude
namespace GoHeader

/-- mandatory checks, in source order -/
def verify (now drift : Int) (t u : Hdr) : Option Sentinel :=
  if t.zero then some .ErrZeroHeader else
  if u.zero then some .ErrZeroHeader else
  if u.chain != t.chain then some .ErrWrongChainID else
  if u.height ≤ t.height then some .ErrKnownHeader else
  if u.time < t.time then some .ErrUnorderedTime else
  if u.time > now + drift then some .ErrFromFuture else
  none

/-- what `errors.As(err, &verErr)` finds in the type-level result, and its SoftFailure flag -/
def reportedSoft : TV → Bool
  | .verr s => s | .wrapped s => s | _ => false

/-- `header.Verify` -/
def Verify (now drift : Int) (tv : Hdr → Hdr → TV) (t u : Hdr) : Option VErr :=
  match verify now drift t u with
  | some s => some { origin := .sentinel s, soft := false }
  | none =>
    match tv t u with
    | .ok => none
    | r =>
      let adjacent := decide (u.height = t.height + 1)
      some { origin := .typeErr, soft := if !adjacent then true else reportedSoft r }

/-- the loop of `header.VerifyRange`; `first` is `i = 0` -/
def verifyLoop (now drift : Int) (tv : Hdr → Hdr → TV) :
    Hdr → Bool → List Hdr → List Hdr × Option VErr
  | _, _, [] => ([], none)
  | t, first, u :: us =>
    match Verify now drift tv t u with
    | some e => ([], some e)
    | none =>
      if !first && t.height + 1 != u.height then
        ([], some { origin := .sentinel .ErrNonAdjacentRange, soft := false })
      else
        let r := verifyLoop now drift tv u false us
        (u :: r.1, r.2)

/-- `header.VerifyRange` -/
def VerifyRange (now drift : Int) (tv : Hdr → Hdr → TV) (t : Hdr) (us : List Hdr) :
    List Hdr × Option VErr :=
  if us.isEmpty then ([], some { origin := .sentinel .ErrEmptyRange, soft := false })
  else verifyLoop now drift tv t true us

end GoHeader
