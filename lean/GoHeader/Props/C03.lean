/-
  C03 — Syncer only ever stores one contiguous chain of verified headers.
  Model: `Sync.Machine`: the Store is the run 1..head of genuine headers BY CONSTRUCTION of the state
  (a natural number); what the theorems show is that no event of the model — any gossip kind, any
  getter misbehaviour — can make it store something else or move past what was verified:
  contract-violating getter output never advances the head, refused gossip never becomes the target,
  the head never exceeds the newest verified head.
  NOT covered here: interleavings of the gossip handler with the sync loop (the syncStore adjacency
  guard under races) — exercised only sequentially by the harness.
-/
import GoHeader.Props.C07
namespace GoHeader.C03
open GoHeader GoHeader.Mach GoHeader.C07

/-- getter output that violates the contract (empty slice, not starting at from+1) or an error never
    stores anything: the two checks in requestHeaders abort the attempt -/
theorem c03_bad_getter_output_not_stored (fuel lo hi : Nat) (rest : List Resp) (r : Resp)
    (hr : r = .err ∨ r = .empty ∨ r = .shift) (hlt : lo < hi) :
    (requestHeaders (fuel + 1) lo hi (r :: rest)).1 = lo ∧ (requestHeaders (fuel + 1) lo hi (r :: rest)).2.1 = true := by
  have : ¬ lo ≥ hi := by omega
  rcases hr with rfl | rfl | rfl <;> simp [requestHeaders, this]

/-- a prefix answer is only used as far as it is contract-abiding: what gets stored after one answer
    is at most the requested range -/
theorem c03_never_beyond_request (fuel lo hi : Nat) (sc : List Resp) (h : lo ≤ hi) :
    (requestHeaders fuel lo hi sc).1 ≤ hi := (request_bounds fuel lo hi sc h).2

/-- the highest pending (verified) head -/
def newest : List Nat → Nat
  | [] => 0
  | p :: ps => max p (newest ps)

theorem process_le_newest (ps : List Nat) (head : Nat) (sc : List Resp) :
    (processPending ps head sc).1 ≤ max head (newest ps) := by
  induction ps generalizing head sc with
  | nil => simp [processPending, newest]
  | cons p rest ih =>
    unfold processPending
    split
    · have := ih head sc; simp only [newest]; omega
    · rename_i hgt
      have hb := request_bounds (p - 1 - head) head (p - 1) sc (by omega)
      simp only
      split
      · simp only [newest]; omega
      · have := ih p (requestHeaders (p - 1 - head) head (p - 1) sc).2.2
        simp only [newest]; omega

/-- the Store head never runs ahead of the newest verified head: whatever the getter answers, one
    run of the sync loop stores nothing above the highest pending (verified) head -/
theorem c03_head_le_newest_verified (s : SM) : s.syncRun.head ≤ max s.head (newest s.pending) := by
  unfold SM.syncRun
  cases hp : s.pending with
  | nil => simp [newest]
  | cons p rest => simp only; exact process_le_newest (p :: rest) s.head s.script

/-- a gossip header that fails verification — mandatory checks, the type-level check of a forged or
    foreign header, directly or through bifurcation — is refused with an error … -/
theorem c03_invalid_refused (s : SM) (g : Gossip) (hbad : ∀ h, g ≠ .valid h) : (s.gossip g).2 = .refuse := by
  cases g with
  | valid h => exact absurd rfl (hbad h)
  | forged h => simp only [SM.gossip]; split <;> rfl
  | otherFork h => simp only [SM.gossip]; split <;> rfl
  | mandatoryBad h => rfl

/-- … and never becomes the sync target: after the delivery the target is still below its height
    (unless it already was at or above it) -/
theorem c03_refused_not_target (s : SM) (h : Nat) (g : Gossip) (hg : g = .forged h ∨ g = .otherFork h)
    (hbelow : s.target < h) : (s.setLocalHead (h - 1)).target < h := by
  unfold SM.setLocalHead
  split
  · exact hbelow
  · split
    · rename_i h1 h2
      have hp : s.pending = [] := by
        have := h2.1; cases hq : s.pending with
        | nil => rfl
        | cons a as => simp [hq] at this
      simp [SM.target, hp]; omega
    · unfold SM.target; simp; omega

/-- only strictly newer valid heads are accepted; a stale or duplicated one is refused and changes nothing -/
theorem c03_stale_refused (s : SM) (h : Nat) (hle : h ≤ s.target) : s.gossip (.valid h) = (s, .refuse) := by
  simp [SM.gossip, hle]

example : (({ head := 10 } : SM).gossip (.forged 25)).1 = { head := 24 } ∧
          (({ head := 10 } : SM).gossip (.forged 25)).2 = .refuse := by decide
example : (({ head := 10, script := [.shift] } : SM).gossip (.valid 30)).1
    = { head := 10, pending := [30], err := true, script := [] } := by decide

end GoHeader.C03
