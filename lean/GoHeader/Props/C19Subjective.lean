/-
  C19 — "Within one run, the heights returned by Syncer.Head() never decrease": the subjective head that `Head()` reports
  (model: GoHeader.Sync.Subjective) under EVERY interleaving of setters (gossip handler, Head() callers) with the sync loop.
-/
import GoHeader.Sync.Subjective
import GoHeader.Sync.SyncStore
namespace GoHeader.C19Subjective
open GoHeader.Subjective

/-- the loop is past `Append` only with the store at or above its target -/
def LInv (s : St) : Prop := match s.l with | .stored to => to ≤ s.sh | _ => True

theorem getLast?_filter_of_pos {p : Nat → Bool} : ∀ {xs : List Nat} {a : Nat}, xs.getLast? = some a → p a = true →
    (xs.filter p).getLast? = some a := by
  intro xs a h hp
  rw [List.getLast?_eq_head?_reverse] at h ⊢
  rw [← List.filter_reverse]
  cases hr : xs.reverse with
  | nil => rw [hr] at h; simp at h
  | cons y ys =>
    rw [hr] at h
    have : y = a := by simpa using h
    subst this
    simp [hp]

theorem linv_step (s : St) (ev : Ev) (h : LInv s) : LInv (step true s ev) := by
  cases ev with
  | s i x =>
    show LInv (stepS s i x)
    unfold stepS
    split
    · exact h
    · split <;> exact h
    · exact h
  | l =>
    show LInv (stepL true s)
    unfold stepL
    cases hl : s.l with
    | idle => simp only [if_true]; split <;> simp [LInv, hl]
    | syncing to => simp [LInv]; omega
    | stored to => simp [LInv]

theorem localHeadNew_ge_store (s : St) : s.sh ≤ localHeadNew s := by
  unfold localHeadNew; split <;> omega

/-- ONE step of any actor never lowers the subjective head (after the repair) -/
theorem c19_subjective_head_step (s : St) (ev : Ev) (h : LInv s) : localHeadNew s ≤ localHeadNew (step true s ev) := by
  cases ev with
  | s i x =>
    show _ ≤ localHeadNew (stepS s i x)
    unfold stepS
    split
    · exact Nat.le_refl _
    · split
      · exact Nat.le_refl _
      · show localHeadNew s ≤ localHeadNew { s with ss := _ }
        exact Nat.le_refl _
    · rename_i y _
      show localHeadNew s ≤ localHeadNew { s with pend := addH s.pend y, ss := _ }
      unfold addH
      split
      · rename_i hall
        unfold localHeadNew
        simp only [List.getLast?_append, List.getLast?_singleton, Option.some_or]
        cases hl : s.pend.getLast? with
        | none => simp; omega
        | some p =>
          have := List.all_eq_true.1 hall p (List.mem_of_getLast? hl)
          simp at this ⊢; omega
      · exact Nat.le_refl _
  | l =>
    show _ ≤ localHeadNew (stepL true s)
    unfold stepL
    split
    · simp only [if_true]
      split
      · exact Nat.le_refl _
      · rename_i hle
        -- nothing pending above the store: the old value is the store head, and the new one is never below it
        have h1 : localHeadNew s = s.sh := by have := localHeadNew_ge_store s; omega
        rw [h1]; exact localHeadNew_ge_store { s with pend := s.pend.filter (· > s.sh) }
    · rename_i to _
      unfold localHeadNew; simp only
      split <;> omega
    · rename_i to hl
      have hto : to ≤ s.sh := by unfold LInv at h; rw [hl] at h; exact h
      show localHeadNew s ≤ localHeadNew { s with pend := s.pend.filter (· > to), l := .idle }
      cases hg : s.pend.getLast? with
      | none =>
        have h1 : localHeadNew s = s.sh := by unfold localHeadNew; rw [hg]
        rw [h1]; exact localHeadNew_ge_store { s with pend := s.pend.filter (· > to), l := .idle }
      | some p =>
        by_cases hp : p > to
        · have := getLast?_filter_of_pos (p := fun x => decide (x > to)) hg (by simpa using hp)
          unfold localHeadNew; simp only [hg, this]; exact Nat.le_refl _
        · have h1 : localHeadNew s = s.sh := by unfold localHeadNew; rw [hg]; simp; omega
          rw [h1]; exact localHeadNew_ge_store { s with pend := s.pend.filter (· > to), l := .idle }

theorem linv_run (sh n : Nat) (evs : List Ev) : LInv (run true sh n evs) := by
  unfold run
  suffices ∀ s, LInv s → LInv (evs.foldl (step true) s) from this _ (by simp [LInv, init])
  induction evs with
  | nil => intro s h; exact h
  | cons e es ih => intro s h; exact ih _ (linv_step s e h)

/-- under ALL schedules of any number of setters and the sync loop, every further step leaves the subjective head at
    least where it was: the heights `Head()` reports never decrease -/
theorem c19_subjective_head_monotone (sh n : Nat) (evs : List Ev) (ev : Ev) :
    localHeadNew (run true sh n evs) ≤ localHeadNew (run true sh n (evs ++ [ev])) := by
  have : run true sh n (evs ++ [ev]) = step true (run true sh n evs) ev := by simp [run, List.foldl_append]
  rw [this]; exact c19_subjective_head_step _ ev (linv_run sh n evs)

/-- … and it is never below the store head -/
theorem c19_subjective_head_ge_store (sh n : Nat) (evs : List Ev) :
    (run true sh n evs).sh ≤ localHeadNew (run true sh n evs) := localHeadNew_ge_store _

/-- the schedule of F40: setter 0 checks 23 against store head 20 and is delayed; setter 1 brings 24, the loop syncs it;
    setter 0 goes on -/
def f40 : List Ev := [.s 0 23, .s 1 24, .s 1 24, .l, .l, .l, .s 0 23]

/-- before the repair the subjective head went back from 24 to 23 (and stayed there) … -/
theorem c19_subjective_head_regresses_before_repair :
    trace false 20 2 f40 = [20, 20, 20, 24, 24, 24, 24, 23] ∧ (run false 20 2 (f40 ++ [.l, .l])).pend = [23] := by decide

/-- … and with it the same schedule is monotone and nothing stale stays pending -/
theorem c19_subjective_head_f40_repaired :
    trace true 20 2 f40 = [20, 20, 20, 24, 24, 24, 24, 24] ∧ (run true 20 2 (f40 ++ [.l])).pend = [] := by decide

/-! ### the cached store head (F43) -/
open GoHeader.SyncStore in
/-- after the repair NO step of any actor lowers the cached head once it is set - under ALL interleavings of any number of
    Head() callers with the appenders -/
theorem c19_cached_head_never_decreases (s : SyncStore.St) (ev : SyncStore.Ev) (c : Nat) (h : s.cache = some c) :
    ∃ c', (SyncStore.step true s ev).cache = some c' ∧ c ≤ c' := by
  cases ev with
  | append => exact ⟨c + 1, by simp [SyncStore.step, stepAppend, h], Nat.le_succ c⟩
  | head i =>
    show ∃ c', (stepHead true s i).cache = some c' ∧ c ≤ c'
    unfold stepHead
    split
    · exact ⟨c, h, Nat.le_refl c⟩
    · simp only [h]; exact ⟨c, rfl, Nat.le_refl c⟩
    · simp only [h]; exact ⟨c, rfl, Nat.le_refl c⟩

open GoHeader.SyncStore in
/-- … and a Head() call that starts when the cache is set returns the cached value: so a call that starts after another
    one returned `c` never returns less -/
theorem c19_head_after_cached_returns_cache (s : SyncStore.St) (i : Nat) (c : Nat) (h : s.cache = some c)
    (hi : s.rs[i]? = some .idle) : (stepHead true s i).results = s.results ++ [c] := by
  simp [stepHead, hi, h]

/-- lifted to every schedule: whatever happened before, one more step never lowers a cached head -/
theorem c19_cached_head_monotone_run (store n : Nat) (evs : List SyncStore.Ev) (ev : SyncStore.Ev) (c : Nat)
    (h : (SyncStore.run true store n evs).cache = some c) :
    ∃ c', (SyncStore.run true store n (evs ++ [ev])).cache = some c' ∧ c ≤ c' := by
  have : SyncStore.run true store n (evs ++ [ev]) = SyncStore.step true (SyncStore.run true store n evs) ev := by
    simp [SyncStore.run, List.foldl_append]
  rw [this]; exact c19_cached_head_never_decreases _ ev c h

/-- the F43 schedule: reader 0 reads store head 20 and is paused; the adjacent header 21 is appended; reader 1 gets 21; reader 0
    publishes; reader 1 asks again. Before the repair: 21, then 20, 20 … -/
theorem c19_cached_head_regresses_before_repair :
    (SyncStore.run false 20 2 [.head 0, .append, .head 1, .head 0, .head 1]).results = [21, 20, 20] := by decide

/-- … after it: 21, 21, 21 -/
theorem c19_cached_head_f43_repaired :
    (SyncStore.run true 20 2 [.head 0, .append, .head 1, .head 0, .head 1]).results = [21, 21, 21] := by decide

end GoHeader.C19Subjective
