/-
  C07 — With an honest getter the Syncer reaches every verified target; errors delay it.
  C03's storing-path theorems are in the same file family (Props/C03.lean imports this one).
  Model: `Sync.Machine` (sequential; the gossip-handler × sync-loop interleavings are not modelled).
-/
import GoHeader.Sync.Machine
import GoHeader.Sync.Trigger
namespace GoHeader.C07
open GoHeader GoHeader.Mach

/-- a getter that serves the requested ranges, possibly as shorter non-empty contiguous prefixes -/
def Honest (sc : List Resp) : Prop := ∀ r ∈ sc, r = .ok ∨ ∃ k, r = .pfx k

/-- `requestHeaders` never moves backwards and never past its target — whatever the getter does -/
theorem request_bounds (fuel lo hi : Nat) (sc : List Resp) (h : lo ≤ hi) :
    lo ≤ (requestHeaders fuel lo hi sc).1 ∧ (requestHeaders fuel lo hi sc).1 ≤ hi := by
  induction fuel generalizing lo sc with
  | zero => simp [requestHeaders, h]
  | succ n ih =>
    unfold requestHeaders
    split
    · simp [h]
    · rename_i hlt
      have hs : min (hi - lo) maxReq ≥ 1 := by unfold maxReq; omega
      have hs2 : lo + min (hi - lo) maxReq ≤ hi := by omega
      cases sc with
      | nil => have := ih (lo + min (hi - lo) maxReq) [] hs2; simp only; omega
      | cons r rest =>
        cases r with
        | ok => have := ih (lo + min (hi - lo) maxReq) rest hs2; simp only; omega
        | pfx k =>
          simp only
          split
          · rename_i hk; have := ih (lo + k) rest (by omega); omega
          · have := ih (lo + min (hi - lo) maxReq) rest hs2; omega
        | err => simp; omega
        | empty => simp; omega
        | shift => simp only; split <;> simp <;> omega

/-- progress: with an honest getter every iteration stores at least one header, so the loop reaches
    its target without an error — for every way the ranges are cut into prefixes -/
theorem c07_request_reaches_target (fuel lo hi : Nat) (sc : List Resp) (hh : Honest sc) (hf : hi - lo ≤ fuel) :
    (requestHeaders fuel lo hi sc).1 = max lo hi ∧ (requestHeaders fuel lo hi sc).2.1 = false ∧
      Honest (requestHeaders fuel lo hi sc).2.2 := by
  induction fuel generalizing lo sc with
  | zero => simp [requestHeaders]; exact ⟨by omega, hh⟩
  | succ n ih =>
    unfold requestHeaders
    split
    · rename_i hge; simp; exact ⟨by omega, hh⟩
    · rename_i hlt
      have hs : min (hi - lo) maxReq ≥ 1 := by unfold maxReq; omega
      cases sc with
      | nil =>
        have := ih (lo + min (hi - lo) maxReq) [] hh (by omega)
        simp only; refine ⟨by omega, this.2.1, this.2.2⟩
      | cons r rest =>
        have hrest : Honest rest := fun x hx => hh x (List.mem_cons_of_mem _ hx)
        rcases hh r (by simp) with rfl | ⟨k, rfl⟩
        · have := ih (lo + min (hi - lo) maxReq) rest hrest (by omega)
          simp only; exact ⟨by omega, this.2.1, this.2.2⟩
        · simp only
          split
          · rename_i hk
            have := ih (lo + k) rest hrest (by omega)
            exact ⟨by omega, this.2.1, this.2.2⟩
          · have := ih (lo + min (hi - lo) maxReq) rest hrest (by omega)
            exact ⟨by omega, this.2.1, this.2.2⟩

/-- heads learned in any pattern (adjacent, skipping, leaving gaps in the pending set) are all synced
    by one run of the loop when the getter is honest: the store head reaches the newest target,
    nothing stays pending, State reports no error -/
theorem c07_process_reaches_target (ps : List Nat) (head : Nat) (sc : List Resp) (hh : Honest sc)
    (hasc : ps.Pairwise (· < ·)) :
    let r := processPending ps head sc
    r.2.1 = false ∧ r.2.2.2 = [] ∧ r.1 = max head (ps.getLast?.getD head) ∧ Honest r.2.2.1 := by
  induction ps generalizing head sc with
  | nil => simp [processPending]; exact hh
  | cons p rest ih =>
    have hasc' : rest.Pairwise (· < ·) := (List.pairwise_cons.mp hasc).2
    have hlt : ∀ q ∈ rest, p < q := (List.pairwise_cons.mp hasc).1
    have hlast : ∀ d, p ≤ (rest.getLast?.getD p) ∧ ((p :: rest).getLast?.getD d) = rest.getLast?.getD p := by
      intro d
      cases hr : rest.getLast? with
      | none => have : rest = [] := by simpa using hr
                subst this; simp
      | some q =>
        have hq : q ∈ rest := List.mem_of_getLast? hr
        have := hlt q hq
        simp [List.getLast?_cons, hr]; omega
    unfold processPending
    split
    · rename_i hle
      have := ih head sc hh hasc'
      simp only at this ⊢
      refine ⟨this.1, this.2.1, ?_, this.2.2.2⟩
      rw [this.2.2.1, (hlast head).2]
      cases hr : rest.getLast? with
      | none => simp; omega
      | some q => have := hlt q (List.mem_of_getLast? hr); simp <;> omega
    · rename_i hgt
      have hreq := c07_request_reaches_target (p - 1 - head) head (p - 1) sc hh (Nat.le_refl _)
      simp only [hreq.2.1, Bool.false_eq_true, if_false]
      have := ih p (requestHeaders (p - 1 - head) head (p - 1) sc).2.2 hreq.2.2 hasc'
      simp only at this ⊢
      refine ⟨this.1, this.2.1, ?_, this.2.2.2⟩
      rw [this.2.2.1, (hlast head).2]
      have := (hlast head).1
      omega

/-- a getter error only aborts the current attempt: the store head does not move back (nothing partial
    is lost), State reports the error, and the pending heads are kept for the next attempt -/
theorem c07_error_keeps_progress (ps : List Nat) (head : Nat) (sc : List Resp) :
    head ≤ (processPending ps head sc).1 ∧
      ((processPending ps head sc).2.1 = true → (processPending ps head sc).2.2.2 ≠ []) := by
  induction ps generalizing head sc with
  | nil => simp [processPending]
  | cons p rest ih =>
    unfold processPending
    split
    · exact ih head sc
    · rename_i hgt
      have hb := request_bounds (p - 1 - head) head (p - 1) sc (by omega)
      simp only
      split
      · simp; exact hb.1
      · have := ih p (requestHeaders (p - 1 - head) head (p - 1) sc).2.2
        exact ⟨by omega, this.2⟩

/-- … and the next run (triggered by the next learned head) resumes from the store head and completes -/
theorem c07_resume_completes (s : SM) (hh : Honest s.script) (hasc : s.pending.Pairwise (· < ·)) (hne : s.pending ≠ []) :
    s.syncRun.err = false ∧ s.syncRun.pending = [] ∧ s.syncRun.head = max s.head s.target := by
  unfold SM.syncRun
  cases hp : s.pending with
  | nil => exact absurd hp hne
  | cons p rest =>
    have := c07_process_reaches_target (p :: rest) s.head s.script hh (hp ▸ hasc)
    simp only at this ⊢
    refine ⟨this.1, this.2.1, ?_⟩
    rw [this.2.2.1]; unfold SM.target; rw [hp]
    cases hl : (p :: rest).getLast? with
    | none => simp at hl
    | some q => simp

example : (({ head := 10, script := [.pfx 3, .err, .pfx 1] } : SM).gossip (.valid 40)).1.head = 13 := by decide
example : ((({ head := 10, script := [.pfx 3, .err, .pfx 1] } : SM).gossip (.valid 40)).1.gossip (.valid 41)).1
    = { head := 41, pending := [], err := false, script := [] } := by decide

end GoHeader.C07

/-! ### the hand-over between `setLocalHead` and the sync loop, for ALL interleavings -/
namespace GoHeader.C07
open GoHeader.SyncTrigger

/-- every pending head above the store head is still going to be looked at -/
def Inv (s : St) : Prop :=
  ∀ x ∈ s.pend, x > s.sh →
    s.trig = true ∨ .fire ∈ s.gs ∨ s.l = .read ∨ (∃ to, (s.l = .sync to ∨ s.l = .clean to) ∧ x ≤ to)

theorem le_maxOf {x : Nat} {xs : List Nat} (h : x ∈ xs) : x ≤ maxOf xs := by
  induction xs with
  | nil => cases h
  | cons y ys ih =>
    simp [maxOf] at *
    rcases h with rfl | h
    · omega
    · have := ih h; omega

theorem mem_set_fire {gs : List GPc} {i : Nat} {p : GPc} (h : .fire ∈ gs) (hi : gs[i]? = some p) (hp : p ≠ .fire) (q : GPc) :
    .fire ∈ gs.set i q := by
  rw [List.mem_iff_getElem] at h
  obtain ⟨j, hj, hjv⟩ := h
  rw [List.mem_iff_getElem]
  refine ⟨j, by simpa using hj, ?_⟩
  by_cases e : i = j
  · subst e
    have : gs[i]? = some GPc.fire := by rw [List.getElem?_eq_getElem hj, hjv]
    rw [this] at hi; cases hi; exact absurd rfl hp
  · simp [e, hjv]

theorem inv_init (sh n : Nat) : Inv (init sh n) := by
  intro x hx; simp [init] at hx

theorem inv_stepG (s : St) (i x : Nat) (h : Inv s) : Inv (stepG s i x) := by
  unfold stepG
  split
  · exact h
  · rename_i hi
    split
    · intro y hy hgt
      rcases h y hy hgt with a | a | a | a
      · exact Or.inl a
      · exact Or.inr (Or.inl (mem_set_fire a hi (by simp) _))
      · exact Or.inr (Or.inr (Or.inl a))
      · exact Or.inr (Or.inr (Or.inr a))
    · exact h
  · rename_i y hi
    intro z hz hgt
    refine Or.inr (Or.inl ?_)
    have hlt : i < s.gs.length := by
      rcases Nat.lt_or_ge i s.gs.length with a | a
      · exact a
      · rw [List.getElem?_eq_none a] at hi; cases hi
    exact List.mem_iff_getElem.mpr ⟨i, by simpa using hlt, by simp⟩
  · intro y hy hgt
    exact Or.inl rfl

theorem inv_stepL (s : St) (h : Inv s) : Inv (stepL s) := by
  unfold stepL
  split
  · split
    · intro x hx hgt; exact Or.inr (Or.inr (Or.inl rfl))
    · exact h
  · split
    · intro x hx hgt
      exact Or.inr (Or.inr (Or.inr ⟨_, Or.inl rfl, le_maxOf hx⟩))
    · rename_i hm
      intro x hx hgt
      have h1 : x ≤ maxOf s.pend := le_maxOf hx
      have h2 : s.sh < x := hgt
      omega
  · rename_i to hl
    intro x hx hgt
    have hgt' : x > s.sh := by simp at hgt; omega
    rcases h x hx hgt' with a | a | a | ⟨t, a, b⟩
    · exact Or.inl a
    · exact Or.inr (Or.inl a)
    · rw [hl] at a; cases a
    · rw [hl] at a
      rcases a with a | a
      · cases a; simp at hgt; omega
      · cases a
  · rename_i to hl
    intro x hx hgt
    simp at hx
    rcases h x hx.1 hgt with a | a | a | ⟨t, a, b⟩
    · exact Or.inl a
    · exact Or.inr (Or.inl a)
    · rw [hl] at a; cases a
    · rw [hl] at a
      rcases a with a | a
      · cases a
      · cases a; omega

theorem inv_run (sh n : Nat) (evs : List Ev) : Inv (run sh n evs) := by
  unfold run
  suffices ∀ s, Inv s → Inv (evs.foldl step s) from this _ (inv_init sh n)
  induction evs with
  | nil => intro s h; exact h
  | cons e es ih =>
    intro s h
    apply ih
    cases e with
    | g i x => exact inv_stepG s i x h
    | l => exact inv_stepL s h

/-- **no lost trigger**: in every reachable QUIESCENT state (loop idle, channel empty, no setter between its
    `pending.Add` and its `wantSync`) nothing above the store head is pending: every head that was handed to
    `setLocalHead` — also while a sync was running — has been synced. -/
theorem c07_no_lost_trigger (sh n : Nat) (evs : List Ev)
    (hl : (run sh n evs).l = .idle) (ht : (run sh n evs).trig = false) (hg : .fire ∉ (run sh n evs).gs) :
    ∀ x ∈ (run sh n evs).pend, x ≤ (run sh n evs).sh := by
  intro x hx
  rcases Nat.lt_or_ge (run sh n evs).sh x with hgt | hle
  · rcases inv_run sh n evs x hx hgt with a | a | a | ⟨t, a, _⟩
    · rw [ht] at a; cases a
    · exact absurd a hg
    · rw [hl] at a; cases a
    · rw [hl] at a; rcases a with a | a <;> cases a
  · exact hle

/-- non-vacuity: two heads, the second learned while the first sync is running; quiescent at the end, store at 25 -/
example : (run 10 1 [.g 0 20, .g 0 20, .g 0 20, .l, .l, .g 0 25, .g 0 25, .l, .g 0 25, .l, .l, .l, .l, .l]).sh = 25 := by decide

end GoHeader.C07
