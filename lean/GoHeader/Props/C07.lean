/-
  C07 — With an honest getter the Syncer reaches every verified target; errors delay it.
  C03's storing-path theorems are in the same file family (Props/C03.lean imports this one).
  Model: `Sync.Machine` (sequential; the gossip-handler × sync-loop interleavings are not modelled).
-/
import GoHeader.Sync.Machine
namespace GoHeader.C07
open GoHeader GoHeader.Mach

/-- a getter that serves the requested ranges, possibly as shorter non-empty contiguous prefixes -/
def Honest (sc : List Resp) : Prop := ∀ r ∈ sc, r = .ok ∨ ∃ k, r = .pfx k

/-- `requestHeaders` never moves backwards and never past its target — whatever the getter does -/
theorem request_bounds (fuel lo hi : Nat) (sc : List Resp) (h : lo ≤ hi) :
    lo ≤ (requestHeaders fuel lo hi sc).1 ∧ (requestHeaders fuel lo hi sc).1 ≤ hi := by
  induction fuel generalizing lo sc with
  | zero => simp [requestHeaders, h]
  | succ n ih =>
    unfold requestHeaders
    split
    · simp [h]
    · rename_i hlt
      have hs : min (hi - lo) maxReq ≥ 1 := by unfold maxReq; omega
      have hs2 : lo + min (hi - lo) maxReq ≤ hi := by omega
      cases sc with
      | nil => have := ih (lo + min (hi - lo) maxReq) [] hs2; simp only; omega
      | cons r rest =>
        cases r with
        | ok => have := ih (lo + min (hi - lo) maxReq) rest hs2; simp only; omega
        | pfx k =>
          simp only
          split
          · rename_i hk; have := ih (lo + k) rest (by omega); omega
          · have := ih (lo + min (hi - lo) maxReq) rest hs2; omega
        | err => simp; omega
        | empty => simp; omega
        | shift => simp only; split <;> simp <;> omega

/-- progress: with an honest getter every iteration stores at least one header, so the loop reaches
    its target without an error — for every way the ranges are cut into prefixes -/
theorem c07_request_reaches_target (fuel lo hi : Nat) (sc : List Resp) (hh : Honest sc) (hf : hi - lo ≤ fuel) :
    (requestHeaders fuel lo hi sc).1 = max lo hi ∧ (requestHeaders fuel lo hi sc).2.1 = false ∧
      Honest (requestHeaders fuel lo hi sc).2.2 := by
  induction fuel generalizing lo sc with
  | zero => simp [requestHeaders]; exact ⟨by omega, hh⟩
  | succ n ih =>
    unfold requestHeaders
    split
    · rename_i hge; simp; exact ⟨by omega, hh⟩
    · rename_i hlt
      have hs : min (hi - lo) maxReq ≥ 1 := by unfold maxReq; omega
      cases sc with
      | nil =>
        have := ih (lo + min (hi - lo) maxReq) [] hh (by omega)
        simp only; refine ⟨by omega, this.2.1, this.2.2⟩
      | cons r rest =>
        have hrest : Honest rest := fun x hx => hh x (List.mem_cons_of_mem _ hx)
        rcases hh r (by simp) with rfl | ⟨k, rfl⟩
        · have := ih (lo + min (hi - lo) maxReq) rest hrest (by omega)
          simp only; exact ⟨by omega, this.2.1, this.2.2⟩
        · simp only
          split
          · rename_i hk
            have := ih (lo + k) rest hrest (by omega)
            exact ⟨by omega, this.2.1, this.2.2⟩
          · have := ih (lo + min (hi - lo) maxReq) rest hrest (by omega)
            exact ⟨by omega, this.2.1, this.2.2⟩

/-- heads learned in any pattern (adjacent, skipping, leaving gaps in the pending set) are all synced
    by one run of the loop when the getter is honest: the store head reaches the newest target,
    nothing stays pending, State reports no error -/
theorem c07_process_reaches_target (ps : List Nat) (head : Nat) (sc : List Resp) (hh : Honest sc)
    (hasc : ps.Pairwise (· < ·)) :
    let r := processPending ps head sc
    r.2.1 = false ∧ r.2.2.2 = [] ∧ r.1 = max head (ps.getLast?.getD head) ∧ Honest r.2.2.1 := by
  induction ps generalizing head sc with
  | nil => simp [processPending]; exact hh
  | cons p rest ih =>
    have hasc' : rest.Pairwise (· < ·) := (List.pairwise_cons.mp hasc).2
    have hlt : ∀ q ∈ rest, p < q := (List.pairwise_cons.mp hasc).1
    have hlast : ∀ d, p ≤ (rest.getLast?.getD p) ∧ ((p :: rest).getLast?.getD d) = rest.getLast?.getD p := by
      intro d
      cases hr : rest.getLast? with
      | none => have : rest = [] := by simpa using hr
                subst this; simp
      | some q =>
        have hq : q ∈ rest := List.mem_of_getLast? hr
        have := hlt q hq
        simp [List.getLast?_cons, hr]; omega
    unfold processPending
    split
    · rename_i hle
      have := ih head sc hh hasc'
      simp only at this ⊢
      refine ⟨this.1, this.2.1, ?_, this.2.2.2⟩
      rw [this.2.2.1, (hlast head).2]
      cases hr : rest.getLast? with
      | none => simp; omega
      | some q => have := hlt q (List.mem_of_getLast? hr); simp <;> omega
    · rename_i hgt
      have hreq := c07_request_reaches_target (p - 1 - head) head (p - 1) sc hh (Nat.le_refl _)
      simp only [hreq.2.1, Bool.false_eq_true, if_false]
      have := ih p (requestHeaders (p - 1 - head) head (p - 1) sc).2.2 hreq.2.2 hasc'
      simp only at this ⊢
      refine ⟨this.1, this.2.1, ?_, this.2.2.2⟩
      rw [this.2.2.1, (hlast head).2]
      have := (hlast head).1
      omega

/-- a getter error only aborts the current attempt: the store head does not move back (nothing partial
    is lost), State reports the error, and the pending heads are kept for the next attempt -/
theorem c07_error_keeps_progress (ps : List Nat) (head : Nat) (sc : List Resp) :
    head ≤ (processPending ps head sc).1 ∧
      ((processPending ps head sc).2.1 = true → (processPending ps head sc).2.2.2 ≠ []) := by
  induction ps generalizing head sc with
  | nil => simp [processPending]
  | cons p rest ih =>
    unfold processPending
    split
    · exact ih head sc
    · rename_i hgt
      have hb := request_bounds (p - 1 - head) head (p - 1) sc (by omega)
      simp only
      split
      · simp; exact hb.1
      · have := ih p (requestHeaders (p - 1 - head) head (p - 1) sc).2.2
        exact ⟨by omega, this.2⟩

/-- … and the next run (triggered by the next learned head) resumes from the store head and completes -/
theorem c07_resume_completes (s : SM) (hh : Honest s.script) (hasc : s.pending.Pairwise (· < ·)) (hne : s.pending ≠ []) :
    s.syncRun.err = false ∧ s.syncRun.pending = [] ∧ s.syncRun.head = max s.head s.target := by
  unfold SM.syncRun
  cases hp : s.pending with
  | nil => exact absurd hp hne
  | cons p rest =>
    have := c07_process_reaches_target (p :: rest) s.head s.script hh (hp ▸ hasc)
    simp only at this ⊢
    refine ⟨this.1, this.2.1, ?_⟩
    rw [this.2.2.1]; unfold SM.target; rw [hp]
    cases hl : (p :: rest).getLast? with
    | none => simp at hl
    | some q => simp

example : (({ head := 10, script := [.pfx 3, .err, .pfx 1] } : SM).gossip (.valid 40)).1.head = 13 := by decide
example : ((({ head := 10, script := [.pfx 3, .err, .pfx 1] } : SM).gossip (.valid 40)).1.gossip (.valid 41)).1
    = { head := 41, pending := [], err := false, script := [] } := by decide

end GoHeader.C07
