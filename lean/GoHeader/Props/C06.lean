/-
  C06 — Store survives restart and crash without loss or dangling head/tail pointers.

  Proved here (about `Store.Seq`): the clean Stop/Start clause for every reachable state; what a
  Store opened on an ARBITRARY datastore image reports (pointers that do not resolve are dropped, the
  ends that remain resolve to stored headers); the between-the-ends clause under the explicit
  hypothesis that the image has no hole between its two pointers; Head reaching the tip when the
  continuation is appended.  `c06_crash_counterexample` proves that the unconditional
  between-the-ends clause is FALSE: the image a crash inside a head-side DeleteRange leaves on a
  datastore without atomic delete batches (finding F14, replayed on the real Store by the harness).
  Which images a crash can leave (prefixes of the commit log) is NOT derived in the model: the harness
  takes them from the real Store's write log and checks every one of them (see DESIGN.md §4 C06).
-/
import GoHeader.Store.PtrFault
import GoHeader.Lemmas.Store
namespace GoHeader.C06
open GoHeader GoHeader.Store

/-- a refused write of the tail pointer inside a tail-side DeleteRange (`Store.PtrFault`): the Tail the running store
    reports still resolves to a stored header ... -/
theorem c06_pointer_fault_tail_resolves (s : PtrFault.St) (to : Nat) (hto : to ∈ s.stored) (fault : Bool) :
    PtrFault.TailResolves (PtrFault.deleteTail true s to fault) :=
  PtrFault.delete_fault_tail_resolves s to hto fault

/-- ... and a clean Stop / Start reports the same Tail as before (the final flush persists the pointers from memory) -/
theorem c06_pointer_fault_restart_same_tail (s : PtrFault.St) (to : Nat) (hto : to ∈ s.stored) (fault : Bool) :
    (PtrFault.reopen (PtrFault.stop (PtrFault.deleteTail true s to fault))).memTail =
      (PtrFault.deleteTail true s to fault).memTail :=
  PtrFault.fault_then_restart_same_tail s to hto fault

/-- Clean restart: after Stop and Start the Store reports the same Head, Tail and Height and holds
    exactly the headers it was given — including every batch whose Append returned before Stop
    (still in the write queue or the pending batch). -/
theorem c06_clean_restart (s : St) (hg : Good s) :
    s.restart.head = s.sync.flushStop.head ∧ s.restart.tail = s.sync.flushStop.tail ∧
    (∀ k, s.restart.present k ↔ s.mentions k) ∧ s.restart.pending = [] ∧ s.restart.queue = [] ∧
    Inv s.restart := by
  obtain ⟨r1, r2, _, _, r5, _, _⟩ := restart_spec s hg
  exact ⟨r1, r2, present_restart s hg, r5, rfl, (good_restart s hg).1⟩

/-- the final flush of Stop does not move Head of a drained store (Head already is the top of its run) -/
theorem c06_stop_keeps_head (s : St) (hi : Inv s) : s.flushStop.head = s.head := by
  have hlk := lookup_eq_present_of_inv s hi
  obtain ⟨hnone, hc, hrun⟩ := hi
  have h1 : s.flushStop.head = s.advance.head := by
    unfold St.flushStop St.commit St.recede
    cases s.advance.tail <;> rfl
  rw [h1]
  cases hh : s.head with
  | none => simp [St.advance, hh]
  | some hd =>
    cases ht : s.tail with
    | none => exact absurd (hnone.mpr ht) (by simp [hh])
    | some tl =>
      obtain ⟨_, _, htop, _⟩ := hrun hd tl hh ht
      have hl : s.lookup (hd + 1) = false := by
        cases hl : s.lookup (hd + 1) with
        | false => rfl
        | true => exact absurd ((hlk _).mp hl) htop
      simp [St.advance, hh, walkUp, hl]

/-- A Store opened on ANY datastore image: a pointer whose header is missing is dropped, and the
    ends that remain resolve to stored headers (retrievable by height and by hash). -/
theorem c06_reopen_ends_resolve (img : St) :
    (∀ hd, img.reopen.head = some hd → hd ∈ img.hdr ∧ img.reopen.lookup hd = true ∧ img.reopen.byHash hd = true) ∧
    (∀ tl, img.reopen.tail = some tl → tl ∈ img.hdr ∧ img.reopen.lookup tl = true ∧ img.reopen.byHash tl = true) := by
  have key : ∀ (ptr : Option Nat) (h : Nat), resolvePtr ptr img.hdr = some h → h ∈ img.hdr := by
    intro ptr h e
    unfold resolvePtr at e
    cases ptr with
    | none => cases e
    | some x => simp at e; obtain ⟨a, b⟩ := e; subst b; exact a
  constructor
  · intro hd e
    have hm := key img.headPtr hd (by simpa [St.reopen] using e)
    refine ⟨hm, ?_, ?_⟩
    · unfold St.lookup; simp [e]
    · simp [St.byHash, St.reopen, hm]
  · intro tl e
    have hm := key img.tailPtr tl (by simpa [St.reopen] using e)
    refine ⟨hm, ?_, ?_⟩
    · unfold St.lookup; simp [e]
    · simp [St.byHash, St.reopen, hm]

/-- an image without a hole between its two (resolving) pointers: the shape every commit of the
    flush loop and every atomic delete batch leaves -/
def NoHole (img : St) : Prop :=
  ∀ hd tl, resolvePtr img.headPtr img.hdr = some hd → resolvePtr img.tailPtr img.hdr = some tl →
    ∀ h, tl ≤ h → h ≤ hd → (h ∈ img.idx ∧ h ∈ img.hdr)

/-- C06 (partial): on an image without such a hole every height between the reopened Tail and
    Head is retrievable. -/
theorem c06_reopen_between_partial (img : St) (hn : NoHole img) (hd tl h : Nat)
    (eh : img.reopen.head = some hd) (et : img.reopen.tail = some tl) (h1 : tl ≤ h) (h2 : h ≤ hd) :
    img.reopen.lookup h = true ∧ img.reopen.byHash h = true := by
  have := hn hd tl (by simpa [St.reopen] using eh) (by simpa [St.reopen] using et) h h1 h2
  refine ⟨lookup_of_present _ _ (Or.inr (by simpa [St.reopen] using this)), ?_⟩
  simp [St.byHash, St.reopen, this.2]

/-- the unconditional statement is false: the image left by a crash after the first of the two
    deletions of a head-side `DeleteRange(4, 6)` on a store 3..5 (datastore without atomic delete
    batches) reopens with Tail 3, Head 5 and height 4 missing (finding F14). -/
theorem c06_crash_counterexample :
    let img : St := { batch := 2, hdr := [3, 5], idx := [3, 4, 5], headPtr := some 5, tailPtr := some 3 }
    img.reopen.head = some 5 ∧ img.reopen.tail = some 3 ∧ img.reopen.getByHeight 4 = .notFound := by
  decide

/-- appending the continuation of the chain makes Head advance to (at least) the new tip
    (`hmono`: Head does not move down on Append — proved for every flush as `C17.c17_head_monotone_flush`) -/
theorem c06_continuation_reaches_tip (s : St) (hg : Good s) (hd hd' tip : Nat)
    (hs : List Nat) (hrun : ∀ h, hd < h → h ≤ tip → h ∈ hs)
    (eh : ((s.step (.append hs)).step .sync).head = some hd') (hmono : hd ≤ hd') : tip ≤ hd' := by
  have hg' : Good ((s.step (.append hs)).step .sync) := good_step _ _ (good_step s _ hg)
  by_cases htip : tip ≤ hd'
  · exact htip
  · have hin : hd' + 1 ∈ hs := hrun (hd' + 1) (by omega) (by omega)
    have hsn : hs.isEmpty = false := by cases hs <;> simp_all
    have hpres : ((s.step (.append hs)).step .sync).present (hd' + 1) := by
      simp only [St.step, hsn, Bool.false_eq_true, if_false]
      apply (present_sync ({ s with queue := s.queue ++ [hs] } : St) hg.1.2.1 (hd' + 1)).mpr
      exact Or.inr ⟨hs, by simp, hin⟩
    cases et : ((s.step (.append hs)).step .sync).tail with
    | none => exact absurd (hg'.1.1.mpr et) (by simp [eh])
    | some tl => exact absurd hpres (hg'.1.2.2 hd' tl eh et).2.2.1

end GoHeader.C06
