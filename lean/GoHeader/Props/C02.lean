/-
  C02 — VerifyRange returns exactly the verified, height-adjacent prefix of its input.
-/
import GoHeader.Verify
namespace GoHeader.C02
open GoHeader

/-- every element was verified against its predecessor (`t` for the first); heights step by one
    from the first element on (`first = true` exempts the first element from adjacency) -/
def Chain (now drift : Int) (tv : Hdr → Hdr → TV) : Hdr → Bool → List Hdr → Prop
  | _, _, [] => True
  | t, first, u :: us =>
    Verify now drift tv t u = none ∧ (first = false → u.height = t.height + 1) ∧
      Chain now drift tv u false us

theorem loop_prefix (now drift : Int) (tv) (t : Hdr) (f : Bool) (us : List Hdr) :
    (verifyLoop now drift tv t f us).1 <+: us := by
  induction us generalizing t f with
  | nil => simp [verifyLoop]
  | cons u us ih =>
    unfold verifyLoop
    split
    · simp
    · split
      · simp
      · have := ih u false
        simpa [List.prefix_cons_inj] using this

theorem loop_nil_iff (now drift : Int) (tv) (t : Hdr) (f : Bool) (us : List Hdr) :
    (verifyLoop now drift tv t f us).2 = none ↔ (verifyLoop now drift tv t f us).1 = us := by
  induction us generalizing t f with
  | nil => simp [verifyLoop]
  | cons u us ih =>
    unfold verifyLoop
    split
    · simp
    · split
      · simp
      · have := ih u false
        simpa using this

theorem loop_chain (now drift : Int) (tv) (t : Hdr) (f : Bool) (us : List Hdr) :
    Chain now drift tv t f (verifyLoop now drift tv t f us).1 := by
  induction us generalizing t f with
  | nil => simp [verifyLoop, Chain]
  | cons u us ih =>
    unfold verifyLoop
    split
    · simp [Chain]
    · rename_i hv
      split
      · simp [Chain]
      · rename_i hadj
        refine ⟨hv, ?_, ih u false⟩
        intro hf; subst hf; simp at hadj; omega

/-- last element of `t :: r` — the rolling trusted header after the verified prefix `r` -/
def lastOr (t : Hdr) : List Hdr → Hdr
  | [] => t
  | u :: us => lastOr u us

/-- when the loop stops early, the element right after the returned prefix is the culprit:
    it fails `Verify` against its predecessor or (not being first) breaks adjacency -/
theorem loop_first_bad (now drift : Int) (tv) (t : Hdr) (f : Bool) (us : List Hdr)
    (he : (verifyLoop now drift tv t f us).2 ≠ none) :
    ∃ bad rest, us = (verifyLoop now drift tv t f us).1 ++ bad :: rest ∧
      let p := lastOr t (verifyLoop now drift tv t f us).1
      let isFirst := f && (verifyLoop now drift tv t f us).1.isEmpty
      (Verify now drift tv p bad ≠ none ∨ (isFirst = false ∧ bad.height ≠ p.height + 1)) := by
  induction us generalizing t f with
  | nil => simp [verifyLoop] at he
  | cons u us ih =>
    unfold verifyLoop at he ⊢
    split
    · rename_i e hv
      exact ⟨u, us, by simp, Or.inl (by simp [lastOr, hv])⟩
    · rename_i hv
      split
      · rename_i hadj
        refine ⟨u, us, by simp, Or.inr ?_⟩
        simp at hadj
        simp [lastOr]
        exact ⟨hadj.1, fun h => hadj.2 h.symm⟩
      · rename_i hadj
        simp only [hv, hadj] at he
        obtain ⟨bad, rest, h1, h2⟩ := ih u false (by simpa using he)
        refine ⟨bad, rest, by simp; exact h1, ?_⟩
        simpa [lastOr] using h2

/-- C02: the result is a prefix of the input … -/
theorem c02_prefix (now drift : Int) (tv) (t : Hdr) (us : List Hdr) :
    (VerifyRange now drift tv t us).1 <+: us := by
  unfold VerifyRange; split
  · simp
  · exact loop_prefix ..

/-- … in which each header passed Verify against its predecessor and heights step by one. -/
theorem c02_chain (now drift : Int) (tv) (t : Hdr) (us : List Hdr) :
    Chain now drift tv t true (VerifyRange now drift tv t us).1 := by
  unfold VerifyRange; split
  · simp [Chain]
  · exact loop_chain ..

/-- C02: the error is nil iff the returned slice is the whole, non-empty input. -/
theorem c02_nil_iff (now drift : Int) (tv) (t : Hdr) (us : List Hdr) :
    (VerifyRange now drift tv t us).2 = none ↔ (us ≠ [] ∧ (VerifyRange now drift tv t us).1 = us) := by
  unfold VerifyRange
  cases us with
  | nil => simp
  | cons u us' => simpa using loop_nil_iff now drift tv t true (u :: us')

/-- C02: an empty input is an error (ErrEmptyRange, hard). -/
theorem c02_empty (now drift : Int) (tv) (t : Hdr) :
    VerifyRange now drift tv t [] = ([], some { origin := .sentinel .ErrEmptyRange, soft := false }) := by
  simp [VerifyRange]

/-- C02: the first header that fails verification or adjacency is never part of the result:
    on error the input splits as `result ++ bad :: rest`, and `bad` is what failed. -/
theorem c02_first_bad_excluded (now drift : Int) (tv) (t : Hdr) (us : List Hdr)
    (hne : us ≠ []) (he : (VerifyRange now drift tv t us).2 ≠ none) :
    ∃ bad rest, us = (VerifyRange now drift tv t us).1 ++ bad :: rest ∧
      let r := (VerifyRange now drift tv t us).1
      let p := lastOr t r
      (Verify now drift tv p bad ≠ none ∨ (r ≠ [] ∧ bad.height ≠ p.height + 1)) := by
  unfold VerifyRange at he ⊢
  have : us.isEmpty = false := by cases us <;> simp_all
  simp only [this, Bool.false_eq_true, if_false] at he ⊢
  obtain ⟨bad, rest, h1, h2⟩ := loop_first_bad now drift tv t true us he
  refine ⟨bad, rest, h1, ?_⟩
  rcases h2 with h2 | ⟨h2, h3⟩
  · exact Or.inl h2
  · refine Or.inr ⟨?_, h3⟩
    intro hr; simp [hr] at h2

/-! non-vacuity -/
private def h (n : Nat) : Hdr := { height := n, time := n }
example : VerifyRange 100 10 (fun _ _ => .ok) (h 1) [h 5, h 6, h 7] = ([h 5, h 6, h 7], none) := by decide
example : (VerifyRange 100 10 (fun _ _ => .ok) (h 1) [h 5, h 6, h 8]).1 = [h 5, h 6] := by decide
example : (VerifyRange 100 10 (fun _ _ => .ok) (h 1) [h 5, h 6, h 8]).2
    = some { origin := .sentinel .ErrNonAdjacentRange, soft := false } := by decide

end GoHeader.C02
