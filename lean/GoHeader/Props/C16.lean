/-
  C16 — Tail selection and pruning keep the tail within the chain and never crash.

  Proved for ALL parameter values and ALL (old tail, head) pairs in 64-bit arithmetic: the tail
  arithmetic regenerated from syncer_tail.go equals the model (ties), never reaches Go's
  divide-by-zero panic, and never wraps: its results lie between the old tail and the head; the walk
  loop only moves up and stops at the first header inside the window.
  Retention (nothing younger than the window is pruned) is proved for the walk and REFUTED for the
  head-based estimate when blocks are denser than blockTime (finding F7, `c16_retention_counterexample`).
  Not modelled: renewTail / moveTail against the real store and getter (checked by the harness only,
  incl. finding F15).
-/
import GoHeader.Sync.Tail
import GoHeader.Gen.Tail
namespace GoHeader.C16
open GoHeader GoHeader.Tail

/-- Tier A ties: what syncer_tail.go says now IS the model -/
theorem c16_tie_estimate : Gen.estimateTailHeight = estimateTailHeight := rfl
theorem c16_tie_tailEstimate : Gen.tailEstimate = tailEstimate := rfl

/-- no parameter combination makes the tail arithmetic panic (integer divide by zero) -/
theorem c16_no_panic_estimate (tp bt : Int64) (h : UInt64) : estimateTailHeight tp bt h ≠ .panic := by
  unfold estimateTailHeight
  by_cases hb : bt ≤ 0
  · simp [hb]
  · have : ¬ (bt == 0) = true := by
      intro h0; have : bt = 0 := by simpa using h0
      subst this; exact hb (by decide)
    simp only [hb, decide_false, Bool.false_eq_true, if_false, this]
    split <;> simp

theorem c16_no_panic_tailEstimate (w bt : Int64) (th : UInt64) (tt : Int64) (hh : UInt64) (ht : Int64) :
    tailEstimate w bt th tt hh ht ≠ .panic := by
  unfold tailEstimate
  by_cases hb : bt ≤ 0
  · simp [hb]
  · have : ¬ (bt == 0) = true := by
      intro h0; have : bt = 0 := by simpa using h0
      subst this; exact hb (by decide)
    simp only [hb, decide_false, Bool.false_eq_true, if_false, this]
    split
    · simp
    · split
      · simp
      · split <;> simp

/-- the first-start estimate never wraps: it lies between 1 and the head height -/
theorem c16_estimate_bounds (tp bt : Int64) (h t : UInt64) (hv : estimateTailHeight tp bt h = .val t) :
    1 ≤ t.toNat ∧ t.toNat ≤ max 1 h.toNat := by
  unfold estimateTailHeight at hv
  by_cases hb : bt ≤ 0
  · simp [hb] at hv; subst hv; exact ⟨by decide, Nat.le_max_left _ _⟩
  · have h0 : ¬ (bt == 0) = true := by
      intro h0; have : bt = 0 := by simpa using h0
      subst this; exact hb (by decide)
    simp only [hb, decide_false, Bool.false_eq_true, if_false, h0] at hv
    split at hv
    · simp at hv; subst hv; exact ⟨by decide, Nat.le_max_left _ _⟩
    · rename_i hge
      simp at hv; subst hv
      have hlt : (tp / bt).toUInt64 < h := by simpa [UInt64.not_le] using hge
      have h1 := UInt64.lt_iff_toNat_lt.mp hlt
      have h2 := UInt64.toNat_sub_of_le h (tp / bt).toUInt64 (UInt64.le_of_lt hlt)
      rw [h2]; omega

theorem clamp_bounds (x lo hi : UInt64) (hle : lo ≤ hi) :
    lo ≤ (if hi < (if x < lo then lo else x) then hi else (if x < lo then lo else x)) ∧
    (if hi < (if x < lo then lo else x) then hi else (if x < lo then lo else x)) ≤ hi := by
  by_cases h1 : x < lo
  · simp only [h1, if_true]
    by_cases h2 : hi < lo
    · exact absurd hle (UInt64.not_le.mpr h2)
    · simp only [h2, if_false]; exact ⟨UInt64.le_refl _, hle⟩
  · simp only [h1, if_false]
    by_cases h2 : hi < x
    · simp only [h2, if_true]; exact ⟨hle, UInt64.le_refl _⟩
    · simp only [h2, if_false]
      exact ⟨UInt64.not_lt.mp h1, UInt64.not_lt.mp h2⟩

/-- the estimate handed to the walk loop never wraps and never leaves the chain: for an old tail
    at or below the head it lies in [old tail, head]; the early return keeps the old tail -/
theorem c16_tailEstimate_bounds (w bt : Int64) (th : UInt64) (tt : Int64) (hh : UInt64) (ht : Int64)
    (hle : th ≤ hh) :
    (∀ h, tailEstimate w bt th tt hh ht = .val (.done h) → h = th) ∧
    (∀ n e, tailEstimate w bt th tt hh ht = .val (.walk n e) → th ≤ n ∧ n ≤ hh) := by
  unfold tailEstimate
  simp only
  by_cases hb : bt ≤ 0
  · simp [hb]
  · have h0 : ¬ (bt == 0) = true := by
      intro h0; have : bt = 0 := by simpa using h0
      subst this; exact hb (by decide)
    simp only [hb, decide_false, Bool.false_eq_true, if_false, h0]
    split
    · simp
    · split
      · refine ⟨by simp, ?_⟩
        intro n e hv; simp at hv; obtain ⟨hv, _⟩ := hv; subst hv
        exact clamp_bounds _ th hh hle
      · split
        · refine ⟨by simp, ?_⟩
          intro n e hv; simp at hv; obtain ⟨hv, _⟩ := hv; subst hv
          exact clamp_bounds _ th hh hle
        · refine ⟨by simp, ?_⟩
          intro n e hv; simp at hv; obtain ⟨hv, _⟩ := hv; subst hv
          exact clamp_bounds _ th hh hle

/-- the walk loop only moves up, never past the store height … -/
theorem c16_walk_bounds (timeAt : Nat → Option Int64) (oldTailH storeH : Nat) (e : Int64) (fuel h r : Nat)
    (hr : walk timeAt oldTailH storeH e fuel h = some r) : h ≤ r ∧ r ≤ max h storeH := by
  induction fuel generalizing h with
  | zero => simp [walk] at hr; subst hr; exact ⟨Nat.le_refl _, Nat.le_max_left _ _⟩
  | succ f ih =>
    unfold walk at hr
    split at hr
    · rename_i hc
      split at hr
      · cases hr
      · split at hr
        · simp at hr; subst hr; exact ⟨Nat.le_refl _, Nat.le_max_left _ _⟩
        · have := ih (h + 1) hr
          have h1 : max (h + 1) storeH ≤ max h storeH := by
            have : max (h + 1) storeH = storeH := Nat.max_eq_right (by omega)
            rw [this]; exact Nat.le_max_right _ _
          exact ⟨by omega, Nat.le_trans this.2 h1⟩
    · simp at hr; subst hr; exact ⟨Nat.le_refl _, Nat.le_max_left _ _⟩

/-- … and every header it steps over is older than the pruning window: what the walk adds to the
    pruned range is never younger than the window (retention for the walked part) -/
theorem c16_walk_retention (timeAt : Nat → Option Int64) (oldTailH storeH : Nat) (e : Int64) (fuel h r : Nat)
    (hr : walk timeAt oldTailH storeH e fuel h = some r) :
    ∀ k, h ≤ k → k < r → ∃ t, timeAt k = some t ∧ t < e := by
  induction fuel generalizing h with
  | zero => simp [walk] at hr; subst hr; intro k a b; omega
  | succ f ih =>
    unfold walk at hr
    split at hr
    · split at hr
      · cases hr
      · rename_i t ht
        split at hr
        · simp at hr; subst hr; intro k a b; omega
        · rename_i hlt
          intro k a b
          by_cases hk : k = h
          · subst hk; exact ⟨t, ht, Int64.not_le.mp hlt⟩
          · exact ih (h + 1) hr k (by omega) b
    · simp at hr; subst hr; intro k a b; omega

/-- Retention is FALSE for the head-based estimate when blocks are denser than blockTime (which the
    property allows: spacing AT MOST the block time): spacing 1 s, blockTime 2 s, window 100 s, old
    tail 400 s old at height 1, head at height 401 — the estimate is 351, i.e. the 50 headers
    301..350 (ages 51..100 s, inside the window) are pruned (finding F7). -/
theorem c16_retention_counterexample :
    tailEstimate 100000000000 2000000000 1 0 401 400000000000
      = .val (.walk 351 300000000000) := by decide

example : estimateTailHeight 1209600000000000 0 100 = .val 1 := by decide
example : estimateTailHeight 3600000000000 6000000000 1000 = .val 400 := by decide
example : tailEstimate 3600000000000 1000000000 5 0 11 10800000000000 = .val (.walk 5 7200000000000) := by decide

end GoHeader.C16
