/-
  C16 — Tail selection and pruning keep the tail within the chain and never crash.

  Proved for ALL parameter values and ALL (old tail, head) pairs in 64-bit arithmetic: the tail
  arithmetic regenerated from syncer_tail.go equals the model (ties), never reaches Go's
  divide-by-zero panic, and never wraps: its results lie between the old tail and the head; the walk
  loop only moves up and stops at the first header inside the window.
  Retention (nothing younger than the window is pruned) is proved for the walk and REFUTED for the
  head-based estimate when blocks are denser than blockTime (finding F7, `c16_retention_counterexample`).
  Not modelled: renewTail / moveTail against the real store and getter (checked by the harness only,
  incl. finding F15).
-/
import GoHeader.Sync.Tail
import GoHeader.Gen.Tail
namespace GoHeader.C16
open GoHeader GoHeader.Tail

/-- Tier A ties: what syncer_tail.go says now IS the model -/
theorem c16_tie_estimate : Gen.estimateTailHeight = estimateTailHeight := rfl
theorem c16_tie_tailEstimate : Gen.tailEstimate = tailEstimate := rfl

/-- no parameter combination makes the tail arithmetic panic (integer divide by zero) -/
theorem c16_no_panic_estimate (tp bt : Int64) (h : UInt64) : estimateTailHeight tp bt h ≠ .panic := by
  unfold estimateTailHeight
  by_cases hb : bt ≤ 0
  · simp [hb]
  · have : ¬ (bt == 0) = true := by
      intro h0; have : bt = 0 := by simpa using h0
      subst this; exact hb (by decide)
    simp only [hb, decide_false, Bool.false_eq_true, if_false, this]
    split <;> simp

theorem c16_no_panic_tailEstimate (w bt : Int64) (th : UInt64) (tt : Int64) (hh : UInt64) (ht : Int64) :
    tailEstimate w bt th tt hh ht ≠ .panic := by
  unfold tailEstimate
  by_cases hb : bt ≤ 0
  · simp [hb]
  · have : ¬ (bt == 0) = true := by
      intro h0; have : bt = 0 := by simpa using h0
      subst this; exact hb (by decide)
    simp only [hb, decide_false, Bool.false_eq_true, if_false, this]
    split
    · simp
    · split
      · simp
      · split <;> simp

/-- the first-start estimate never wraps: it lies between 1 and the head height -/
theorem c16_estimate_bounds (tp bt : Int64) (h t : UInt64) (hv : estimateTailHeight tp bt h = .val t) :
    1 ≤ t.toNat ∧ t.toNat ≤ max 1 h.toNat := by
  unfold estimateTailHeight at hv
  by_cases hb : bt ≤ 0
  · simp [hb] at hv; subst hv; exact ⟨by decide, Nat.le_max_left _ _⟩
  · have h0 : ¬ (bt == 0) = true := by
      intro h0; have : bt = 0 := by simpa using h0
      subst this; exact hb (by decide)
    simp only [hb, decide_false, Bool.false_eq_true, if_false, h0] at hv
    split at hv
    · simp at hv; subst hv; exact ⟨by decide, Nat.le_max_left _ _⟩
    · rename_i hge
      simp at hv; subst hv
      have hlt : (tp / bt).toUInt64 < h := by simpa [UInt64.not_le] using hge
      have h1 := UInt64.lt_iff_toNat_lt.mp hlt
      have h2 := UInt64.toNat_sub_of_le h (tp / bt).toUInt64 (UInt64.le_of_lt hlt)
      rw [h2]; omega

theorem clamp_bounds (x lo hi : UInt64) (hle : lo ≤ hi) :
    lo ≤ (if hi < (if x < lo then lo else x) then hi else (if x < lo then lo else x)) ∧
    (if hi < (if x < lo then lo else x) then hi else (if x < lo then lo else x)) ≤ hi := by
  by_cases h1 : x < lo
  · simp only [h1, if_true]
    by_cases h2 : hi < lo
    · exact absurd hle (UInt64.not_le.mpr h2)
    · simp only [h2, if_false]; exact ⟨UInt64.le_refl _, hle⟩
  · simp only [h1, if_false]
    by_cases h2 : hi < x
    · simp only [h2, if_true]; exact ⟨hle, UInt64.le_refl _⟩
    · simp only [h2, if_false]
      exact ⟨UInt64.not_lt.mp h1, UInt64.not_lt.mp h2⟩

/-- the estimate handed to the walk loop never wraps and never leaves the chain: for an old tail
    at or below the head it lies in [old tail, head]; the early return keeps the old tail -/
theorem c16_tailEstimate_bounds (w bt : Int64) (th : UInt64) (tt : Int64) (hh : UInt64) (ht : Int64)
    (hle : th ≤ hh) :
    (∀ h, tailEstimate w bt th tt hh ht = .val (.done h) → h = th) ∧
    (∀ n e, tailEstimate w bt th tt hh ht = .val (.walk n e) → th ≤ n ∧ n ≤ hh) := by
  unfold tailEstimate
  simp only
  by_cases hb : bt ≤ 0
  · simp [hb]
  · have h0 : ¬ (bt == 0) = true := by
      intro h0; have : bt = 0 := by simpa using h0
      subst this; exact hb (by decide)
    simp only [hb, decide_false, Bool.false_eq_true, if_false, h0]
    split
    · simp
    · split
      · refine ⟨by simp, ?_⟩
        intro n e hv; simp at hv; obtain ⟨hv, _⟩ := hv; subst hv
        exact clamp_bounds _ th hh hle
      · split
        · refine ⟨by simp, ?_⟩
          intro n e hv; simp at hv; obtain ⟨hv, _⟩ := hv; subst hv
          exact clamp_bounds _ th hh hle
        · refine ⟨by simp, ?_⟩
          intro n e hv; simp at hv; obtain ⟨hv, _⟩ := hv; subst hv
          exact clamp_bounds _ th hh hle

/-- the walk loop only moves up, never past the store height … -/
theorem c16_walk_bounds (timeAt : Nat → Option Int64) (oldTailH storeH : Nat) (e : Int64) (fuel h r : Nat)
    (hr : walk timeAt oldTailH storeH e fuel h = some r) : h ≤ r ∧ r ≤ max h storeH := by
  induction fuel generalizing h with
  | zero => simp [walk] at hr; subst hr; exact ⟨Nat.le_refl _, Nat.le_max_left _ _⟩
  | succ f ih =>
    unfold walk at hr
    split at hr
    · rename_i hc
      split at hr
      · cases hr
      · split at hr
        · simp at hr; subst hr; exact ⟨Nat.le_refl _, Nat.le_max_left _ _⟩
        · have := ih (h + 1) hr
          have h1 : max (h + 1) storeH ≤ max h storeH := by
            have : max (h + 1) storeH = storeH := Nat.max_eq_right (by omega)
            rw [this]; exact Nat.le_max_right _ _
          exact ⟨by omega, Nat.le_trans this.2 h1⟩
    · simp at hr; subst hr; exact ⟨Nat.le_refl _, Nat.le_max_left _ _⟩

/-- … and every header it steps over is older than the pruning window: what the walk adds to the
    pruned range is never younger than the window (retention for the walked part) -/
theorem c16_walk_retention (timeAt : Nat → Option Int64) (oldTailH storeH : Nat) (e : Int64) (fuel h r : Nat)
    (hr : walk timeAt oldTailH storeH e fuel h = some r) :
    ∀ k, h ≤ k → k < r → ∃ t, timeAt k = some t ∧ t < e := by
  induction fuel generalizing h with
  | zero => simp [walk] at hr; subst hr; intro k a b; omega
  | succ f ih =>
    unfold walk at hr
    split at hr
    · split at hr
      · cases hr
      · rename_i t ht
        split at hr
        · simp at hr; subst hr; intro k a b; omega
        · rename_i hlt
          intro k a b
          by_cases hk : k = h
          · subst hk; exact ⟨t, ht, Int64.not_le.mp hlt⟩
          · exact ih (h + 1) hr k (by omega) b
    · simp at hr; subst hr; intro k a b; omega

/-- the downward walk never moves up, and where it stops one of three things holds: it reached the old tail,
    the estimate lies above the local store (nothing to look at), or the header just below is OLDER than the
    window -/
theorem c16_walkDown_spec (timeAt : Nat → Option Int64) (oldTailH storeH : Nat) (e : Int64) (fuel h r : Nat)
    (hf : h < fuel) (hr : walkDown timeAt oldTailH storeH e fuel h = some r) :
    r ≤ h ∧ (r ≤ oldTailH ∨ storeH + 1 < r ∨ ∃ t, timeAt (r - 1) = some t ∧ t < e) := by
  induction fuel generalizing h with
  | zero => omega
  | succ f ih =>
    unfold walkDown at hr
    split at hr
    · rename_i hc
      split at hr
      · cases hr
      · rename_i t ht
        split at hr
        · rename_i hlt
          simp at hr; subst hr
          exact ⟨Nat.le_refl _, Or.inr (Or.inr ⟨t, ht, hlt⟩)⟩
        · have := ih (h - 1) (by omega) hr
          exact ⟨by omega, this.2⟩
    · rename_i hc
      simp at hr; subst hr
      refine ⟨Nat.le_refl _, ?_⟩
      by_cases a : h ≤ oldTailH
      · exact Or.inl a
      · exact Or.inr (Or.inl (by omega))

/-- the walk never leaves `[min n oldTail .. max n storeH]` -/
theorem c16_walkBoth_bounds (timeAt : Nat → Option Int64) (oldTailH storeH : Nat) (e : Int64) (n r : Nat)
    (hr : walkBoth timeAt oldTailH storeH e n = some r) : r ≤ max n storeH := by
  unfold walkBoth at hr
  split at hr
  · cases hr
  · rename_i d hd
    have h1 := (c16_walkDown_spec timeAt oldTailH storeH e (n + 1) n d (by omega) hd).1
    have h2 := (c16_walk_bounds timeAt oldTailH storeH e (storeH + 1) d r hr).2
    have : max d storeH ≤ max n storeH := by
      apply Nat.max_le.mpr
      exact ⟨Nat.le_trans h1 (Nat.le_max_left _ _), Nat.le_max_right _ _⟩
    exact Nat.le_trans h2 this

/-- **C16 retention** (full strength for the window path, after the F7 repair): when header times do not
    decrease with height and the estimate lies within the local store, NO header the move prunes
    (`oldTail ≤ k < newTail`) is younger than the pruning window — whatever the spacing of the headers and whatever
    the configured block time. -/
theorem c16_retention (timeAt : Nat → Option Int64) (oldTailH storeH : Nat) (e : Int64) (n r : Nat)
    (mono : ∀ a b ta tb, a ≤ b → timeAt a = some ta → timeAt b = some tb → ta ≤ tb)
    (hn : n ≤ storeH + 1)
    (hr : walkBoth timeAt oldTailH storeH e n = some r) :
    ∀ k t, oldTailH ≤ k → k < r → timeAt k = some t → t < e := by
  unfold walkBoth at hr
  split at hr
  · cases hr
  · rename_i d hd
    obtain ⟨hle, hstop⟩ := c16_walkDown_spec timeAt oldTailH storeH e (n + 1) n d (by omega) hd
    have hup := c16_walk_retention timeAt oldTailH storeH e (storeH + 1) d r hr
    intro k t hk1 hk2 hkt
    by_cases hkd : d ≤ k
    · obtain ⟨t', ht', hlt⟩ := hup k hkd hk2
      rw [hkt] at ht'; cases ht'; exact hlt
    · rcases hstop with h1 | h1 | ⟨t', ht', hlt⟩
      · omega
      · omega
      · have := mono k (d - 1) t t' (by omega) hkt ht'
        exact Int64.lt_of_le_of_lt this hlt

/-- The head-based ESTIMATE alone overshoots when blocks are denser than blockTime (spacing 1 s, blockTime 2 s,
    window 100 s, old tail 400 s old at height 1, head at height 401: the estimate is 351 although the headers
    301..350 are inside the window).  This was finding F7; the downward walk (`c16_retention`) now corrects it. -/
theorem c16_estimate_overshoots_example :
    tailEstimate 100000000000 2000000000 1 0 401 400000000000
      = .val (.walk 351 300000000000) := by decide

/-- … and on that very chain (header k at time (k-1) s) the two walks bring the tail back to 301: the first
    header inside the window -/
example : walkBoth (fun k => some (Int64.ofNat ((k - 1) * 1000000000))) 1 401 300000000000 351 = some 301 := by
  decide

example : estimateTailHeight 1209600000000000 0 100 = .val 1 := by decide
example : estimateTailHeight 3600000000000 6000000000 1000 = .val 400 := by decide
example : tailEstimate 3600000000000 1000000000 5 0 11 10800000000000 = .val (.walk 5 7200000000000) := by decide

end GoHeader.C16
