/-
  C11 — Subscriber delivers/relays a gossip message only if it decodes and verifies.
  The quantifier is a finite table (payload effect × verifier outcome); the theorems are proved by
  case analysis over the WHOLE table in the kernel.
-/
import GoHeader.P2P.Subscriber
import GoHeader.P2P.Lifecycle
namespace GoHeader.C11
open GoHeader.P2P

/-- the gate is in place whenever messages can flow: after ANY sequence of Start / Stop / Subscribe / Cancel calls a
    joined topic has `verifyMessage` registered as its validator (`P2P.Lifecycle`; with the Stop of the F38 repair) -/
theorem c11_gate_while_joined (ops : List Lifecycle.Op) :
    Lifecycle.Inv (Lifecycle.run true {} ops) :=
  Lifecycle.run_inv ops {} (by intro h; cases h)

/-- before the repair: Start, Subscribe, Stop (which fails) left the topic joined without its validator -/
theorem c11_gate_lost_before_repair : ¬ Lifecycle.Inv (Lifecycle.run false {} [.start, .subscribe, .stop]) :=
  Lifecycle.old_counterexample

/-- a message is accepted (reaches Subscriptions and is relayed) exactly when it decodes, passes
    Validate and the registered verifier returns nil -/
theorem c11_accept_iff (e : Extract) (o : VOutcome) :
    verifyMessage e o = .accept ↔ (e = .ok ∧ o = .nil_) := by
  cases e <;> cases o <;> simp [verifyMessage, VOutcome.isSoft]

/-- it is ignored (no penalty) exactly for a decodable, valid header whose verifier reports a
    SoftFailure *VerifyError (bare or wrapped), or when no verifier was set in time -/
theorem c11_ignore_iff (e : Extract) (o : VOutcome) :
    verifyMessage e o = .ignore ↔ (e = .ok ∧ (o = .soft ∨ o = .wrapSoft ∨ o = .unset)) := by
  cases e <;> cases o <;> simp [verifyMessage, VOutcome.isSoft]

/-- everything else — undecodable bytes, failing Validate, any other error, a panic in decoding,
    validation or verification — is rejected -/
theorem c11_reject_iff (e : Extract) (o : VOutcome) :
    verifyMessage e o = .reject ↔
      (e ≠ .ok ∨ o = .hard ∨ o = .wrapHard ∨ o = .plain ∨ o = .panic) := by
  cases e <;> cases o <;> simp [verifyMessage, VOutcome.isSoft]

/-- the validator is total: every combination has a verdict (none of them can crash the node) -/
theorem c11_total (e : Extract) (o : VOutcome) :
    verifyMessage e o = .accept ∨ verifyMessage e o = .ignore ∨ verifyMessage e o = .reject := by
  cases e <;> cases o <;> simp [verifyMessage, VOutcome.isSoft]

example : verifyMessage .ok .nil_ = .accept := by decide
example : verifyMessage .ok .wrapSoft = .ignore := by decide
example : verifyMessage .panics .nil_ = .reject := by decide

end GoHeader.C11
