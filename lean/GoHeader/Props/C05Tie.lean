/-
  C05 — the regenerated guard of GetRangeByHeight (kept apart from Props/C05.lean: the regenerated module brings Go's
  `Outcome` into scope, which that file's `Sess.Outcome` would clash with).
-/
import GoHeader.Gen.P2P
namespace GoHeader.C05
open GoHeader

/-- Tie T (regenerated `Gen.rangeDegenerate` = the condition of the first `if` of `Exchange.GetRangeByHeight`, in Go's
    wrapping uint64 arithmetic): the guard refuses a request exactly when `to ≤ from.Height()+1` holds over the NATURAL
    numbers - for every pair of 64-bit values, including `from.Height() = 2^64-1`, where `from.Height()+1` wraps to 0
    ("degenerate requests yield an error rather than a panic or a hang"). -/
theorem c05_tie_degenerate (f t : UInt64) : Gen.rangeDegenerate f t = decide (t.toNat ≤ f.toNat + 1) := by
  unfold Gen.rangeDegenerate
  by_cases h : t ≤ f
  · have h' := UInt64.le_iff_toNat_le.mp h
    simp [h]
    omega
  · have hlt : f < t := UInt64.not_le.mp h
    have hle : f ≤ t := UInt64.le_of_lt hlt
    have hs := UInt64.toNat_sub_of_le t f hle
    have h1 : ((t - f) ≤ 1) ↔ (t.toNat - f.toNat ≤ 1) := by
      rw [UInt64.le_iff_toNat_le, hs]; rfl
    have hlt' := UInt64.lt_iff_toNat_lt.mp hlt
    simp only [h, decide_false, Bool.false_or]
    by_cases h2 : (t - f) ≤ 1
    · have := h1.mp h2
      simp [h2]; omega
    · have : ¬ (t.toNat - f.toNat ≤ 1) := fun x => h2 (h1.mpr x)
      simp [h2]; omega

/-- the comparison it replaced (`to ≤ from.Height()+1` in wrapping arithmetic) lets every `to` pass at the top of uint64 (F37) -/
example : decide ((5 : UInt64) ≤ (18446744073709551615 : UInt64) + 1) = false := by decide

end GoHeader.C05
