/-
  C15 — Bifurcation accepts a soft-failing head iff a verifiable path exists; terminates.
-/
import GoHeader.Sync.Bifurcate
namespace GoHeader.C15
open GoHeader GoHeader.Bif

/-- a chain of successful verifications from `a` through `l` to `b` -/
def ChainOk (tv : Nat → Nat → Bool) : Nat → List Nat → Nat → Prop
  | a, [], b => verify tv a b = .ok
  | a, x :: xs, b => verify tv a x = .ok ∧ ChainOk tv x xs b

theorem chain_snoc (tv) (a : Nat) (l : List Nat) (m b : Nat)
    (h1 : ChainOk tv a l m) (h2 : verify tv m b = .ok) : ChainOk tv a (l ++ [m]) b := by
  induction l generalizing a with
  | nil => exact ⟨h1, h2⟩
  | cons x xs ih => exact ⟨h1.1, ih x h1.2⟩

theorem loop_sound (tv get new subj diff hd acc) (s0 : Nat)
    (hacc : ∀ b, verify tv subj b = .ok → ChainOk tv s0 acc.promoted b)
    (h : (loop tv get new subj diff hd acc).verdict = .accept) :
    ChainOk tv s0 (loop tv get new subj diff hd acc).promoted new := by
  fun_induction loop tv get new subj diff hd acc with
  | case1 => simp at h
  | case2 => simp at h
  | case3 _ _ _ _ _ _ _ _ _ ih => exact ih (by simpa using hacc) h
  | case4 subj diff hd acc cand acc1 hget hv acc2 hok =>
      simp only
      have := hacc cand hv
      simpa [acc2, acc1] using chain_snoc tv s0 acc.promoted cand new (by simpa using this) hok
  | case5 => simp at h
  | case6 subj diff hd acc cand acc1 hget hv acc2 hnok hle hlt ih =>
      apply ih _ h
      intro b hb
      have := hacc cand hv
      simpa [acc2, acc1] using chain_snoc tv s0 acc.promoted cand b (by simpa using this) hb

/-- Soundness: the candidate is accepted only if the promoted intermediates form a chain of successful
    verifications from the subjective head to the candidate. -/
theorem c15_sound (tv get subj new) (h : (run tv get subj new).verdict = .accept) :
    ChainOk tv subj (run tv get subj new).promoted new := by
  unfold run at h ⊢
  exact loop_sound tv get new subj _ _ _ subj (fun b hb => hb) h

theorem loop_promoted_fetched (tv get new subj diff hd acc)
    (hacc : ∀ x ∈ acc.promoted, x ∈ acc.requests ∧ get x = true) :
    ∀ x ∈ (loop tv get new subj diff hd acc).promoted,
      x ∈ (loop tv get new subj diff hd acc).requests ∧ get x = true := by
  fun_induction loop tv get new subj diff hd acc with
  | case1 subj diff hd acc cand acc1 hget =>
      intro x hx; obtain ⟨a, b⟩ := hacc x (by simpa [acc1] using hx); exact ⟨by simp [acc1, a], b⟩
  | case2 subj diff hd acc cand acc1 hget hv =>
      intro x hx; obtain ⟨a, b⟩ := hacc x (by simpa [acc1] using hx); exact ⟨by simp [acc1, a], b⟩
  | case3 subj diff hd acc cand acc1 hget hv hlt ih =>
      apply ih; intro x hx; obtain ⟨a, b⟩ := hacc x (by simpa [acc1] using hx); exact ⟨by simp [acc1, a], b⟩
  | case4 subj diff hd acc cand acc1 hget hv acc2 hok =>
      intro x hx
      simp [acc2, acc1] at hx ⊢
      rcases hx with hx | hx
      · obtain ⟨a, b⟩ := hacc x hx; exact ⟨Or.inl a, b⟩
      · subst hx; exact ⟨Or.inr rfl, by simpa using hget⟩
  | case5 subj diff hd acc cand acc1 hget hv acc2 hnok hle =>
      intro x hx
      simp [acc2, acc1] at hx ⊢
      rcases hx with hx | hx
      · obtain ⟨a, b⟩ := hacc x hx; exact ⟨Or.inl a, b⟩
      · subst hx; exact ⟨Or.inr rfl, by simpa using hget⟩
  | case6 subj diff hd acc cand acc1 hget hv acc2 hnok hle hlt ih =>
      apply ih
      intro x hx
      simp [acc2, acc1] at hx ⊢
      rcases hx with hx | hx
      · obtain ⟨a, b⟩ := hacc x hx; exact ⟨Or.inl a, b⟩
      · subst hx; exact ⟨Or.inr rfl, by simpa using hget⟩

/-- only verified intermediates obtained from the getter are ever promoted to subjective head -/
theorem c15_promoted_fetched (tv get subj new) :
    ∀ x ∈ (run tv get subj new).promoted, x ∈ (run tv get subj new).requests ∧ get x = true := by
  unfold run
  exact loop_promoted_fetched tv get new subj _ _ _ (by simp)

theorem loop_refuse_getter (tv get new subj diff hd acc) :
    (loop tv get new subj diff hd acc).verdict = .getterErr →
      ∃ h ∈ (loop tv get new subj diff hd acc).requests, get h = false := by
  fun_induction loop tv get new subj diff hd acc with
  | case1 subj diff hd acc cand acc1 hg => intro _; exact ⟨cand, by simp [acc1], hg⟩
  | case2 => intro h; simp at h
  | case3 _ _ _ _ _ _ _ _ _ ih => exact ih
  | case4 => intro h; simp at h
  | case5 => intro h; simp at h
  | case6 _ _ _ _ _ _ _ _ _ _ _ _ ih => exact ih

/-- a candidate whose intermediates cannot be fetched is refused (and only then is the verdict a getter error) -/
theorem c15_getter_failure_refuses (tv get subj new)
    (h : (run tv get subj new).verdict = .getterErr) :
    ∃ x ∈ (run tv get subj new).requests, get x = false := by
  unfold run at h ⊢
  exact loop_refuse_getter tv get new subj _ _ _ h

/-- the search is entered only for soft failures; a direct success or a hard failure decides at once
    without any getter request -/
theorem c15_only_soft_bifurcates (tv get subj new) :
    verify tv subj new ≠ .soft → (syncerVerify tv get subj new).2.requests = [] := by
  intro h; unfold syncerVerify
  cases hv : verify tv subj new <;> simp_all

/-- accepted by the Syncer ⇔ direct verification succeeds or the bifurcation accepts -/
theorem c15_accept_iff (tv get subj new) :
    (syncerVerify tv get subj new).1 = .accepted ↔
      (verify tv subj new = .ok ∨ (verify tv subj new = .soft ∧ (run tv get subj new).verdict = .accept)) := by
  unfold syncerVerify
  cases hv : verify tv subj new <;> simp

/-- request bound: the number of getter requests is at most quadratic in the distance
    (potential: (distance to the candidate) · (d + 2) + diff, see DESIGN.md) -/
theorem loop_bound (tv get new subj diff hd acc) (d : Nat) (hdd : new - subj ≤ d) :
    (loop tv get new subj diff hd acc).requests.length ≤ acc.requests.length + (new - subj) * (d + 2) + diff + 1 := by
  fun_induction loop tv get new subj diff hd acc with
  | case1 subj diff hd acc cand acc1 hg => simp [acc1]; omega
  | case2 subj diff hd acc cand acc1 hg hv => simp [acc1]; omega
  | case3 subj diff hd acc cand acc1 hg hv hlt ih =>
      have := ih hdd
      simp [acc1] at this ⊢
      omega
  | case4 subj diff hd acc cand acc1 hget hv acc2 hok => simp [acc2, acc1]; omega
  | case5 subj diff hd acc cand acc1 hget hv acc2 hnok hle => simp [acc2, acc1]; omega
  | case6 subj diff hd acc cand acc1 hget hv acc2 hnok hle hlt ih =>
      have := ih (by omega)
      simp [acc2, acc1] at this ⊢
      have hmul : (new - cand) * (d + 2) + (d + 2) ≤ (new - subj) * (d + 2) := by
        have : new - cand + 1 ≤ new - subj := by omega
        calc (new - cand) * (d + 2) + (d + 2) = (new - cand + 1) * (d + 2) := by rw [Nat.add_mul]; simp
          _ ≤ (new - subj) * (d + 2) := Nat.mul_le_mul_right _ this
      omega

/-- Termination with a bounded number of getter requests, for ALL predicates and getters. -/
theorem c15_request_bound (tv get subj new) :
    (run tv get subj new).requests.length ≤ (new - subj) * (new - subj + 3) + 1 := by
  unfold run
  have := loop_bound tv get new subj (new - subj) (Nat.le_refl _) { verdict := .getterErr, promoted := [], requests := [] } (new - subj) (Nat.le_refl _)
  simp at this
  have e : (new - subj) * (new - subj + 3) = (new - subj) * (new - subj + 2) + (new - subj) := by
    rw [Nat.mul_add, Nat.mul_add]; omega
  omega

theorem loop_complete (R : Nat) (hR : 1 ≤ R) (tv get new subj diff hd acc)
    (htv : ∀ a b, tv a b = decide (b - a ≤ R)) (hget : ∀ h, get h = true)
    (h2 : 2 ≤ diff) :
    (loop tv get new subj diff hd acc).verdict = .accept := by
  fun_induction loop tv get new subj diff hd acc with
  | case1 _ _ _ _ cand _ hg => simp [hget] at hg
  | case2 subj diff hd acc cand acc1 hg hv =>
      exfalso
      unfold verify at hv
      have hc : cand = subj + diff / 2 := rfl
      have : 1 ≤ diff / 2 := by omega
      split at hv
      · omega
      · split at hv
        · cases hv
        · rename_i h1 h2
          split at hv
          · rename_i h3; simp [htv] at h2; omega
          · cases hv
  | case3 subj diff hd acc cand acc1 hg hv hlt ih =>
      apply ih
      unfold verify at hv
      have hc : cand = subj + diff / 2 := rfl
      split at hv
      · cases hv
      · split at hv
        · cases hv
        · rename_i h1 h2
          simp [htv] at h2
          omega
  | case4 => rfl
  | case5 subj diff hd acc cand acc1 hg hv acc2 hnok hle =>
      exfalso
      have hc : cand = subj + diff / 2 := rfl
      apply hnok
      unfold verify
      have : cand < new := by omega
      simp [htv]
      rw [if_neg (by omega), if_pos (by omega)]
  | case6 subj diff hd acc cand acc1 hg hv acc2 hnok hle hlt ih =>
      apply ih; omega

/-- Completeness for trust-range predicates: if verification succeeds exactly up to distance R ≥ 1
    (so a valid chain has a verifiable path) and the getter serves every height, every candidate at
    distance ≥ 2 is accepted. -/
theorem c15_complete_trust_range (R : Nat) (hR : 1 ≤ R) (tv get subj new)
    (htv : ∀ a b, tv a b = decide (b - a ≤ R)) (hget : ∀ h, get h = true) (hd : subj + 2 ≤ new) :
    (run tv get subj new).verdict = .accept := by
  unfold run
  exact loop_complete R hR tv get new subj _ _ _ htv hget (by omega)

/-- a forged candidate (rejected by the type-level check against every header) is never accepted -/
theorem c15_forged_refused (tv get subj new) (hforged : ∀ a, tv a new = false) :
    (syncerVerify tv get subj new).1 = .refused := by
  have hno : ∀ a, verify tv a new ≠ .ok := by
    intro a; unfold verify; simp [hforged]; split <;> (try split) <;> simp
  cases hacc : (syncerVerify tv get subj new).1 with
  | refused => rfl
  | accepted =>
    exfalso
    rcases (c15_accept_iff tv get subj new).mp hacc with h | ⟨_, h⟩
    · exact hno subj h
    · have hs := c15_sound tv get subj new h
      -- the last link of the chain verifies `new` against some header: impossible
      have last : ∀ (a : Nat) (l : List Nat), ChainOk tv a l new → False := by
        intro a l; induction l generalizing a with
        | nil => intro hc; exact hno a hc
        | cons x xs ih => intro hc; exact ih x hc.2
      exact last _ _ hs

/-! non-vacuity: distance 1000, trust range 300 (the shape of the suite's bifurcation tests, with a
    predicate that really depends on distance); a forged candidate -/
example : (run (fun a b => decide (b - a ≤ 300)) (fun _ => true) 1 1001).verdict = .accept :=
  c15_complete_trust_range 300 (by omega) _ _ 1 1001 (fun _ _ => rfl) (fun _ => rfl) (by omega)
example : (syncerVerify (fun a b => decide (b - a ≤ 300) && b != 1001) (fun _ => true) 1 1001).1 = .refused :=
  c15_forged_refused _ _ 1 1001 (fun a => by simp)

end GoHeader.C15
