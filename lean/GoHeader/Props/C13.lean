/-
  C13 — Exchange.Get/GetByHeight return only validated, correctly bound headers.
-/
import GoHeader.P2P.Client
namespace GoHeader.C13
open GoHeader GoHeader.P2P

theorem performRequest_first_valid (l : List GAns) (id h : Nat) :
    performRequest l = some (id, h) ↔
      ∃ pre post, l = pre ++ .valid id h :: post ∧ ∀ a ∈ pre, ∀ i k, a ≠ .valid i k := by
  induction l with
  | nil => simp [performRequest]
  | cons a rest ih =>
    cases a with
    | valid i k =>
      simp only [performRequest, Option.some.injEq, Prod.mk.injEq]
      constructor
      · rintro ⟨rfl, rfl⟩; exact ⟨[], rest, rfl, by simp⟩
      · rintro ⟨pre, post, e, hpre⟩
        cases pre with
        | nil => simp at e; exact ⟨e.1.1, e.1.2⟩
        | cons p ps =>
          simp at e
          exact absurd e.1.symm (hpre p (by simp) i k)
    | fail =>
      simp only [performRequest, ih]
      constructor
      · rintro ⟨pre, post, e, hpre⟩
        exact ⟨.fail :: pre, post, by simp [e], by
          intro a ha; simp at ha; rcases ha with rfl | ha
          · intro i k; simp
          · exact hpre a ha⟩
      · rintro ⟨pre, post, e, hpre⟩
        cases pre with
        | nil => simp at e
        | cons p ps => simp at e; exact ⟨ps, post, e.2, fun a ha => hpre a (by simp [ha])⟩
    | hang =>
      simp only [performRequest, ih]
      constructor
      · rintro ⟨pre, post, e, hpre⟩
        exact ⟨.hang :: pre, post, by simp [e], by
          intro a ha; simp at ha; rcases ha with rfl | ha
          · intro i k; simp
          · exact hpre a ha⟩
      · rintro ⟨pre, post, e, hpre⟩
        cases pre with
        | nil => simp at e
        | cons p ps => simp at e; exact ⟨ps, post, e.2, fun a ha => hpre a (by simp [ha])⟩

/-- Get(hash) returns a header whose hash equals the requested hash, or an error -/
theorem c13_get_bound (hash : Nat) (arrival : List GAns) (id h : Nat)
    (hr : getByHash hash arrival = .ok id h) : id = hash := by
  unfold getByHash at hr
  split at hr
  · split at hr
    · simp at hr; omega
    · cases hr
  · cases hr

/-- whatever Get / GetByHeight return was a valid answer (decoded, validated, right chain) of a trusted
    peer — the first such answer in arrival order -/
theorem c13_first_valid (height : Nat) (arrival : List GAns) (id h : Nat)
    (hr : getByHeight height arrival = .ok id h) :
    ∃ pre post, arrival = pre ++ .valid id h :: post ∧ ∀ a ∈ pre, ∀ i k, a ≠ .valid i k := by
  unfold getByHeight at hr
  split at hr
  · cases hr
  · split at hr
    · rename_i i k he
      simp at hr; obtain ⟨rfl, rfl⟩ := hr
      exact (performRequest_first_valid arrival i k).mp he
    · cases hr

theorem c13_get_first_valid (hash : Nat) (arrival : List GAns) (id h : Nat)
    (hr : getByHash hash arrival = .ok id h) :
    ∃ pre post, arrival = pre ++ .valid id h :: post ∧ ∀ a ∈ pre, ∀ i k, a ≠ .valid i k := by
  unfold getByHash at hr
  split at hr
  · rename_i i k he
    split at hr
    · simp at hr; obtain ⟨rfl, rfl⟩ := hr
      exact (performRequest_first_valid arrival i k).mp he
    · cases hr
  · cases hr

/-- they fail with an error when no trusted peer answers validly -/
theorem c13_error_when_no_valid (height hash : Nat) (arrival : List GAns)
    (hnone : ∀ a ∈ arrival, ∀ i k, a ≠ .valid i k) :
    getByHeight height arrival = .err ∧ getByHash hash arrival = .err := by
  have : performRequest arrival = none := by
    induction arrival with
    | nil => rfl
    | cons a rest ih =>
      cases a with
      | valid i k => exact absurd rfl (hnone _ (by simp) i k)
      | fail => simp only [performRequest]; exact ih (fun a ha => hnone a (by simp [ha]))
      | hang => simp only [performRequest]; exact ih (fun a ha => hnone a (by simp [ha]))
  unfold getByHeight getByHash; simp [this]

/-- GetByHeight succeeds whenever some trusted peer answers validly (for a positive height) -/
theorem c13_ok_when_some_valid (height : Nat) (h0 : 0 < height) (arrival : List GAns) (i k : Nat)
    (hv : GAns.valid i k ∈ arrival) : ∃ id h, getByHeight height arrival = .ok id h := by
  have : ∃ p, performRequest arrival = some p := by
    induction arrival with
    | nil => cases hv
    | cons a rest ih =>
      cases a with
      | valid i' k' => exact ⟨(i', k'), rfl⟩
      | fail => simp only [performRequest]; exact ih (by simpa using hv)
      | hang => simp only [performRequest]; exact ih (by simpa using hv)
  obtain ⟨⟨id, h⟩, e⟩ := this
  exact ⟨id, h, by unfold getByHeight; simp [e]; omega⟩

example : getByHash 7 [.fail, .hang, .valid 7 10, .valid 8 10] = .ok 7 10 := by decide
example : getByHash 7 [.valid 8 10, .valid 7 10] = .err := by decide
example : getByHeight 10 [.fail, .fail] = .err := by decide

end GoHeader.C13
