/-
  C10 — ExchangeServer answers any request with bounded work and only true store data.
  Theorems about `P2P.handleRange` for ALL (origin, amount) in uint64 (including 0, 2^64-1 and the
  wrap-around of origin + amount) and every store shape (empty, or tail..head with tail ≥ 1).
-/
import GoHeader.P2P.Server
import GoHeader.Gen.Consts
namespace GoHeader.C10
open GoHeader GoHeader.P2P

/-- Tier A: the bound used by the model is the constant regenerated from interface.go -/
theorem c10_tie_maxRange : maxRange = Gen.maxRangeRequestSize := by decide

theorem toNat_add_of_lt (o a : UInt64) (h : o < o + a) : (o + a).toNat = o.toNat + a.toNat := by
  have h1 := UInt64.toNat_add o a
  have h2 := UInt64.lt_iff_toNat_lt.mp h
  have ho := UInt64.toNat_lt o
  have ha := UInt64.toNat_lt a
  rw [h1] at h2 ⊢
  omega

theorem getRange_reads (st : SStore) (a b : Nat) : (getRange st a b).2 = b - a := by
  unfold getRange; cases st with
  | none => rfl
  | some p => obtain ⟨tl, hd⟩ := p; simp only; split <;> rfl

/-- the server asks its store for no more than the requested number of headers and never for more
    than MaxRangeRequestSize — for every request and every store -/
theorem c10_bounded (st : SStore) (origin amount : UInt64) :
    (handleRange st origin amount).2 ≤ amount.toNat ∧ (handleRange st origin amount).2 ≤ maxRange := by
  unfold handleRange
  simp only
  split
  · simp
  · rename_i hlt
    have hlt' : origin < origin + amount := UInt64.not_le.mp hlt
    have hsum := toNat_add_of_lt origin amount hlt'
    have hsub : (origin + amount - origin).toNat = amount.toNat := by
      rw [UInt64.toNat_sub_of_le _ _ (UInt64.le_of_lt hlt'), hsum]; omega
    split
    · cases st with
      | none => simp
      | some p => simp
    · split
      · simp
      · rename_i hmax
        rw [hsub] at hmax
        split
        · cases st with
          | none => simp
          | some p =>
            obtain ⟨tl, hd⟩ := p
            simp only
            split
            · simp
            · split
              · simp
              · rename_i h1 h2
                rw [getRange_reads, hsum] at *
                constructor <;> omega
        · rw [getRange_reads, hsum]
          constructor <;> omega

/-- shape of every reply: NOT_FOUND, a reset, or OK responses that are exactly the store's headers at
    origin, origin+1, … in order — the full amount, or a shorter prefix only when the range extends
    past the store's head; a head request (origin 0) returns the store's current head -/
theorem c10_reply_exact (st : SStore) (origin amount : UInt64) (l : List Nat)
    (h : (handleRange st origin amount).1 = .ok l) :
    ∃ tl hd, st = some (tl, hd) ∧
      ((origin = 0 ∧ l = [hd]) ∨
       (origin ≠ 0 ∧ ∃ k, l = List.range' origin.toNat k ∧ 1 ≤ k ∧ tl ≤ origin.toNat ∧ origin.toNat + k - 1 ≤ hd ∧
          (k = amount.toNat ∨ (origin.toNat + amount.toNat - 1 > hd ∧ origin.toNat + k - 1 = hd)))) := by
  unfold handleRange at h
  simp only at h
  split at h
  · cases h
  · rename_i hlt
    have hlt' : origin < origin + amount := UInt64.not_le.mp hlt
    have hsum := toNat_add_of_lt origin amount hlt'
    rw [hsum] at h
    split at h
    · rename_i h0
      cases st with
      | none => cases h
      | some p => obtain ⟨tl, hd⟩ := p; simp at h; exact ⟨tl, hd, rfl, Or.inl ⟨h0, h.symm⟩⟩
    · rename_i h0
      split at h
      · cases h
      · split at h
        · cases st with
          | none => cases h
          | some p =>
            obtain ⟨tl, hd⟩ := p
            simp only at h
            split at h
            · cases h
            · split at h
              · cases h
              · rename_i h1 h2
                unfold getRange at h; simp only at h
                split at h
                · rename_i htl
                  simp at h
                  refine ⟨tl, hd, rfl, Or.inr ⟨h0, hd + 1 - origin.toNat, h.symm, by omega, htl, by omega, Or.inr ⟨by omega, by omega⟩⟩⟩
                · cases h
        · rename_i hhas
          cases st with
          | none => simp [hasAt] at hhas
          | some p =>
            obtain ⟨tl, hd⟩ := p
            simp [hasAt] at hhas
            unfold getRange at h; simp only at h
            split at h
            · rename_i htl
              simp at h
              have ha1 : 1 ≤ amount.toNat := by
                have := UInt64.lt_iff_toNat_lt.mp hlt'; omega
              refine ⟨tl, hd, rfl, Or.inr ⟨h0, amount.toNat, h.symm, by omega, htl, by omega, Or.inl rfl⟩⟩
            · cases h

/-- an empty store never produces data -/
theorem c10_empty_store (origin amount : UInt64) : ∀ l, (handleRange none origin amount).1 ≠ .ok l := by
  intro l h
  obtain ⟨tl, hd, e, _⟩ := c10_reply_exact none origin amount l h
  cases e

/-! non-vacuity and the boundary cases named in the property -/
example : handleRange (some (50, 300)) 10 1 = (.notFound, 0) := by decide
example : handleRange (some (50, 300)) 298 64 = (.ok [298, 299, 300], 3) := by decide
example : handleRange (some (50, 300)) 0 1 = (.ok [300], 0) := by decide
example : handleRange (some (50, 300)) 100 65 = (.reset, 0) := by decide
example : handleRange (some (50, 300)) 18446744073709551615 2 = (.reset, 0) := by decide
example : (handleRange (some (50, 300)) 49 5).1 = .notFound := by decide

end GoHeader.C10
