/-
  C05 — Exchange.GetRangeByHeight yields a verified contiguous run from from+1 or fails.
  C18's splitting/exactness theorems live here too (same model); Props/C18.lean re-exports them.
-/
import GoHeader.P2P.Session
namespace GoHeader.C05
open GoHeader GoHeader.Sess

def cover (s : St) : List Nat := s.collected ++ (s.outstanding.map Req.heights).flatten

/-- the invariant: collected heights ⊎ outstanding ranges are exactly from+1 … from+amount, each once -/
def Tiling (s : St) : Prop := (cover s).Perm (List.range' s.first s.amount)

theorem range'_split (a k n : Nat) (h : k ≤ n) :
    List.range' a n = List.range' a k ++ List.range' (a + k) (n - k) := by
  have : n = k + (n - k) := by omega
  conv => lhs; rw [this]
  exact List.range'_append_1.symm ▸ rfl

/-- C18: `prepareRequests` covers [from, from+amount) exactly, in order (for every amount, chunk size ≥ 1) -/
theorem c18_split_covers (origin amount per fuel : Nat) (hp : 0 < per) (hf : amount ≤ fuel) :
    ((prepare origin amount per fuel).map Req.heights).flatten = List.range' origin amount := by
  induction fuel generalizing origin amount with
  | zero => have : amount = 0 := by omega
            subst this; simp [prepare]
  | succ n ih =>
    unfold prepare
    split
    · rename_i h0; subst h0; simp
    · split
      · simp [Req.heights]
      · rename_i h0 hlt
        simp only [List.map_cons, List.flatten_cons, Req.heights]
        rw [ih (origin + per) (amount - per) (by omega)]
        exact (range'_split origin per amount (by omega)).symm

/-- C18: every prepared chunk is non-empty and at most `per` long -/
theorem c18_split_sizes (origin amount per fuel : Nat) (hp : 0 < per) :
    ∀ r ∈ prepare origin amount per fuel, 0 < r.amount ∧ r.amount ≤ per := by
  induction fuel generalizing origin amount with
  | zero => simp [prepare]
  | succ n ih =>
    unfold prepare
    split
    · simp
    · split
      · intro r hr; simp at hr; subst hr; simp; omega
      · intro r hr; simp at hr
        rcases hr with rfl | hr
        · simp; omega
        · exact ih _ _ r hr

theorem tiling_start (fromH to per : Nat) (hp : 0 < per) (s : St) (h : start fromH to per = some s) : Tiling s := by
  unfold start at h
  split at h
  · cases h
  · simp at h; subst h
    simp [Tiling, cover, c18_split_covers (fromH + 1) (to - (fromH + 1)) per _ hp (Nat.le_refl _)]

/-- degenerate requests (to ≤ from.Height()+1) are rejected up front — an error, not a hang or a panic -/
theorem c05_degenerate (fromH to per : Nat) (h : to ≤ fromH + 1) : start fromH to per = none := by
  unfold start; simp [h]

theorem perm_eraseIdx_flatten (l : List Req) (i : Nat) (r : Req) (h : l[i]? = some r) :
    ((l.map Req.heights).flatten).Perm (r.heights ++ ((l.eraseIdx i).map Req.heights).flatten) := by
  induction l generalizing i with
  | nil => simp at h
  | cons x xs ih =>
    cases i with
    | zero => simp at h; subst h; simp
    | succ j =>
      simp at h
      have := ih j h
      simp only [List.map_cons, List.flatten_cons, List.eraseIdx_cons_succ]
      calc x.heights ++ (xs.map Req.heights).flatten
          |>.Perm (x.heights ++ (r.heights ++ ((xs.eraseIdx j).map Req.heights).flatten)) := List.Perm.append_left _ this
        _ |>.Perm (r.heights ++ (x.heights ++ ((xs.eraseIdx j).map Req.heights).flatten)) := by
            rw [← List.append_assoc, ← List.append_assoc]
            exact List.Perm.append_right _ List.perm_append_comm

/-- whatever the peers do (any request answered with any outcome, in any order), the tiling holds -/
theorem c05_tiling_step (s : St) (i : Nat) (o : Outcome) (h : Tiling s) : Tiling (step s i o) := by
  unfold step
  split
  · exact h
  · rename_i r hr
    cases o with
    | fail => exact h
    | ok k =>
      simp only
      split
      · exact h
      · rename_i hk
        have hk1 : 0 < k := by omega
        have hk2 : k ≤ r.amount := by omega
        unfold Tiling cover at h ⊢
        simp only
        have hperm := perm_eraseIdx_flatten s.outstanding i r hr
        have hsplit : r.heights = List.range' r.origin k ++ List.range' (r.origin + k) (r.amount - k) :=
          range'_split r.origin k r.amount hk2
        have hmore : (((if k < r.amount then [({ origin := r.origin + k, amount := r.amount - k } : Req)] else []).map
              Req.heights).flatten) = List.range' (r.origin + k) (r.amount - k) := by
          split
          · simp [Req.heights]
          · have : r.amount - k = 0 := by omega
            simp [this]
        refine List.Perm.trans ?_ h
        simp only [List.map_append, List.flatten_append, hmore]
        refine List.Perm.trans ?_ (List.Perm.append_left s.collected hperm.symm)
        rw [hsplit]
        simp only [List.append_assoc]
        refine List.Perm.append_left _ ?_
        refine List.Perm.append_left _ ?_
        exact List.perm_append_comm

theorem nonempty_step (s : St) (i : Nat) (o : Outcome) (hall : ∀ r ∈ s.outstanding, 0 < r.amount) :
    ∀ r ∈ (step s i o).outstanding, 0 < r.amount := by
  unfold step
  split
  · exact hall
  · rename_i r0 hr0
    cases o with
    | fail => exact hall
    | ok k =>
      simp only
      split
      · exact hall
      · intro r hr
        simp only [List.mem_append] at hr
        rcases hr with hr | hr
        · exact hall r (List.mem_of_mem_eraseIdx hr)
        · split at hr
          · simp at hr; subst hr; simp; omega
          · simp at hr

/-- every run of the session: any sequence of (request index, outcome) events -/
def runEvents (s : St) (evs : List (Nat × Outcome)) : St := evs.foldl (fun st e => step st e.1 e.2) s

theorem tiling_run (s : St) (evs : List (Nat × Outcome)) (h : Tiling s) (hall : ∀ r ∈ s.outstanding, 0 < r.amount) :
    Tiling (runEvents s evs) ∧ ∀ r ∈ (runEvents s evs).outstanding, 0 < r.amount := by
  induction evs generalizing s with
  | nil => exact ⟨h, hall⟩
  | cons e es ih => exact ih _ (c05_tiling_step s e.1 e.2 h) (nonempty_step s e.1 e.2 hall)

theorem first_amount_step (s : St) (i : Nat) (o : Outcome) : (step s i o).first = s.first ∧ (step s i o).amount = s.amount := by
  unfold step; split
  · simp
  · cases o <;> simp only <;> (try split) <;> simp

theorem first_amount_run (s : St) (evs : List (Nat × Outcome)) :
    (runEvents s evs).first = s.first ∧ (runEvents s evs).amount = s.amount := by
  induction evs generalizing s with
  | nil => simp [runEvents]
  | cons e es ih =>
    have := ih (step s e.1 e.2)
    have h2 := first_amount_step s e.1 e.2
    simp only [runEvents, List.foldl_cons] at this ⊢
    rw [this.1, this.2, h2.1, h2.2]; simp

theorem sorted_perm_range (l : List Nat) (a n : Nat) (h : l.Perm (List.range' a n)) :
    l.mergeSort (fun x y => decide (x ≤ y)) = List.range' a n := by
  have hp : (l.mergeSort (fun x y => decide (x ≤ y))).Perm (List.range' a n) := (List.mergeSort_perm l _).trans h
  have hs := List.pairwise_mergeSort (le := fun x y => decide (x ≤ y))
    (by intro a b c; simp; omega) (by intro a b; simp; omega) l
  apply List.Perm.eq_of_pairwise (le := fun x y => decide (x ≤ y) = true) _ hs _ hp
  · intro a b _ _ h1 h2; simp at h1 h2; omega
  · have := List.pairwise_lt_range' (s := a) (n := n) 1 (by omega)
    exact this.imp (by intro a b h; simp; omega)

/-- C05 / C18 result: for EVERY from, to, chunk size and EVERY sequence of peer answers — Byzantine or
    not — if GetRangeByHeight returns a slice, it is exactly from+1, from+2, …, to-1: non-empty, no gaps,
    no duplicates, ascending, below `to`. -/
theorem c05_result_exact (fromH to per : Nat) (hp : 0 < per) (s0 : St) (hs : start fromH to per = some s0)
    (evs : List (Nat × Outcome)) (res : List Nat) (hr : result (runEvents s0 evs) = some res) :
    res = List.range' (fromH + 1) (to - (fromH + 1)) ∧ res ≠ [] := by
  have hlt : ¬ to ≤ fromH + 1 := by intro h; rw [c05_degenerate fromH to per h] at hs; cases hs
  have ht0 := tiling_start fromH to per hp s0 hs
  have hall0 : ∀ r ∈ s0.outstanding, 0 < r.amount := by
    unfold start at hs; simp [hlt] at hs; subst hs
    exact fun r hr => (c18_split_sizes _ _ per _ hp r hr).1
  obtain ⟨ht, hall⟩ := tiling_run s0 evs ht0 hall0
  obtain ⟨hf, ha⟩ := first_amount_run s0 evs
  have hfa : s0.first = fromH + 1 ∧ s0.amount = to - (fromH + 1) := by
    unfold start at hs; simp [hlt] at hs; subst hs; simp
  generalize runEvents s0 evs = s at *
  unfold result at hr
  split at hr
  · rename_i hdone
    simp at hr; subst hr
    have hlen := ht.length_eq
    simp only [cover, List.length_append, List.length_flatten, List.length_range', List.map_map] at hlen
    have hz : (s.outstanding.map (List.length ∘ Req.heights)).sum = 0 := by omega
    have hempty : s.outstanding = [] := by
      cases ho : s.outstanding with
      | nil => rfl
      | cons r rs =>
        have := hall r (by simp [ho])
        simp [ho, Req.heights] at hz
        omega
    have hperm : s.collected.Perm (List.range' s.first s.amount) := by
      simpa [Tiling, cover, hempty] using ht
    rw [sorted_perm_range _ _ _ hperm, hf, ha, hfa.1, hfa.2]
    refine ⟨rfl, ?_⟩
    intro h0
    have : (List.range' (fromH + 1) (to - (fromH + 1))).length = 0 := by rw [h0]; rfl
    simp at this; omega
  · cases hr

example : (start 5 14 4).map (·.outstanding) = some [⟨6, 4⟩, ⟨10, 4⟩] := by decide
example : (runEvents ((start 5 14 4).get (by decide)) [(1, .ok 4), (0, .ok 1), (0, .fail), (0, .ok 3)]).collected
    = [10, 11, 12, 13, 6, 7, 8, 9] := by decide

end GoHeader.C05
