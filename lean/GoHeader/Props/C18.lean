/-
  C18 — With honest peers the Exchange returns the full range however it is split.
  (model: P2P.Session; the splitting and exactness theorems are proved in Props/C05 for arbitrary
   peers, here they are specialised to honest ones and a progress measure is added)
-/
import GoHeader.Props.C05
import GoHeader.P2P.Score
namespace GoHeader.C18
open GoHeader GoHeader.Sess GoHeader.C05

/-- the scores that order the session's peer queue stay FINITE numbers under every sequence of booked outcomes
    (successes of any duration, sub-millisecond ones included, and NOT_FOUND / empty answers) - so the queue's
    comparison stays a total order and no peer can become invisible to it (`P2P.Score`, classes of float32 values) -/
theorem c18_score_stays_finite (evs : List Score.Ev) : Score.run true .fin evs = .fin :=
  Score.run_fixed_fin evs

/-- the code before the F33 repair: one sub-millisecond success and one NOT_FOUND make the score NaN, and NaN stays -/
theorem c18_score_nan_before_repair (evs : List Score.Ev) :
    Score.run false .fin ([.ok 0, .fail] ++ evs) = .nan := by
  have h : Score.run false .fin ([.ok 0, .fail] ++ evs) = Score.run false (Score.run false .fin [.ok 0, .fail]) evs := by
    simp [Score.run, List.foldl_append]
  rw [h, Score.old_reaches_nan, Score.nan_absorbing]

/-- `prepareRequests` covers the range exactly, in order, with non-empty chunks of at most `per` -/
theorem c18_split (origin amount per : Nat) (hp : 0 < per) :
    ((prepare origin amount per amount).map Req.heights).flatten = List.range' origin amount ∧
    ∀ r ∈ prepare origin amount per amount, 0 < r.amount ∧ r.amount ≤ per :=
  ⟨c18_split_covers origin amount per amount hp (Nat.le_refl _), c18_split_sizes origin amount per amount hp⟩

/-- an honest peer holding the chain up to `have_` answers a request it can serve with a non-empty
    prefix of exactly the requested heights -/
theorem c18_honest_answer (have_ : Nat) (r : Req) (h1 : r.origin ≤ have_) (h2 : 0 < r.amount) :
    ∃ k, outcome have_ r .honest = .ok k ∧ 0 < k ∧ k ≤ r.amount := by
  refine ⟨min r.amount (have_ + 1 - r.origin), by simp [outcome, h1], ?_, Nat.min_le_left _ _⟩
  simp [Nat.lt_min]; omega

/-- progress: an accepted non-empty answer strictly decreases the number of headers still owed;
    a failed one (NOT_FOUND, timeout, disconnect) leaves it unchanged -/
def owed (s : St) : Nat := ((s.outstanding.map Req.heights).flatten).length

theorem c18_progress (s : St) (i : Nat) (r : Req) (k : Nat) (hr : s.outstanding[i]? = some r)
    (hk1 : 0 < k) (hk2 : k ≤ r.amount) (ht : Tiling s) :
    owed (step s i (.ok k)) + k = owed s ∧ owed (step s i .fail) = owed s := by
  constructor
  · have h1 := (c05_tiling_step s i (.ok k) ht).length_eq
    have h0 := ht.length_eq
    have hfa := first_amount_step s i (.ok k)
    have hcol : (step s i (.ok k)).collected.length = s.collected.length + k := by
      unfold step; simp [hr]
      have : ¬ (k = 0 ∨ r.amount < k) := by omega
      simp [this]
    simp only [cover, List.length_append, List.length_range'] at h0 h1
    unfold owed
    rw [hfa.2] at h1
    omega
  · unfold step; simp [hr]

/-- with honest peers (every answer is a non-empty correct prefix or a benign failure) a returned
    slice is exactly from+1 … to-1 in ascending order, for every chunk size, peer count and split -/
theorem c18_exact (fromH to per : Nat) (hp : 0 < per) (s0 : St) (hs : start fromH to per = some s0)
    (evs : List (Nat × Outcome)) (res : List Nat) (hr : result (runEvents s0 evs) = some res) :
    res = List.range' (fromH + 1) (to - (fromH + 1)) :=
  (c05_result_exact fromH to per hp s0 hs evs res hr).1

end GoHeader.C18
