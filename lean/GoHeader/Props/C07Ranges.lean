/-
  C07 (and the crash-freedom of C03) — the Syncer's pending set, `sync/ranges.go` (model: GoHeader.Sync.Ranges).

  "heads learned while a sync is running, including ones that leave gaps in the pending set, are synced as well …
   nothing partial is lost": what the sync loop takes out of the pending set is exactly what it stored, whatever
  `Add` calls run between its `First`/`Get` and its `Remove`, and no slice expression of `Get`/`Remove` leaves its slice.
-/
import GoHeader.Lemmas.Ranges
import GoHeader.Gen.Sync
import GoHeader.Sync.Subjective
namespace GoHeader.C07Ranges
open GoHeader GoHeader.Ranges

/-- Tie T: the regenerated `rangeAmount` (Go's wrapping uint64 arithmetic) is the model's `amt` over the naturals, for
    every range that does not end at the very top of uint64 -/
theorem c07_tie_rangeAmount (s len e : UInt64) (h : s.toNat + len.toNat + 1 < 2 ^ 64) :
    (Gen.rangeAmount s len e).toNat = amt s.toNat len.toNat e.toNat := by
  unfold Gen.rangeAmount amt
  by_cases h1 : s > e
  · have := UInt64.lt_iff_toNat_lt.mp h1
    simp [h1]; omega
  · have hle : s ≤ e := UInt64.not_lt.mp h1
    have hle' := UInt64.le_iff_toNat_le.mp hle
    have hadd : (s + len).toNat = s.toNat + len.toNat := by
      rw [UInt64.toNat_add]; exact Nat.mod_eq_of_lt (by omega)
    have hsub := UInt64.toNat_sub_of_le e s hle
    have hn1 : ¬ (s.toNat > e.toNat) := by omega
    simp only [h1, decide_false, if_false, hn1, Bool.false_eq_true]
    by_cases h2 : s + len > e
    · have h2' : s.toNat + len.toNat > e.toNat := by
        have := UInt64.lt_iff_toNat_lt.mp h2; omega
      have h3 : (e - s + 1).toNat = e.toNat - s.toNat + 1 := by
        rw [UInt64.toNat_add, hsub]; exact Nat.mod_eq_of_lt (by simp; omega)
      simp [h2, h2', h3]
    · have h2' : ¬ (s.toNat + len.toNat > e.toNat) := by
        intro hc; exact h2 (UInt64.lt_iff_toNat_lt.mpr (by omega))
      simp [h2, h2']

/-- no call of `Get` or `Remove`, on ANY range and for ANY end, slices beyond the length of the cached headers -/
theorem c07_ranges_never_slice_out_of_range (r : Rng) (e : Nat) : sliceOk (rangeAmount r e) r = true := by
  simp [sliceOk, rangeAmount, amt_le]

/-- … which was not so before the repair of F41: the head right below the finished target, alone in the pending set -/
theorem c07_old_rangeAmount_overshoots : sliceOk (rangeAmountOld ⟨23, [23]⟩ 24) ⟨23, [23]⟩ = false := by decide

/-- `Get(to)` of a well-formed range hands out exactly its headers up to `to`, `Remove(to)` leaves exactly the ones above,
    and the range stays well-formed -/
theorem c07_get_remove_split (r : Rng) (to : Nat) (h : r.WF) :
    get r to = r.hs.filter (· ≤ to) ∧ (remove r to).hs = r.hs.filter (· > to) ∧ (remove r to).WF :=
  ⟨get_spec to h, remove_spec to h, remove_wf to h⟩

/-- after `Remove(to)` the next `Get(to)` of that range is empty: the loop moves on or stops -/
theorem c07_after_remove_nothing_left (r : Rng) (to : Nat) (h : r.WF) : get (remove r to) to = [] := by
  rw [get_spec to (remove_wf to h), remove_spec to h, List.filter_filter]
  apply List.filter_eq_nil_iff.2
  intro x _; simp

/-- the invariant (ranges well-formed, ascending, never adjacent, emptied ranges only at the front) holds after EVERY
    sequence of Add / First / Remove-on-the-first-range / Prune calls -/
theorem c07_ranges_inv_run (ops : List Op) : Ranges.Inv (run [] ops) := by
  suffices ∀ rs, Ranges.Inv rs → Ranges.Inv (run rs ops) from this [] ⟨by simp, by simp, by simp⟩
  induction ops with
  | nil => intro rs h; exact h
  | cons op ops ih =>
    intro rs h
    show Ranges.Inv (run (step rs op) ops)
    apply ih
    cases op with
    | add x => exact add_inv x h
    | first => exact clean_inv h
    | removeFirst e => exact removeFirst_inv e h
    | prune e => exact prune_inv e h

/-- after every sequence of operations the cached heights are strictly ascending (no duplicates, no reordering): what the loop
    hands to the Store is in chain order -/
theorem c07_pending_strictly_ascending (ops : List Op) : (heights (run [] ops)).Pairwise (· < ·) :=
  heights_sorted (c07_ranges_inv_run ops)

/-- the pending set is an ascending log of heads: `Add` records a head iff it is above everything cached -/
theorem c07_add_records_new_heads (rs : Ranges) (h : Nat) (hi : Ranges.Inv rs) :
    heights (add rs h) = if (heights rs).all (· < h) then heights rs ++ [h] else heights rs := by
  rcases add_cases rs h with ⟨e, hd, hh, hge⟩ | ⟨e, hd⟩ | ⟨pre, r, hd, rfl, e2, e3, e4⟩
  · rw [e]
    have := (inv_head_max hi hh).1
    have hn : (heights rs).all (· < h) = false := by
      apply Bool.eq_false_iff.2; intro hall
      have := List.all_eq_true.1 hall hd this; simp at this; omega
    simp [hn]
  · rw [e, heights_snoc]
    have hall : (heights rs).all (· < h) = true := by
      apply List.all_eq_true.2; intro x hx
      rcases hd with hn | ⟨d, hd1, hd2⟩
      · rw [inv_head_none hi hn] at hx; simp at hx
      · have := (inv_head_max hi hd1).2 x hx; simp; omega
    simp [hall]
  · rw [e4, heights_snoc, heights_snoc]
    have hh : headOf (pre ++ [r]) = some hd := by rw [headOf_snoc]; exact e2
    have hall : (heights (pre ++ [r])).all (· < h) = true := by
      apply List.all_eq_true.2; intro x hx
      have := (inv_head_max hi hh).2 x hx; simp; omega
    rw [heights_snoc] at hall
    simp [hall]

/-- refinement: on the cached heights, `ranges.Add` IS the `addH` of the abstract log that `Sync.Subjective` (C19) works with … -/
theorem c07_pending_refines_log_add (rs : Ranges) (h : Nat) (hi : Ranges.Inv rs) :
    heights (add rs h) = Subjective.addH (heights rs) h := by
  rw [c07_add_records_new_heads _ _ hi]; rfl

/-- … and `ranges.Prune(e)` is its `filter (· > e)` -/
theorem c07_pending_refines_log_prune : ∀ (rs : Ranges) (e : Nat), Ranges.Inv rs → heights (prune rs e) = (heights rs).filter (· > e)
  | [], _, _ => rfl
  | r :: rest, e, hi => by
    have hrest : Ranges.Inv rest := ⟨fun a ha => hi.wf a (by simp [ha]), (List.pairwise_cons.1 hi.sep).2, (List.pairwise_cons.1 hi.ep).2⟩
    have ih := c07_pending_refines_log_prune rest e hrest
    show heights (remove r e :: prune rest e) = _
    rw [heights_cons, heights_cons, List.filter_append, ih, remove_spec e (hi.wf r (by simp))]

/-- one `Add` between the loop's `Get(to)` and its `Remove(to)`: the first range still yields the same headers for `to`
    (so `Remove` drops exactly what was stored), provided `to` is a cached head - as the sync target always is -/
theorem c07_add_keeps_first_get (r : Rng) (rest : Ranges) (to h : Nat) (hi : Ranges.Inv (r :: rest)) (hne : r.hs ≠ [])
    (hto : to ∈ heights (r :: rest)) :
    ∃ r' rest', add (r :: rest) h = r' :: rest' ∧ get r' to = get r to ∧ r'.hs ≠ [] ∧ to ∈ heights (r' :: rest') := by
  have hmem : to ∈ heights (add (r :: rest) h) := by
    rw [c07_add_records_new_heads _ _ hi]; split <;> simp [hto]
  rcases add_cases (r :: rest) h with ⟨e, _⟩ | ⟨e, _⟩ | ⟨pre, q, hd, e1, e2, e3, e4⟩
  · exact ⟨r, rest, e, rfl, hne, hto⟩
  · exact ⟨r, rest ++ [⟨h, [h]⟩], by rw [e]; rfl, rfl, hne, by rw [e] at hmem; exact hmem⟩
  · cases pre with
    | nil =>
      have hq : r = q ∧ rest = [] := by simpa using e1
      obtain ⟨rfl, rfl⟩ := hq
      refine ⟨{ r with hs := r.hs ++ [h] }, [], by rw [e4]; rfl, ?_, by simp, by rw [e4] at hmem; exact hmem⟩
      have wr : r.WF := hi.wf r (by simp)
      have wr' : Rng.WF { r with hs := r.hs ++ [h] } := (add_inv h hi).wf _ (by rw [e4]; simp)
      rw [get_spec to wr', get_spec to wr]
      have hto' : to ∈ r.hs := by simpa [heights] using hto
      have hmax := (inv_head_max hi (by simpa [headOf] using e2)).2 to (by simpa [heights] using hto')
      have : ¬ (h ≤ to) := by omega
      simp [List.filter_append, this]
    | cons p ps =>
      have hq : r = p ∧ rest = ps ++ [q] := by simpa using e1
      obtain ⟨rfl, rfl⟩ := hq
      exact ⟨r, ps ++ [{ q with hs := q.hs ++ [h] }], by rw [e4]; rfl, rfl, hne, by rw [e4] at hmem; exact hmem⟩

/-- … and so for ANY number of heads learned while the loop is between its `Get(to)` and its `Remove(to)` -/
theorem c07_adds_keep_first_get (adds : List Nat) : ∀ (r : Rng) (rest : Ranges) (to : Nat), Ranges.Inv (r :: rest) → r.hs ≠ [] →
    to ∈ heights (r :: rest) →
    ∃ r' rest', adds.foldl add (r :: rest) = r' :: rest' ∧ get r' to = get r to ∧ Ranges.Inv (r' :: rest') := by
  induction adds with
  | nil => intro r rest to hi _ _; exact ⟨r, rest, rfl, rfl, hi⟩
  | cons h hs ih =>
    intro r rest to hi hne hto
    obtain ⟨r1, rest1, e, hg, hne1, hto1⟩ := c07_add_keeps_first_get r rest to h hi hne hto
    have hi1 : Ranges.Inv (r1 :: rest1) := e ▸ add_inv h hi
    obtain ⟨r2, rest2, e2, hg2, hi2⟩ := ih r1 rest1 to hi1 hne1 hto1
    exact ⟨r2, rest2, by simp only [List.foldl_cons, e, e2], by rw [hg2, hg], hi2⟩

/-- the hypothesis is needed: with a target that is NOT cached, a head learned in between is dropped without being stored -/
theorem c07_uncached_target_counterexample :
    get ⟨10, [10]⟩ 12 = [10] ∧ (remove ((add [⟨10, [10]⟩] 11).head!) 12).hs = [] := by decide

/-- `Add(h)` is NOT atomic with respect to the loop: it reads the head of the last range, the loop's `Remove(e)` may run,
    then `Add` applies what it decided. The invariant survives that interleaving (after the F42 repair) - for every pending
    set, every head and every `e` -/
theorem c07_add_racing_remove_keeps_inv (rs : Ranges) (h e : Nat) (hi : Ranges.Inv rs) :
    Ranges.Inv (addApply true (removeFirst rs e) (addRead rs h) h) := add_split_inv h e hi

/-- without a `Remove` in between, the two halves are `Add` -/
theorem c07_add_split_is_add (rs : Ranges) (h : Nat) : addApply true rs (addRead rs h) h = add rs h := addApply_addRead rs h

/-- before the repair of F42 the range kept its stale start: `Get(11)` handed out header 12, and with head 13 learned before
    the `Remove(11)`, 13 was dropped from the pending set without ever having been handed out -/
theorem c07_add_racing_remove_before_repair :
    let rs1 := addApply false (removeFirst [⟨10, [10, 11]⟩] 11) (addRead [⟨10, [10, 11]⟩] 12) 12
    rs1 = [⟨10, [12]⟩] ∧ get rs1.head! 11 = [12] ∧ heights (removeFirst (add rs1 13) 11) = [] := by decide

/-- … and after it: nothing is handed out for 11, and both heads are still cached after the `Remove(11)` -/
theorem c07_add_racing_remove_repaired :
    let rs1 := addApply true (removeFirst [⟨10, [10, 11]⟩] 11) (addRead [⟨10, [10, 11]⟩] 12) 12
    rs1 = [⟨12, [12]⟩] ∧ get rs1.head! 11 = [] ∧ heights (removeFirst (add rs1 13) 11) = [12, 13] := by decide

/-- the cache loop of `processHeaders(…, to)` - `First()`, `Get(to)`, store, `Remove(to)`, again - over ANY pending set that satisfies
    the invariant: it hands to the Store exactly the cached heads up to `to`, in order, each once, leaves exactly the ones above `to`,
    and terminates within one iteration per range (+1) -/
theorem c07_cache_loop_exact (rs : Ranges) (to : Nat) (hi : Ranges.Inv rs) :
    (drain rs.length rs to).1 = (heights rs).filter (· ≤ to) ∧
    heights (drain rs.length rs to).2 = (heights rs).filter (· > to) ∧ Ranges.Inv (drain rs.length rs to).2 :=
  drain_spec to rs.length rs hi (clean_length_le rs)

/-- … in particular after every sequence of Add / First / Remove / Prune calls -/
theorem c07_cache_loop_exact_reachable (ops : List Op) (to : Nat) :
    let rs := run [] ops
    (drain rs.length rs to).1 = (heights rs).filter (· ≤ to) ∧ heights (drain rs.length rs to).2 = (heights rs).filter (· > to) := by
  intro rs
  have := c07_cache_loop_exact rs to (c07_ranges_inv_run ops)
  exact ⟨this.1, this.2.1⟩

example : drain 3 (run [] [.add 10, .add 11, .add 20, .add 21, .add 30]) 20 = ([10, 11, 20], [⟨21, [21]⟩, ⟨30, [30]⟩]) := by decide

/-- non-vacuity: a reachable pending set with two ranges, a gap and a cached target -/
example : Ranges.Inv (run [] [.add 10, .add 11, .add 20, .first]) ∧ (20 ∈ heights (run [] [.add 10, .add 11, .add 20, .first])) ∧
    get ((run [] [.add 10, .add 11, .add 20, .first]).head!) 20 = [10, 11] :=
  ⟨c07_ranges_inv_run _, by decide, by decide⟩

end GoHeader.C07Ranges
