/-
  C04 — Store is a gap-free chain Tail..Head with consistent height and hash lookups.

  Statements are about `Store.Seq` (tied to /repo/store by the op-sequence correspondence, see
  DESIGN.md §4 C04).  `c04_inv` is the invariant for EVERY operation history and every batch size;
  the other theorems read the clauses of the property off the invariant.  Caches do not occur: the
  model is cache-transparent (every lookup goes to pending ∪ datastore), so the theorems hold for all
  cache sizes provided the implementation's caches stay coherent — which the correspondence checks
  with eviction-sized caches.
-/
import GoHeader.Lemmas.Store
namespace GoHeader.C04
open GoHeader GoHeader.Store

/-- C04: the store invariant holds after any history of Append (any order, gaps, repeats), Sync,
    DeleteRange, restarts and handler registrations, for every batch size. -/
theorem c04_inv (batch : Nat) (ops : List Op) : Inv (St.run batch ops) := (good_run batch ops).1

/-- Tail ≤ Head, and both ends are set or unset together. -/
theorem c04_ends (batch : Nat) (ops : List Op) :
    let s := St.run batch ops
    (s.head = none ↔ s.tail = none) ∧ ∀ hd tl, s.head = some hd → s.tail = some tl → tl ≤ hd := by
  intro s
  have h := c04_inv batch ops
  exact ⟨h.1, fun hd tl eh et => (h.2.2 hd tl eh et).1⟩

/-- every height in [Tail, Head] is returned by GetByHeight, Get(hash), Has and HasAt. -/
theorem c04_range_readable (s : St) (hi : Inv s) (hd tl h : Nat) (eh : s.head = some hd) (et : s.tail = some tl)
    (h0 : 0 < h) (h1 : tl ≤ h) (h2 : h ≤ hd) :
    s.getByHeight h = .found ∧ s.byHash h = true ∧ s.hasAt h = true := by
  have hp : s.present h := (hi.2.2 hd tl eh et).2.1 h h1 h2
  have hl := lookup_of_present s h hp
  refine ⟨?_, ?_, ?_⟩
  · unfold St.getByHeight; simp [hl]; omega
  · unfold St.byHash; rcases hp with hp | ⟨_, hp⟩ <;> simp [hp]
  · unfold St.hasAt; simp [eh, et, h1, h2]; omega

/-- HasAt agrees exactly with the range [Tail, Head]. -/
theorem c04_hasAt_iff (s : St) (hd tl h : Nat) (eh : s.head = some hd) (et : s.tail = some tl) :
    s.hasAt h = true ↔ (h ≠ 0 ∧ tl ≤ h ∧ h ≤ hd) := by
  unfold St.hasAt; simp [eh, et, and_assoc]

theorem c04_hasAt_empty (s : St) (h : Nat) (eh : s.head = none) : s.hasAt h = false := by
  unfold St.hasAt; simp [eh]

/-- Height() equals Head().Height(). -/
theorem c04_height_eq_head (s : St) (hi : Inv s) (hd : Nat) (eh : s.head = some hd) : s.hs = hd := by
  cases et : s.tail with
  | none => exact absurd (hi.1.mpr et) (by simp [eh])
  | some tl => exact (hi.2.2 hd tl eh et).2.2.2

/-- Head is the top of the contiguous run: the next height is not retrievable (Head does not move
    past a gap), … -/
theorem c04_head_is_top (s : St) (hi : Inv s) (hd : Nat) (eh : s.head = some hd) :
    s.getByHeight (hd + 1) ≠ .found := by
  cases et : s.tail with
  | none => exact absurd (hi.1.mpr et) (by simp [eh])
  | some tl =>
    have hnp := (hi.2.2 hd tl eh et).2.2.1
    have : s.lookup (hd + 1) = false := by
      cases hl : s.lookup (hd + 1) with
      | false => rfl
      | true => exact absurd ((lookup_eq_present_of_inv s hi _).mp hl) hnp
    unfold St.getByHeight; simp [this]; split <;> simp

/-- … and it advances by itself once a gap is filled: no stored run extends beyond Head. -/
theorem c04_no_run_beyond_head (s : St) (hi : Inv s) (hd k : Nat) (eh : s.head = some hd)
    (hrun : ∀ h, hd < h → h ≤ k → s.present h) : k ≤ hd := by
  cases et : s.tail with
  | none => exact absurd (hi.1.mpr et) (by simp [eh])
  | some tl =>
    have hnp := (hi.2.2 hd tl eh et).2.2.1
    by_cases hk : k ≤ hd
    · exact hk
    · exact absurd (hrun (hd + 1) (by omega) (by omega)) hnp

/-- GetRange succeeds only when every requested height is stored (it returns exactly those
    consecutive heights, walking back by previous-hash from `b-1`), and otherwise fails. -/
theorem c04_getRange_exact (s : St) (a b : Nat) (h : s.getRange a b = true) :
    a < b ∧ s.getByHeight (b - 1) = .found ∧ ∀ k, a ≤ k → k < b - 1 → (k ≠ 0 ∧ s.byHash k = true) := by
  unfold St.getRange at h
  simp only [Bool.and_eq_true, decide_eq_true_eq, beq_iff_eq, List.all_eq_true, List.mem_range'_1] at h
  obtain ⟨⟨h1, h2⟩, h3⟩ := h
  refine ⟨h1, h2, fun k x y => ?_⟩
  have := h3 k ⟨x, by omega⟩
  simpa using this

/-- every stored header is readable no matter where it sits (write batch or datastore). -/
theorem c04_present_readable (s : St) (h : Nat) (h0 : 0 < h) (hp : s.present h) :
    s.getByHeight h = .found ∧ s.byHash h = true := by
  refine ⟨?_, ?_⟩
  · unfold St.getByHeight; simp [lookup_of_present s h hp]; omega
  · unfold St.byHash; rcases hp with hp | ⟨_, hp⟩ <;> simp [hp]

/-- an appended header is stored once the write queue has been drained (Sync) … -/
theorem c04_append_sync_present (s : St) (hg : Good s) (hs : List Nat) (h : Nat) (hh : h ∈ hs) :
    ((s.step (.append hs)).step .sync).present h := by
  have hne : hs.isEmpty = false := by cases hs <;> simp_all
  simp only [St.step, hne, Bool.false_eq_true, if_false]
  apply (present_sync ({ s with queue := s.queue ++ [hs] } : St) hg.1.2.1 h).mpr
  exact Or.inr ⟨hs, by simp, hh⟩

/-- … and stays stored under every later operation except a DeleteRange that covers it. -/
theorem c04_stored_stays (s : St) (hg : Good s) (op : Op) (k : Nat) (hm : s.mentions k)
    (hnd : ∀ a b, op = .delete a b → ¬ (a ≤ k ∧ k < b)) : (s.step op).mentions k := by
  cases op with
  | append hs =>
    simp only [St.step]; split
    · exact hm
    · rcases hm with hm | ⟨b, hb, hk⟩
      · exact Or.inl hm
      · exact Or.inr ⟨b, by simp [hb], hk⟩
  | sync => simp only [St.step]; exact Or.inl ((present_sync s hg.1.2.1 k).mpr hm)
  | delete a b =>
    simp only [St.step]
    have hs : Good s.syncedForDelete := good_sync s hg
    have hp : s.syncedForDelete.present k := (present_sync s hg.1.2.1 k).mpr hm
    left
    unfold St.deleteRange
    rcases deleteSynced_spec _ hs.1 a b with ⟨_, e⟩ | ⟨kd, stop, _, _, h2, hpres, _⟩
    · rw [e]; exact hp
    · exact (hpres k).mpr ⟨hp, fun hc => hnd a b rfl ⟨hc.1, by omega⟩⟩
  | restart => simp only [St.step]; exact Or.inl ((present_restart s hg k).mpr hm)
  | onDelete f => exact hm

/-! non-vacuity: a concrete history with a gap that gets filled, a repeat, a tail-side delete and a restart -/
example : let s := St.run 2 [.append [1, 2], .append [5], .sync, .append [4, 3], .append [2], .sync,
                             .delete 1 3, .restart]
          s.head = some 5 ∧ s.tail = some 3 ∧ s.hs = 5 ∧ s.getByHeight 4 = .found ∧ s.getByHeight 2 = .notFound := by
  decide

end GoHeader.C04
