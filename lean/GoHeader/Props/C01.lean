/-
  C01 — Verify accepts only headers passing every mandatory and type-level check.

  Property theorems only (helpers live in GoHeader/Lemmas).  The statements are about the hand
  model `GoHeader.Verify`; `c01_tie_verify` ties its guard chain to the text regenerated from
  /repo/verify.go on this run, and `c01_tie_drift` pins the regenerated clock-drift constant.
-/
import GoHeader.Verify
import GoHeader.Gen.Verify
namespace GoHeader.C01
open GoHeader

/-- Tier A tie: the guard chain regenerated from verify.go IS the model's guard chain. -/
theorem c01_tie_verify : Gen.verify = verify := by
  funext now drift t u
  unfold Gen.verify verify
  grind

/-- the mandatory conditions of the property text -/
def mandatoryOk (now drift : Int) (t u : Hdr) : Prop :=
  t.zero = false ∧ u.zero = false ∧ u.chain = t.chain ∧ t.height < u.height ∧
    t.time ≤ u.time ∧ u.time ≤ now + drift

/-- the condition a sentinel stands for ("the matching sentinel") -/
def cond (now drift : Int) (t u : Hdr) : Sentinel → Prop
  | .ErrZeroHeader => t.zero = true ∨ u.zero = true
  | .ErrWrongChainID => u.chain ≠ t.chain
  | .ErrKnownHeader => u.height ≤ t.height
  | .ErrUnorderedTime => u.time < t.time
  | .ErrFromFuture => u.time > now + drift
  | .ErrEmptyRange => False
  | .ErrNonAdjacentRange => False

theorem verify_none_iff (now drift : Int) (t u : Hdr) :
    verify now drift t u = none ↔ mandatoryOk now drift t u := by
  unfold verify mandatoryOk
  grind

theorem verify_some_cond (now drift : Int) (t u : Hdr) (s : Sentinel)
    (h : verify now drift t u = some s) : cond now drift t u s := by
  unfold verify at h
  cases s <;> simp only [cond] <;> grind

/-- C01 (accept): nil ⇔ all mandatory checks pass and the type-level Verify accepts. -/
theorem c01_accept (now drift : Int) (tv : Hdr → Hdr → TV) (t u : Hdr) :
    Verify now drift tv t u = none ↔ mandatoryOk now drift t u ∧ tv t u = .ok := by
  unfold Verify
  cases hv : verify now drift t u with
  | some s =>
    have : ¬ mandatoryOk now drift t u := fun hm => by
      have := (verify_none_iff now drift t u).mpr hm; simp [hv] at this
    simp [this]
  | none =>
    have hm := (verify_none_iff now drift t u).mp hv
    cases htv : tv t u <;> simp [hm]

/-- C01 (reason): every rejection wraps a sentinel whose condition holds, hard; or the type's own
    error after all mandatory checks passed, soft exactly when non-adjacent or reported soft. -/
theorem c01_reason (now drift : Int) (tv : Hdr → Hdr → TV) (t u : Hdr) (e : VErr)
    (h : Verify now drift tv t u = some e) :
    (∃ s, e.origin = .sentinel s ∧ cond now drift t u s ∧ e.soft = false) ∨
    (mandatoryOk now drift t u ∧ tv t u ≠ .ok ∧ e.origin = .typeErr ∧
      (e.soft = true ↔ (u.height ≠ t.height + 1 ∨ reportedSoft (tv t u) = true))) := by
  unfold Verify at h
  cases hv : verify now drift t u with
  | some s =>
    left; simp [hv] at h; subst h
    exact ⟨s, rfl, verify_some_cond now drift t u s hv, rfl⟩
  | none =>
    right
    have hm := (verify_none_iff now drift t u).mp hv
    simp only [hv] at h
    cases htv : tv t u <;> simp [htv] at h <;> subst h <;>
      by_cases hadj : u.height = t.height + 1 <;> simp [hm, hadj, reportedSoft]

/-- C01 (never soft for a mandatory failure). -/
theorem c01_mandatory_hard (now drift : Int) (tv : Hdr → Hdr → TV) (t u : Hdr) (e : VErr)
    (h : Verify now drift tv t u = some e) (hm : ¬ mandatoryOk now drift t u) : e.soft = false := by
  rcases c01_reason now drift tv t u e h with ⟨s, _, _, hs⟩ | ⟨hm', _⟩
  · exact hs
  · exact absurd hm' hm

/-- the regenerated constant is the documented 10 s -/
theorem c01_tie_drift : Gen.clockDrift = 10 * 1000000000 := by decide

/-- the same statements transported to the regenerated guard chain (what the code says now) -/
theorem c01_gen_none_iff (now drift : Int) (t u : Hdr) :
    Gen.verify now drift t u = none ↔ mandatoryOk now drift t u := by
  rw [c01_tie_verify]; exact verify_none_iff now drift t u

/-! non-vacuity: concrete pairs meeting the hypotheses -/
example : Verify 100 10 (fun _ _ => .ok) { height := 1, time := 5 } { height := 3, time := 110 } = none := by
  decide
example : Verify 100 10 (fun _ _ => .verr false) { height := 1, time := 5 } { height := 3, time := 7 }
    = some { origin := .typeErr, soft := true } := by decide
example : Verify 100 10 (fun _ _ => .wrapped true) { height := 1, time := 5 } { height := 2, time := 7 }
    = some { origin := .typeErr, soft := true } := by decide
example : Verify 100 10 (fun _ _ => .plain) { height := 1, time := 5 } { height := 2, time := 7 }
    = some { origin := .typeErr, soft := false } := by decide
example : Verify 100 10 (fun _ _ => .ok) { height := 1, time := 5 } { height := 2, time := 111 }
    = some { origin := .sentinel .ErrFromFuture, soft := false } := by decide

end GoHeader.C01
