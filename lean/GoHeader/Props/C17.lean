/-
  C17 — Concurrent Store use keeps Head monotone and readers never see torn state.
  Same hook-granular system as C12 (`Store.Conc`): the single flusher serialises all Appends, readers
  may run between any two flusher segments.
-/
import GoHeader.Lemmas.Conc
namespace GoHeader.C17
open GoHeader GoHeader.Conc

/-- the header returned by Head() is itself retrievable — in EVERY reachable state, i.e. whenever a
    reader looks between two flusher segments -/
theorem c17_head_readable (evs : List Ev) (hd : Nat) (h : (run evs).head = some hd) :
    hd ∈ (run evs).stored :=
  (inv_run evs).headStored hd h

/-- Head() and the retrievable set never move backwards under any flusher segment; Height() only moves
    down in the one segment that (re)initialises an EMPTY store (no Head existed before) -/
theorem c17_flusher_monotone (s s' : St) (h : stepF s = some s') :
    (∀ a, s.head = some a → ∃ b, s'.head = some b ∧ a ≤ b) ∧ (∀ k, k ∈ s.stored → k ∈ s'.stored) ∧
    (s.head ≠ none → s.hs ≤ s'.hs) := by
  unfold stepF at h
  cases hf : s.fpc with
  | idle =>
    simp only [hf] at h
    cases hq : s.queue with
    | nil => simp [hq] at h
    | cons b q =>
      simp only [hq, Option.some.injEq] at h; subst h
      exact ⟨fun a e => ⟨a, e, Nat.le_refl _⟩, fun k hk => by simp [hk], fun _ => Nat.le_refl _⟩
  | appended b =>
    simp only [hf] at h
    cases hh : s.head with
    | none =>
      cases b with
      | nil => simp only [hh, Option.some.injEq] at h; subst h; exact ⟨by simp [hh], fun k hk => hk, fun _ => Nat.le_refl _⟩
      | cons x xs =>
        simp only [hh, Option.some.injEq] at h; subst h
        exact ⟨by simp [hh], fun k hk => hk, fun hn => absurd rfl hn⟩
    | some hd =>
      simp only [hh, Option.some.injEq] at h; subst h
      exact ⟨fun a e => ⟨a, by simpa using e, Nat.le_refl _⟩, fun k hk => hk, fun _ => Nat.le_refl _⟩
  | inited b =>
    simp only [hf, Option.some.injEq] at h; subst h
    exact ⟨fun a e => ⟨a, e, Nat.le_refl _⟩, fun k hk => hk, fun _ => Nat.le_refl _⟩
  | notified b =>
    simp only [hf] at h
    cases hh : s.head with
    | none => simp only [hh, Option.some.injEq] at h; subst h; exact ⟨by simp [hh], fun k hk => hk, fun _ => Nat.le_refl _⟩
    | some hd =>
      simp only [hh, Option.some.injEq] at h; subst h
      exact ⟨fun a e => ⟨_, rfl, by simp at e; subst e; exact walkUp_ge _ _ _⟩, fun k hk => hk, fun _ => Nat.le_refl _⟩
  | headStored b old =>
    simp only [hf] at h
    cases hh : s.head with
    | none => simp only [hh, Option.some.injEq] at h; subst h; exact ⟨by simp [hh], fun k hk => hk, fun _ => Nat.le_refl _⟩
    | some hd =>
      simp only [hh] at h
      split at h
      · simp only [Option.some.injEq] at h; subst h
        exact ⟨fun a e => ⟨a, by simpa [hh] using e, Nat.le_refl _⟩, fun k hk => hk, fun _ => by simp; omega⟩
      · simp only [Option.some.injEq] at h; subst h
        exact ⟨fun a e => ⟨a, by simpa [hh] using e, Nat.le_refl _⟩, fun k hk => hk, fun _ => Nat.le_refl _⟩
  | heightSet b =>
    simp only [hf, Option.some.injEq] at h; subst h
    exact ⟨fun a e => ⟨a, e, Nat.le_refl _⟩, fun k hk => hk, fun _ => Nat.le_refl _⟩

/-- reader steps never touch Head, Height or what is stored -/
theorem c17_readers_do_not_write (s s' : St) (i : Nat) (c : Bool) (h : stepR s i c = some s') :
    s'.head = s.head ∧ s'.hs = s.hs ∧ s'.stored = s.stored ∧ s'.queue = s.queue ∧ s'.fpc = s.fpc := by
  unfold stepR at h
  cases hr : s.readers[i]? with
  | none => simp [hr] at h
  | some r =>
    simp only [hr] at h
    cases hpc : r.pc <;> simp only [hpc] at h <;> (try split at h) <;> simp at h <;> (try subst h) <;> simp

/-- every header whose Append has been worked off (flusher idle again, queue empty — what Sync waits
    for) is retrievable: the flusher only ever adds to the retrievable set -/
theorem c17_appended_stays (evs : List Ev) (e : Ev) (k : Nat) (hk : k ∈ (run evs).stored) :
    k ∈ (step (run evs) e).stored := by
  generalize run evs = s at *
  cases e with
  | flusher =>
    simp only [step]
    cases h : stepF s with
    | none => simpa using hk
    | some s' => simpa using (c17_flusher_monotone s s' h).2.1 k hk
  | reader i =>
    simp only [step]
    cases h : stepR s i false with
    | none => simpa using hk
    | some s' => simp; rw [(c17_readers_do_not_write s s' i false h).2.2.1]; exact hk
  | cancel i =>
    simp only [step]
    cases h : stepR s i true with
    | none => simpa using hk
    | some s' => simp; rw [(c17_readers_do_not_write s s' i true h).2.2.1]; exact hk
  | append b => simp only [step]; split <;> exact hk
  | call h => exact hk

example : (run [.append [1, 2, 3], .flusher, .flusher]).head = some 1 ∧
          1 ∈ (run [.append [1, 2, 3], .flusher, .flusher]).stored := by decide

end GoHeader.C17
