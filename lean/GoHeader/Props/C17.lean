/-
  C17 — Concurrent Store use keeps Head monotone and readers never see torn state.
  Same hook-granular system as C12 (`Store.Conc`): the single flusher serialises all Appends, readers
  may run between any two flusher segments.
-/
import GoHeader.Lemmas.Conc
import GoHeader.Store.TailRace
namespace GoHeader.C17
open GoHeader GoHeader.Conc

/-- the header returned by Head() is itself retrievable — in EVERY reachable state, i.e. whenever a
    reader looks between two flusher segments -/
theorem c17_head_readable (evs : List Ev) (hd : Nat) (h : (run evs).head = some hd) :
    hd ∈ (run evs).stored :=
  (inv_run evs).headStored hd h

/-- Head() and the retrievable set never move backwards under any flusher segment; Height() only moves
    down in the one segment that (re)initialises an EMPTY store (no Head existed before) -/
theorem c17_flusher_monotone (s s' : St) (h : stepF s = some s') :
    (∀ a, s.head = some a → ∃ b, s'.head = some b ∧ a ≤ b) ∧ (∀ k, k ∈ s.stored → k ∈ s'.stored) ∧
    (s.head ≠ none → s.hs ≤ s'.hs) := by
  unfold stepF at h
  cases hf : s.fpc with
  | idle =>
    simp only [hf] at h
    cases hq : s.queue with
    | nil => simp [hq] at h
    | cons b q =>
      simp only [hq, Option.some.injEq] at h; subst h
      exact ⟨fun a e => ⟨a, e, Nat.le_refl _⟩, fun k hk => by simp [hk], fun _ => Nat.le_refl _⟩
  | appended b =>
    simp only [hf] at h
    cases hh : s.head with
    | none =>
      cases b with
      | nil => simp only [hh, Option.some.injEq] at h; subst h; exact ⟨by simp [hh], fun k hk => hk, fun _ => Nat.le_refl _⟩
      | cons x xs =>
        simp only [hh, Option.some.injEq] at h; subst h
        exact ⟨by simp [hh], fun k hk => hk, fun hn => absurd rfl hn⟩
    | some hd =>
      simp only [hh, Option.some.injEq] at h; subst h
      exact ⟨fun a e => ⟨a, by simpa using e, Nat.le_refl _⟩, fun k hk => hk, fun _ => Nat.le_refl _⟩
  | inited b =>
    simp only [hf, Option.some.injEq] at h; subst h
    exact ⟨fun a e => ⟨a, e, Nat.le_refl _⟩, fun k hk => hk, fun _ => Nat.le_refl _⟩
  | notified b =>
    simp only [hf] at h
    cases hh : s.head with
    | none => simp only [hh, Option.some.injEq] at h; subst h; exact ⟨by simp [hh], fun k hk => hk, fun _ => Nat.le_refl _⟩
    | some hd =>
      simp only [hh, Option.some.injEq] at h; subst h
      exact ⟨fun a e => ⟨_, rfl, by simp at e; subst e; exact walkUp_ge _ _ _⟩, fun k hk => hk, fun _ => Nat.le_refl _⟩
  | headStored b old =>
    simp only [hf] at h
    cases hh : s.head with
    | none => simp only [hh, Option.some.injEq] at h; subst h; exact ⟨by simp [hh], fun k hk => hk, fun _ => Nat.le_refl _⟩
    | some hd =>
      simp only [hh] at h
      split at h
      · simp only [Option.some.injEq] at h; subst h
        exact ⟨fun a e => ⟨a, by simpa [hh] using e, Nat.le_refl _⟩, fun k hk => hk, fun _ => by simp; omega⟩
      · simp only [Option.some.injEq] at h; subst h
        exact ⟨fun a e => ⟨a, by simpa [hh] using e, Nat.le_refl _⟩, fun k hk => hk, fun _ => Nat.le_refl _⟩
  | heightSet b =>
    simp only [hf, Option.some.injEq] at h; subst h
    exact ⟨fun a e => ⟨a, e, Nat.le_refl _⟩, fun k hk => hk, fun _ => Nat.le_refl _⟩

/-- reader steps never touch Head, Height or what is stored -/
theorem c17_readers_do_not_write (s s' : St) (i : Nat) (c : Bool) (h : stepR s i c = some s') :
    s'.head = s.head ∧ s'.hs = s.hs ∧ s'.stored = s.stored ∧ s'.queue = s.queue ∧ s'.fpc = s.fpc := by
  unfold stepR at h
  cases hr : s.readers[i]? with
  | none => simp [hr] at h
  | some r =>
    simp only [hr] at h
    cases hpc : r.pc <;> simp only [hpc] at h <;> (try split at h) <;> simp at h <;> (try subst h) <;> simp

/-- every header whose Append has been worked off (flusher idle again, queue empty — what Sync waits
    for) is retrievable: the flusher only ever adds to the retrievable set -/
theorem c17_appended_stays (evs : List Ev) (e : Ev) (k : Nat) (hk : k ∈ (run evs).stored) :
    k ∈ (step (run evs) e).stored := by
  generalize run evs = s at *
  cases e with
  | flusher =>
    simp only [step]
    cases h : stepF s with
    | none => simpa using hk
    | some s' => simpa using (c17_flusher_monotone s s' h).2.1 k hk
  | reader i =>
    simp only [step]
    cases h : stepR s i false with
    | none => simpa using hk
    | some s' => simp; rw [(c17_readers_do_not_write s s' i false h).2.2.1]; exact hk
  | cancel i =>
    simp only [step]
    cases h : stepR s i true with
    | none => simpa using hk
    | some s' => simp; rw [(c17_readers_do_not_write s s' i true h).2.2.1]; exact hk
  | append b => simp only [step]; split <;> exact hk
  | call h => exact hk

example : (run [.append [1, 2, 3], .flusher, .flusher]).head = some 1 ∧
          1 ∈ (run [.append [1, 2, 3], .flusher, .flusher]).stored := by decide

end GoHeader.C17

/-! ### DeleteRange at the tail racing an Append at the head (all interleavings) -/
namespace GoHeader.C17
open GoHeader.Store.TailRace

/-- what every reachable state of the race satisfies -/
structure Inv (c : Cfg) (s : St) : Prop where
  below : ∀ h, h < c.t0 → s.has h = false
  above : ∀ h, c.n + 1 < h → s.has h = false
  top   : s.has (c.n + 1) = true ↔ s.f ≠ .start
  head  : s.head = if s.f = .start ∨ s.f = .wrote then c.n else c.n + 1
  del   : ∀ k, s.d = .deleting k → c.t0 ≤ k ∧ k ≤ c.to ∧ s.tail = c.t0 ∧
            (∀ h, c.t0 ≤ h → h < k → s.has h = false) ∧ (∀ h, k ≤ h → h ≤ c.n → s.has h = true)
  fin   : s.d = .done → s.tail = c.to ∧ (∀ h, h < c.to → s.has h = false) ∧ (∀ h, c.to ≤ h → h ≤ c.n → s.has h = true)
  walk  : ∀ cur ch, s.f = .walking cur ch → ch = false ∧ (cur = c.t0 ∨ (cur = c.to ∧ s.d = .done))

theorem inv_init (c : Cfg) (h1 : 1 ≤ c.t0) (h2 : c.t0 < c.to) (h3 : c.to ≤ c.n) : Inv c (init c) where
  below := by intro h hh; simp [init]; omega
  above := by intro h hh; simp [init]; omega
  top := by simp [init]
  head := by simp [init]
  del := by
    intro k hk
    simp [init] at hk
    subst hk
    refine ⟨Nat.le_refl _, by omega, rfl, ?_, ?_⟩
    · intro h a b; omega
    · intro h a b; simp [init]; exact ⟨a, b⟩
  fin := by intro h; simp [init] at h
  walk := by intro cur ch h; simp [init] at h

theorem inv_stepF (c : Cfg) (s s' : St) (h1 : 1 ≤ c.t0) (h2 : c.t0 < c.to) (h3 : c.to ≤ c.n)
    (hi : Inv c s) (hs : stepF s = some s') : Inv c s' := by
  obtain ⟨below, above, top, head, del, fin, walk⟩ := hi
  unfold stepF at hs
  split at hs
  · -- start: the header lands in pending
    rename_i hf
    have hh : s.head = c.n := by simp [hf] at head; exact head
    cases hs
    exact {
      below := by
        intro h x
        show (if h = s.head + 1 then true else s.has h) = false
        rw [if_neg (by omega)]; exact below h x
      above := by
        intro h x
        show (if h = s.head + 1 then true else s.has h) = false
        rw [if_neg (by omega)]; exact above h x
      top := by
        show (if c.n + 1 = s.head + 1 then true else s.has (c.n + 1)) = true ↔ FPc.wrote ≠ FPc.start
        rw [if_pos (by omega)]; simp
      head := by show s.head = if FPc.wrote = FPc.start ∨ FPc.wrote = FPc.wrote then c.n else c.n + 1; simp [hh]
      del := by
        intro k hk
        obtain ⟨a, b, t, lo, hi'⟩ := del k hk
        refine ⟨a, b, t, ?_, ?_⟩
        · intro h x y
          show (if h = s.head + 1 then true else s.has h) = false
          rw [if_neg (by omega)]; exact lo h x y
        · intro h x y
          show (if h = s.head + 1 then true else s.has h) = true
          rw [if_neg (by omega)]; exact hi' h x y
      fin := by
        intro hd
        obtain ⟨t, lo, hi'⟩ := fin hd
        refine ⟨t, ?_, ?_⟩
        · intro h x
          show (if h = s.head + 1 then true else s.has h) = false
          rw [if_neg (by omega)]; exact lo h x
        · intro h x y
          show (if h = s.head + 1 then true else s.has h) = true
          rw [if_neg (by omega)]; exact hi' h x y
      walk := by intro cur ch h; cases h }
  · -- wrote: advanceHead publishes n+1
    rename_i hf
    have hh : s.head = c.n := by simp [hf] at head; exact head
    have ht : s.has (c.n + 1) = true := top.2 (by rw [hf]; simp)
    cases hs
    exact {
      below := below, above := above
      top := by show s.has (c.n + 1) = true ↔ FPc.advanced ≠ FPc.start; simp [ht]
      head := by show s.head + 1 = if FPc.advanced = FPc.start ∨ FPc.advanced = FPc.wrote then c.n else c.n + 1; simp [hh]
      del := del, fin := fin
      walk := by intro cur ch h; cases h }
  · -- advanced: nextTail loads the pointer — t0 while the deleter runs, `to` once it is done
    rename_i hf
    have hh : s.head = c.n + 1 := by simp [hf] at head; exact head
    have ht : s.has (c.n + 1) = true := top.2 (by rw [hf]; simp)
    cases hs
    exact {
      below := below, above := above
      top := by show s.has (c.n + 1) = true ↔ FPc.walking s.tail false ≠ FPc.start; simp [ht]
      head := by
        show s.head = if FPc.walking s.tail false = FPc.start ∨ FPc.walking s.tail false = FPc.wrote then c.n else c.n + 1
        simp [hh]
      del := del, fin := fin
      walk := by
        intro cur ch h
        cases h
        refine ⟨rfl, ?_⟩
        cases hd : s.d with
        | deleting k => exact Or.inl (del k hd).2.2.1
        | done => exact Or.inr ⟨(fin hd).1, rfl⟩ }
  · -- walking: the look-up below the loaded tail never finds anything, and nothing is published
    rename_i cur ch hf
    have hh : s.head = c.n + 1 := by simp [hf] at head; exact head
    have ht : s.has (c.n + 1) = true := top.2 (by rw [hf]; simp)
    obtain ⟨hch, hcur⟩ := walk cur ch hf
    subst hch
    have hnf : s.has (cur - 1) = false := by
      rcases hcur with rfl | ⟨rfl, hd⟩
      · exact below _ (by omega)
      · exact (fin hd).2.1 _ (by omega)
    rw [hnf] at hs
    simp at hs
    cases hs
    exact {
      below := below, above := above
      top := by show s.has (c.n + 1) = true ↔ FPc.done ≠ FPc.start; simp [ht]
      head := by show s.head = if FPc.done = FPc.start ∨ FPc.done = FPc.wrote then c.n else c.n + 1; simp [hh]
      del := del, fin := fin
      walk := by intro cur ch h; cases h }
  · cases hs

theorem inv_stepD (c : Cfg) (s s' : St) (h1 : 1 ≤ c.t0) (h2 : c.t0 < c.to) (h3 : c.to ≤ c.n)
    (hi : Inv c s) (hs : stepD c s = some s') : Inv c s' := by
  obtain ⟨below, above, top, head, del, fin, walk⟩ := hi
  unfold stepD at hs
  split at hs
  · rename_i k hd
    obtain ⟨a, b, t, lo, hi'⟩ := del k hd
    split at hs
    · -- delete height k
      rename_i hk
      cases hs
      exact {
        below := by
          intro h x
          show (if h = k then false else s.has h) = false
          split
          · rfl
          · exact below h x
        above := by
          intro h x
          show (if h = k then false else s.has h) = false
          split
          · rfl
          · exact above h x
        top := by
          show (if c.n + 1 = k then false else s.has (c.n + 1)) = true ↔ s.f ≠ FPc.start
          rw [if_neg (by omega)]; exact top
        head := head
        del := by
          intro k' hk'
          cases hk'
          refine ⟨by omega, by omega, t, ?_, ?_⟩
          · intro h x y
            show (if h = k then false else s.has h) = false
            split
            · rfl
            · exact lo h x (by omega)
          · intro h x y
            show (if h = k then false else s.has h) = true
            rw [if_neg (by omega)]; exact hi' h (by omega) y
        fin := by intro h; cases h
        walk := by
          intro cur ch hf
          obtain ⟨p, q⟩ := walk cur ch hf
          refine ⟨p, ?_⟩
          rcases q with q | ⟨_, q⟩
          · exact Or.inl q
          · rw [hd] at q; cases q }
    · -- setTail publishes `to`
      rename_i hk
      have : k = c.to := by omega
      subst this
      cases hs
      exact {
        below := below, above := above, top := top, head := head
        del := by intro k' hk'; cases hk'
        fin := by
          intro _
          refine ⟨rfl, ?_, hi'⟩
          intro h x
          by_cases y : h < c.t0
          · exact below h y
          · exact lo h (by omega) x
        walk := by
          intro cur ch hf
          obtain ⟨p, q⟩ := walk cur ch hf
          refine ⟨p, ?_⟩
          rcases q with q | ⟨q, _⟩
          · exact Or.inl q
          · exact Or.inr ⟨q, rfl⟩ }
  · cases hs

theorem inv_run (c : Cfg) (h1 : 1 ≤ c.t0) (h2 : c.t0 < c.to) (h3 : c.to ≤ c.n) (sched : List Bool) :
    Inv c (run c sched) := by
  unfold run
  suffices ∀ s, Inv c s → Inv c (sched.foldl (step c) s) from this _ (inv_init c h1 h2 h3)
  induction sched with
  | nil => intro s hs; exact hs
  | cons w ws ih =>
    intro s hs
    apply ih
    unfold step
    cases w
    · show Inv c (match stepD c s with | some s' => s' | none => s)
      cases e : stepD c s with
      | none => exact hs
      | some s' => exact inv_stepD c s s' h1 h2 h3 hs e
    · show Inv c (match stepF s with | some s' => s' | none => s)
      cases e : stepF s with
      | none => exact hs
      | some s' => exact inv_stepF c s s' h1 h2 h3 hs e

/-- **C17, tail-side delete racing an append**: under EVERY interleaving of the flush loop's accesses with the
deleter's, once both are done the Tail is the one the deleter set, the Head the one the appender reached, and
exactly the heights `to .. n+1` are readable: a gap-free chain, the result of either sequential order.  -/
theorem c17_tail_delete_racing_append_gap_free (c : Cfg) (h1 : 1 ≤ c.t0) (h2 : c.t0 < c.to) (h3 : c.to ≤ c.n)
    (sched : List Bool) (hf : (run c sched).f = .done) (hd : (run c sched).d = .done) :
    (run c sched).tail = c.to ∧ (run c sched).head = c.n + 1 ∧
    ∀ h, (run c sched).has h = true ↔ (c.to ≤ h ∧ h ≤ c.n + 1) := by
  have I := inv_run c h1 h2 h3 sched
  obtain ⟨t, lo, hi⟩ := I.fin hd
  refine ⟨t, by simp [I.head, hf], ?_⟩
  intro h
  by_cases a : h < c.to
  · rw [lo h a]; simp; intro; omega
  · by_cases b : h ≤ c.n
    · rw [hi h (by omega) b]; simp; omega
    · by_cases e : h = c.n + 1
      · subst e
        have : (run c sched).has (c.n + 1) = true := I.top.2 (by rw [hf]; simp)
        rw [this]; simp; omega
      · rw [I.above h (by omega)]; simp; intro; omega

/-- the flush loop never publishes a tail during the race (its `changed` flag stays false) -/
theorem c17_recede_never_stores_stale_tail (c : Cfg) (h1 : 1 ≤ c.t0) (h2 : c.t0 < c.to) (h3 : c.to ≤ c.n)
    (sched : List Bool) (cur : Nat) (ch : Bool) (h : (run c sched).f = .walking cur ch) : ch = false :=
  ((inv_run c h1 h2 h3 sched).walk cur ch h).1

/-- non-vacuity: a schedule with 4 flush-loop turns and `to - t0 + 1` deleter turns ends both actors -/
example : (run ⟨2, 5, 7⟩ [true, true, true, false, false, true, false, false]).f = .done ∧
    (run ⟨2, 5, 7⟩ [true, true, true, false, false, true, false, false]).d = .done ∧
    (run ⟨2, 5, 7⟩ [true, true, true, false, false, true, false, false]).tail = 5 ∧
    (run ⟨2, 5, 7⟩ [true, true, true, false, false, true, false, false]).head = 8 := by decide

end GoHeader.C17
