/-
  C08 — DeleteRange removes exactly the requested end of the chain, permanently.
  (state-level theorems about `Store.Seq.deleteRange`; `Good` = `Inv` ∧ no pointer without its end,
   which `Lemmas.Store.good_run` proves of every reachable state)
-/
import GoHeader.Lemmas.Store
import GoHeader.Store.DelCache
import GoHeader.Gen.Store
namespace GoHeader.C08
open GoHeader GoHeader.Store

/-- Tie T (regenerated `Gen.deleteBudget` = the expression `sub := …` in `deleteRangeRaw`, in Go's wrapping int64
    arithmetic): whatever the caller's deadline - `remaining` nanoseconds away, any non-negative int64, i.e. up to 292 years -
    the share DeleteRange spends on deleting is itself non-negative and no longer than the deadline. So no deadline makes a
    valid range undeletable by arithmetic alone ("DeleteRange accepts … a prefix, a suffix or the whole chain"). -/
theorem c08_tie_delete_budget (remaining : Int64) (h : 0 ≤ remaining) :
    0 ≤ Gen.deleteBudget remaining ∧ Gen.deleteBudget remaining ≤ remaining := by
  unfold Gen.deleteBudget
  have hr := Int64.le_iff_toInt_le.mp h
  have hb := Int64.toInt_lt remaining
  simp only [Int64.le_iff_toInt_le, Int64.toInt_mul, Int64.toInt_div]
  have e0 : Int64.toInt 0 = 0 := by decide
  have e100 : Int64.toInt 100 = 100 := by decide
  have e95 : Int64.toInt 95 = 95 := by decide
  rw [e0] at hr ⊢
  rw [e100, e95]
  generalize remaining.toInt = x at *
  have hq : x.tdiv 100 = x / 100 := Int.tdiv_eq_ediv_of_nonneg hr
  rw [hq]
  have h1 : (x / 100).bmod (2^64) = x / 100 := by
    apply Int.bmod_eq_of_le <;> omega
  rw [h1]
  have h2 : (x / 100 * 95).bmod (2^64) = x / 100 * 95 := by
    apply Int.bmod_eq_of_le <;> omega
  rw [h2]
  omega

/-- non-vacuity / the other direction: multiplying first wraps for a deadline five years away -/
example : (157680000000000000 : Int64) * 95 / 100 < 0 := by decide

/-- DeleteRange accepts only a prefix starting at Tail, a suffix ending at Head+1, or the whole chain. -/
theorem c08_shapes (s : St) (hg : Good s) (a b : Nat) (hok : (s.deleteRange a b).2 = .ok) :
    ∃ hd tl, s.syncedForDelete.head = some hd ∧ s.syncedForDelete.tail = some tl ∧ a < b ∧
      ((a = tl ∧ b ≤ hd + 1) ∨ (b = hd + 1 ∧ tl ≤ a)) := by
  have hs : Good s.syncedForDelete := good_sync s hg
  unfold St.deleteRange at hok
  rcases deleteSynced_spec _ hs.1 a b with ⟨_, e⟩ | ⟨k, stop, hk, _, _, _, _, _, _, _⟩
  · rw [e] at hok; cases hok
  · obtain ⟨hd, tl, eh, et, hab, hw, hts, hhs⟩ := delKind_spec _ hs.1 a b k hk
    refine ⟨hd, tl, eh, et, hab, ?_⟩
    cases k
    · have := hw rfl; omega
    · have := hts rfl; omega
    · have := hhs rfl; omega

/-- every other range is rejected with an error and no effect (beyond draining the write queue,
    which DeleteRange always does first). -/
theorem c08_reject_noeffect (s : St) (a b : Nat) (hrej : s.syncedForDelete.delKind a b = none) :
    s.deleteRange a b = (s.syncedForDelete, .err) := by
  unfold St.deleteRange St.deleteSynced; simp [hrej]

/-- when it returns nil, no header of the range is retrievable by height or by hash any more —
    whether it had been flushed or was still in the write batch; raw keys are gone too. -/
theorem c08_removed (s : St) (hg : Good s) (a b h : Nat) (hok : (s.deleteRange a b).2 = .ok)
    (h1 : a ≤ h) (h2 : h < b) :
    let s' := (s.deleteRange a b).1
    ¬ s'.present h ∧ s'.getByHeight h ≠ .found ∧ h ∉ s'.pending ∧ ¬ (h ∈ s'.idx ∧ h ∈ s'.hdr) := by
  intro s'
  have hs : Good s.syncedForDelete := good_sync s hg
  have hg' : Good s' := good_deleteRange s a b hg
  have hnp : ¬ s'.present h := by
    show ¬ (s.deleteRange a b).1.present h
    unfold St.deleteRange at hok ⊢
    rcases deleteSynced_spec _ hs.1 a b with ⟨_, e⟩ | ⟨k, stop, hk, _, _, hpres, hiff, hstop, _, _⟩
    · rw [e] at hok; cases hok
    · have : stop = b := hstop (hiff.mp hok)
      subst this
      intro hp; exact ((hpres h).mp hp).2 ⟨h1, h2⟩
  refine ⟨hnp, ?_, fun hp => hnp (Or.inl hp), fun hp => hnp (Or.inr hp)⟩
  have hl : s'.lookup h = false := by
    cases hl : s'.lookup h with
    | false => rfl
    | true => exact absurd ((lookup_eq_present_of_inv s' hg'.1 h).mp hl) hnp
  unfold St.getByHeight; simp [hl]; split <;> (try split) <;> simp

/-- every header outside the range is untouched — on success AND when it fails part-way. -/
theorem c08_outside_untouched (s : St) (hg : Good s) (a b h : Nat) (hout : ¬ (a ≤ h ∧ h < b)) :
    (s.deleteRange a b).1.present h ↔ s.syncedForDelete.present h := by
  have hs : Good s.syncedForDelete := good_sync s hg
  unfold St.deleteRange
  rcases deleteSynced_spec _ hs.1 a b with ⟨_, e⟩ | ⟨k, stop, hk, _, h2, hpres, _⟩
  · rw [e]
  · rw [hpres h]; constructor
    · exact fun x => x.1
    · exact fun x => ⟨x, fun hc => hout ⟨hc.1, by omega⟩⟩

/-- Head and Tail describe the remaining chain, also after a partial failure: the store invariant
    (ends resolve to stored headers, Tail ≤ Head, no gap, Height = Head) holds in every outcome. -/
theorem c08_pointers (s : St) (hg : Good s) (a b : Nat) : Inv (s.deleteRange a b).1 :=
  (good_deleteRange s a b hg).1

/-- the result is nil exactly when no OnDelete handler failed (given an accepted range) … -/
theorem c08_ok_iff_no_handler_failure (s : St) (hg : Good s) (a b : Nat) (k : Kind)
    (hk : s.syncedForDelete.delKind a b = some k) :
    (s.deleteRange a b).2 = .ok ↔ (s.syncedForDelete.delLoop a (b - a)).2 = none := by
  have hs : Good s.syncedForDelete := good_sync s hg
  unfold St.deleteRange
  rcases deleteSynced_spec _ hs.1 a b with ⟨e, _⟩ | ⟨k', stop, _, _, _, _, hiff, _⟩
  · rw [hk] at e; cases e
  · exact hiff

/-- … so retrying a deletion whose handlers no longer fail completes it. -/
theorem c08_retry_completes (s : St) (hg : Good s) (a b : Nat) (k : Kind)
    (hk : s.syncedForDelete.delKind a b = some k)
    (hno : (s.syncedForDelete.delLoop a (b - a)).2 = none) : (s.deleteRange a b).2 = .ok :=
  (c08_ok_iff_no_handler_failure s hg a b k hk).mpr hno

/-- none of the deleted headers reappears after later appends (of other heights), flushes,
    deletes or a restart: permanence over EVERY continuation. -/
theorem c08_permanent (s : St) (hg : Good s) (a b h : Nat) (hok : (s.deleteRange a b).2 = .ok)
    (h1 : a ≤ h) (h2 : h < b) (cont : List Op)
    (hcont : ∀ hs, Op.append hs ∈ cont → h ∉ hs) :
    ¬ (cont.foldl St.step (s.deleteRange a b).1).present h := by
  have hs : Good s.syncedForDelete := good_sync s hg
  have hg' : Good (s.deleteRange a b).1 := good_deleteRange s a b hg
  have hnm : ¬ (s.deleteRange a b).1.mentions h := by
    intro hm
    have hq : (s.deleteRange a b).1.queue = [] := by
      unfold St.deleteRange; rw [queue_deleteSynced _ hs.1.2.1]
      unfold St.syncedForDelete; exact queue_sync s
    unfold St.mentions at hm; rw [hq] at hm; simp at hm
    exact (c08_removed s hg a b h hok h1 h2).1 hm
  have key : ∀ (ops : List Op) (t : St), Good t → ¬ t.mentions h → (∀ hs, Op.append hs ∈ ops → h ∉ hs) →
      ¬ (ops.foldl St.step t).mentions h := by
    intro ops
    induction ops with
    | nil => intro t _ hn _; exact hn
    | cons o os ih =>
      intro t gt hn hc
      simp only [List.foldl_cons]
      apply ih _ (good_step t o gt)
      · intro hm
        rcases mentions_step t gt o h hm with hm' | ⟨hs', e, hin⟩
        · exact hn hm'
        · exact hc hs' (by simp [e]) hin
      · intro hs' hin; exact hc hs' (by simp [hin])
  exact fun hp => key cont _ hg' hnm hcont (Or.inl hp)

/-! non-vacuity: unflushed headers (batch 64 keeps everything pending) deleted at the tail, appended past, restarted -/
example : let s := St.run 64 [.append [1, 2, 3, 4, 5], .sync]
          (s.deleteRange 1 4).2 = .ok ∧ (s.deleteRange 1 4).1.tail = some 4 ∧
          (s.deleteRange 1 6).2 = .ok ∧ (s.deleteRange 1 6).1.head = none ∧ (s.deleteRange 1 6).1.pending = [] ∧
          (s.deleteRange 2 4).2 = .err := by
  decide

end GoHeader.C08

/-! ### deletion through a write batch against readers that fill the caches (all interleavings) -/
namespace GoHeader.C08
open GoHeader.Store.DelCache

/-- what the deleter has claimed so far is exactly `batch ++ todo = range` (up to order), and once committed the
    datastore has none of the batch -/
structure Inv (range : List Nat) (s : St) : Prop where
  cover : ∀ h, h ∈ range ↔ (h ∈ s.batch ∨ h ∈ s.todo)
  committed : 1 ≤ s.phase → s.todo = [] ∧ ∀ h ∈ s.batch, h ∉ s.ds
  done : s.phase = 2 → ∀ h ∈ s.batch, h ∉ s.cache
  phases : s.phase ≤ 2

theorem inv_init (stored range : List Nat) : Inv range (init stored range) where
  cover := by intro h; simp [init]
  committed := by intro h; simp [init] at h
  done := by intro h; simp [init] at h
  phases := by simp [init]

theorem inv_stepRead (range : List Nat) (s : St) (x : Nat) (h : Inv range s) : Inv range (stepRead s x) := by
  obtain ⟨cover, committed, done, phases⟩ := h
  unfold stepRead
  split
  · exact ⟨cover, committed, done, phases⟩
  · split
    · rename_i hc hd
      refine ⟨cover, committed, ?_, phases⟩
      intro hp y hy
      have hp' : s.phase = 2 := hp
      simp only [List.mem_cons, not_or]
      refine ⟨?_, done hp' y hy⟩
      intro e; subst e
      have := (committed (by omega)).2 y hy
      simp at hd; exact this hd
    · exact ⟨cover, committed, done, phases⟩

theorem inv_stepDel (range : List Nat) (s : St) (h : Inv range s) : Inv range (stepDel true s) := by
  obtain ⟨cover, committed, done, phases⟩ := h
  unfold stepDel
  split
  · rename_i x rest hp ht
    refine ⟨?_, ?_, ?_, ?_⟩
    · intro y; rw [cover y, ht]; simp; constructor
      · rintro (a | a | a)
        · exact Or.inl (Or.inr a)
        · exact Or.inl (Or.inl a)
        · exact Or.inr a
      · rintro ((a | a) | a)
        · exact Or.inr (Or.inl a)
        · exact Or.inl a
        · exact Or.inr (Or.inr a)
    · intro h1; simp [hp] at h1
    · intro h2; simp [hp] at h2
    · simp [hp]
  · rename_i hp ht
    refine ⟨cover, ?_, ?_, ?_⟩
    · intro _
      refine ⟨ht, ?_⟩
      intro y hy hmem
      simp at hmem
      exact hmem.2 hy
    · intro h2; simp at h2
    · simp
  · rename_i hp
    refine ⟨cover, ?_, ?_, ?_⟩
    · intro _
      exact committed (by omega)
    · intro _ y hy hmem
      simp at hmem
      exact hmem.2 hy
    · simp
  · exact ⟨cover, committed, done, phases⟩

theorem inv_step (range : List Nat) (s : St) (e : Ev) (h : Inv range s) : Inv range (step true s e) := by
  cases e with
  | del => exact inv_stepDel range s h
  | read x => exact inv_stepRead range s x h

theorem inv_run (stored range : List Nat) (evs : List Ev) : Inv range (run true stored range evs) := by
  unfold run
  suffices ∀ s, Inv range s → Inv range (evs.foldl (step true) s) from this _ (inv_init stored range)
  induction evs with
  | nil => intro s h; exact h
  | cons e es ih => intro s h; exact ih _ (inv_step range s e h)

/-- **after DeleteRange has returned, nothing of the range is left** — neither in the datastore nor in a cache — under
    EVERY interleaving of the deleter's steps with reads of any heights (repaired code) -/
theorem c08_deleted_is_gone_under_concurrent_reads (stored range : List Nat) (evs : List Ev) (hd : (run true stored range evs).phase = 2) :
    ∀ h ∈ range, h ∉ (run true stored range evs).ds ∧ h ∉ (run true stored range evs).cache := by
  intro h hr
  have I := inv_run stored range evs
  have hc := I.committed (by omega)
  have hb : h ∈ (run true stored range evs).batch := by
    rcases (I.cover h).1 hr with a | a
    · exact a
    · rw [hc.1] at a; cases a
  exact ⟨hc.2 h hb, I.done hd h hb⟩

/-- the code BEFORE the repair: a read of an already processed height while the batch is not committed yet leaves that
    header in the cache for good (finding F24) -/
theorem c08_stale_cache_before_repair :
    let s := run false [1, 2, 3] [1, 2] [.del, .read 1, .del, .del, .del]
    s.phase = 2 ∧ 1 ∈ s.cache ∧ 1 ∉ s.ds := by decide

example : (run true [1, 2, 3] [1, 2] [.del, .read 1, .del, .del, .del]).cache = [] := by decide

end GoHeader.C08
