/-
  C14 — OnDelete handlers run once per removed header, before it becomes unreadable.
  Statements about `Store.Seq.deleteRange` (sequential delete path; the parallel path for ranges of
  ≥ 10 000 headers is not modelled, see DESIGN.md).  Handlers are scripts: a handler either returns
  nil or fails (error or panic — the store's recover() wrapper turns both into an error).
-/
import GoHeader.Lemmas.StoreCalls
import GoHeader.Store.SnapRead
namespace GoHeader.C14
open GoHeader GoHeader.Store

/-- context-aware datastore (`Store.SnapRead`): whatever the flush loop and appenders do while a deletion runs - any
    sequence of flushes, appends and deletions of OTHER heights - a header of the range that was stored (datastore or
    pending batch) when the deletion opened its read transaction is found by its handler, which reads the datastore as
    it is now (the F34 repair) -/
theorem c14_handler_finds_header (disk pending : List Nat) (ops : List SnapRead.Op) (h : Nat)
    (hs : h ∈ disk ∨ h ∈ pending) (hd : ∀ o ∈ ops, o ≠ .delete h) :
    SnapRead.handlerFinds true (SnapRead.run (SnapRead.openTxn disk pending) ops) h = true :=
  SnapRead.handler_finds_current _ h (SnapRead.run_keeps ops _ h hs hd)

/-- before the repair the handler read through the deletion's snapshot: pending at the start, flushed meanwhile ⇒ not found -/
theorem c14_snapshot_misses_before_repair :
    SnapRead.handlerFinds false (SnapRead.run (SnapRead.openTxn [1] [2, 3]) [.delete 1, .append 4, .flush]) 2 = false :=
  SnapRead.snapshot_misses

/-- every handler call of a DeleteRange is for a height of the range and happens while that header
    is still readable through GetByHeight. -/
theorem c14_readable_at_call (s : St) (hg : Good s) (a b : Nat) (h0 : 0 < a) :
    ∀ c ∈ (s.syncedForDelete.delLoop a (b - a)).1.calls, a ≤ c.height ∧ c.height < a + (b - a) ∧ c.readable = true := by
  have hs : Good s.syncedForDelete := good_sync s hg
  obtain ⟨added, e, hall⟩ := delLoop_calls s.syncedForDelete hs.1.2.1 a (b - a) h0
  intro c hc
  rw [e] at hc
  have : s.syncedForDelete.calls = [] := rfl
  rw [this] at hc; simp at hc
  exact hall c hc

/-- when the range is deleted completely, each registered handler was called exactly once per
    stored header of the range: the log is, for the stored heights in ascending order, every handler
    in registration order. -/
theorem c14_once_per_removed (s : St) (hg : Good s) (a b : Nat)
    (hok : (s.syncedForDelete.delLoop a (b - a)).2 = none) :
    (s.syncedForDelete.delLoop a (b - a)).1.calls.map (fun c => (c.height, c.handler)) =
      expectedCalls (fun h => decide (h ∈ s.syncedForDelete.idx ∨ h ∈ s.syncedForDelete.pending))
        s.syncedForDelete.handlers.length a (b - a) := by
  have hs : Good s.syncedForDelete := good_sync s hg
  obtain ⟨added, e, hexp, _⟩ := delLoop_ok_log s.syncedForDelete hs.1.2.1 a (b - a) hok
  have : s.syncedForDelete.calls = [] := rfl
  rw [e, this]; simpa using hexp

/-- `expectedCalls` lists exactly the (stored height of the range, registered handler) pairs … -/
theorem c14_expected_mem (stored : Nat → Bool) (nh a n h i : Nat) :
    (h, i) ∈ expectedCalls stored nh a n ↔ (a ≤ h ∧ h < a + n ∧ stored h = true ∧ i < nh) := by
  induction n generalizing a with
  | zero => simp [expectedCalls]; omega
  | succ m ih =>
    simp only [expectedCalls, List.mem_append, ih (a + 1)]
    constructor
    · rintro (hm | hm)
      · split at hm
        · rename_i hs
          simp at hm
          obtain ⟨hi, rfl⟩ := hm
          exact ⟨Nat.le_refl _, by omega, hs, hi⟩
        · simp at hm
      · exact ⟨by omega, by omega, hm.2.2.1, hm.2.2.2⟩
    · rintro ⟨h1, h2, h3, h4⟩
      by_cases hha : h = a
      · subst hha; left; simp [h3, h4]
      · right; exact ⟨by omega, by omega, h3, h4⟩

/-- … each of them once. -/
theorem c14_expected_nodup (stored : Nat → Bool) (nh a n : Nat) : (expectedCalls stored nh a n).Nodup := by
  induction n generalizing a with
  | zero => simp [expectedCalls]
  | succ m ih =>
    simp only [expectedCalls]
    rw [List.nodup_append]
    refine ⟨?_, ih (a + 1), ?_⟩
    · split
      · rw [List.Nodup, List.pairwise_map]
        exact (List.nodup_range' (s := 0) (n := nh)).imp (fun hne e => hne (by simpa using e))
      · simp
    · intro x hx y hy
      obtain ⟨h, i⟩ := y
      have hy' := (c14_expected_mem stored nh (a + 1) m h i).mp hy
      split at hx
      · simp at hx; obtain ⟨j, _, rfl⟩ := hx
        intro e; cases e; omega
      · simp at hx

/-- if a handler returns an error or panics at height `h`, that header is not removed and remains
    readable, DeleteRange returns the error (never crashes), and everything below `h` that was
    removed had all its handlers succeed. -/
theorem c14_failure_keeps_header (s : St) (hg : Good s) (a b h : Nat) (k : Kind)
    (hk : s.syncedForDelete.delKind a b = some k)
    (hf : (s.syncedForDelete.delLoop a (b - a)).2 = some h) :
    (s.deleteRange a b).2 = .err ∧ (s.deleteRange a b).1.present h ∧ a ≤ h ∧ h < b ∧
      (∀ j, (s.deleteRange a b).1.present j ↔ s.syncedForDelete.present j ∧ ¬ (a ≤ j ∧ j < h)) := by
  have hs : Good s.syncedForDelete := good_sync s hg
  obtain ⟨stop, s1, s2, _, s4, d⟩ := delLoop_spec s.syncedForDelete hs.1.2.1 a (b - a)
  obtain ⟨e1, e2, hph⟩ := s4 h hf
  unfold St.deleteRange
  rcases deleteSynced_spec _ hs.1 a b with ⟨e, _⟩ | ⟨k', stop', _, t1, t2, hpres, hiff, _, hsome, _⟩
  · rw [hk] at e; cases e
  · obtain ⟨e3, e4⟩ := hsome h hf
    subst e3
    refine ⟨?_, ?_, t1, e4, hpres⟩
    · cases hr : (s.syncedForDelete.deleteSynced a b).2 with
      | ok => rw [hiff.mp hr] at hf; cases hf
      | err => rfl
    · exact (hpres h).mpr ⟨hph, by omega⟩

/-- a retry invokes the handlers for the failed header again: after a failed tail-side deletion the
    header that failed is still stored, so a new DeleteRange covering it runs its handlers again. -/
theorem c14_retry_calls_again (s : St) (hc : Coh s) (h n : Nat) (hin : h ∈ s.idx ∨ h ∈ s.pending)
    (hne : s.handlers ≠ []) :
    (s.delLoop h (n + 1)).1.calls.length > s.calls.length := by
  unfold St.delLoop
  simp only [hin, if_true]
  have hfirst : 1 ≤ (runHandlers s h s.handlers 0).2.1.length := by
    cases hh : s.handlers with
    | nil => exact absurd hh hne
    | cons x xs => unfold runHandlers; split <;> simp
  split
  · have hc1 : Coh ((s.afterHandlers h).delOne h) := coh_delOne _ _ (by simpa [St.afterHandlers, Coh] using hc)
    obtain ⟨added, e, _⟩ := delLoop_calls ((s.afterHandlers h).delOne h) hc1 (h + 1) n (by omega)
    rw [e]; simp [St.delOne, St.afterHandlers]; omega
  · simp [St.afterHandlers]; omega

/-! non-vacuity: two handlers, the second fails on its 3rd call (height 3); retry without failure completes -/
example : let s := St.run 2 [.onDelete [], .onDelete [2], .append [1, 2, 3, 4, 5], .sync]
          (s.deleteRange 1 5).2 = .err ∧ (s.deleteRange 1 5).1.tail = some 3 ∧
          (s.deleteRange 1 5).1.getByHeight 3 = .found ∧
          (s.deleteRange 1 5).1.calls.map (fun c => (c.height, c.handler, c.readable)) =
            [(1, 0, true), (1, 1, true), (2, 0, true), (2, 1, true), (3, 0, true), (3, 1, true)] ∧
          ((s.deleteRange 1 5).1.deleteRange 3 5).2 = .ok := by
  decide

end GoHeader.C14
