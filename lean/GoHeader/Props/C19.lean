/-
  C19 — Syncer.Head is fresh, monotone and never adopts an expired header.
-/
import GoHeader.Sync.Head
import GoHeader.Sync.TailInit
import GoHeader.Gen.Sync
namespace GoHeader.C19
open GoHeader GoHeader.SHead

/-- concurrent callers on an EMPTY store (`Sync.TailInit`): they share the head request; as long as no fetch of the first
    tail header fails, no caller fails, however their arrivals interleave with the fetch (the F35 repair: wait, do not skip) -/
theorem c19_concurrent_init_all_ok (evs : List TailInit.Ev) (he : ∀ e ∈ evs, e ≠ .finish false) :
    TailInit.AllOk (TailInit.run true {} evs) :=
  TailInit.run_allok evs {} (by intro p hp; cases hp) he

/-- before the repair the second caller found the store still empty and failed -/
theorem c19_concurrent_init_before_repair :
    (TailInit.run false {} [.arrive 0, .arrive 1, .finish true]).results = [(1, false), (0, true)] :=
  TailInit.old_second_caller_fails

/-- Tier A ties: the expiry / recency predicates regenerated from syncer_head.go are the model's -/
theorem c19_tie_isExpired : Gen.isExpired = isExpired := rfl
theorem c19_tie_isRecent : Gen.isRecent = isRecent := rfl

/-- a recent (and not expired) subjective head is returned without any network traffic -/
theorem c19_recent_no_request (c : Cfg) (now : Int) (s : H) (a1 a2 : PeerAns)
    (hne : expired c now s = false) (hr : recent c now s = true) :
    headCall c now (some s) a1 a2 = { result := some s, subj := some s, reqs := [] } := by
  simp [headCall, needInit, hne, hr]

/-- a stale (not expired) one triggers exactly one head request, carrying the subjective head as TrustedHead -/
theorem c19_stale_one_request (c : Cfg) (now : Int) (s : H) (a1 a2 : PeerAns)
    (hne : expired c now s = false) (hr : recent c now s = false) :
    (headCall c now (some s) a1 a2).reqs = [.trusted s.height] := by
  simp only [headCall, needInit, hne, hr]
  cases a2 with
  | fail => simp
  | ok h => simp; split <;> simp
  | soft h b => simp; split <;> (try split) <;> simp

/-- no downgrade: with a non-expired subjective head the result and the new subjective head are
    never below it — the heights returned by successive calls never decrease -/
theorem c19_monotone (c : Cfg) (now : Int) (s : H) (a1 a2 : PeerAns) (hne : expired c now s = false) :
    ∃ r, (headCall c now (some s) a1 a2).result = some r ∧ s.height ≤ r.height ∧
      (headCall c now (some s) a1 a2).subj = some r := by
  simp only [headCall, needInit, hne]
  by_cases hr : recent c now s = true
  · simp [hr]
  · simp only [hr]
    cases a2 with
    | fail => simp
    | ok h =>
      simp only
      by_cases hle : h.height ≤ s.height
      · simp [hle]
      · simp [hle]; omega
    | soft h b =>
      cases b with
      | false => simp
      | true =>
        simp only
        by_cases hle : h.height ≤ s.height
        · simp [hle]
        · simp [hle]; omega

/-- (re)initialisation — empty store or expired stored head — adopts only a head from trusted peers
    that is itself not expired, and otherwise fails with an error and leaves the subjective head alone.  In
    particular the expired stored head is never handed out as a result (F29 repair). -/
theorem c19_init_not_expired (c : Cfg) (now : Int) (subj : Option H) (a1 a2 : PeerAns)
    (hinit : subj = none ∨ ∃ s, subj = some s ∧ expired c now s = true) :
    let o := headCall c now subj a1 a2
    o.reqs = [.init] ∧
    (∀ r, o.result = some r → a1 = .ok r ∧ expired c now r = false ∧ o.subj = some r) ∧
    (o.result = none → o.subj = subj) := by
  intro o
  have hneed : needInit c now subj = true := by
    rcases hinit with rfl | ⟨s, rfl, hs⟩ <;> simp [needInit, *]
  simp only [o, headCall, hneed]
  cases a1 with
  | fail => simp
  | soft h b => simp
  | ok h =>
    by_cases he : expired c now h = true
    · simp [he]
    · have he' : expired c now h = false := by simpa using he
      simp only [he', Bool.false_eq_true, if_false]
      cases subj with
      | none => simp [he']
      | some s =>
        by_cases hgt : h.height > s.height
        · simp [hgt, he']
        · simp [hgt]

/-- an expired header is never adopted on (re)initialisation -/
theorem c19_never_adopts_expired (c : Cfg) (now : Int) (a2 : PeerAns) (h : H) (he : expired c now h = true) :
    (headCall c now none (.ok h) a2).result = none ∧ (headCall c now none (.ok h) a2).subj = none := by
  simp [headCall, needInit, he]

/-- single flight: while a head request is in flight, further callers do not start another one … -/
theorem c19_singleflight_requests (s : SF) (c l : Nat) (h : s.inflight = some l) :
    (s.step (.enter c)).requests = s.requests ∧ (s.step (.enter c)).inflight = some l := by
  simp [SF.step, h]

/-- … and all of them return the result of that single request -/
theorem c19_singleflight_shared (s : SF) (l a : Nat) (h : s.inflight = some l) :
    ∀ w ∈ s.waiting, (w, a) ∈ (s.step (.finish a)).results := by
  intro w hw
  simp only [SF.step, h, List.mem_append, List.mem_cons, List.mem_map]
  right; right; exact ⟨w, hw, rfl⟩

example : (SF.run [.enter 1, .enter 2, .enter 3, .finish 7, .enter 4, .finish 9]).requests = 2 := by decide
example : (SF.run [.enter 1, .enter 2, .enter 3, .finish 7]).results = [(1, 7), (2, 7), (3, 7)] := by decide
example : (headCall ⟨3600, 10, 30⟩ 1000 (some ⟨20, 900⟩) .fail (.ok ⟨25, 990⟩)).result = some ⟨25, 990⟩ := by decide
example : (headCall ⟨3600, 10, 30⟩ 10000 (some ⟨20, 900⟩) (.ok ⟨25, 990⟩) .fail).result = none := by decide

/-- **C19 monotone, concurrent form**: whatever the trusted peers answer to a request that was in flight while the
    subjective head advanced from `s0` to `s1`, the caller is handed at least `s1` — i.e. at least what any other
    caller may already have been given in the meantime (fixed by the F22 repair; before it the snapshot `s0` was
    returned on failure). -/
theorem c19_monotone_inflight (s0 s1 : H) (ans : PeerAns) (h01 : s0.height ≤ s1.height) :
    s1.height ≤ (headCallInflight s0 s1 ans).height := by
  unfold headCallInflight
  cases ans with
  | fail => simp only []; split <;> omega
  | ok h => simp only []; split <;> split <;> omega
  | soft h b => simp only []; split <;> split <;> omega

example : (headCallInflight ⟨20, 0⟩ ⟨60, 5⟩ .fail).height = 60 := by decide
example : (headCallInflight ⟨20, 0⟩ ⟨60, 5⟩ (.ok ⟨40, 3⟩)).height = 60 := by decide

end GoHeader.C19
