/-
  C12 — GetByHeight waits for a future height and wakes once that header is stored.
  Statements about the hook-granular reader × flusher system `Store.Conc`, for ALL schedules (lists
  of scheduler events), any number of readers, any batches (contiguous, gapped, out of order).
-/
import GoHeader.Lemmas.Conc
import GoHeader.Store.HeightSub
namespace GoHeader.C12
open GoHeader GoHeader.Conc

/-- a store WITHOUT a head (fresh, or emptied by a whole-chain DeleteRange) receives its first batch a..b
    (`Store.HeightSub`: Init(a), Notify(a..b), SetHeight(b)): whoever was parked, on whatever heights, nobody is left
    waiting for a height at or below b - in particular not the waiter of the first height itself, which Init does not release -/
theorem c12_first_batch_no_lost_wakeup (s : HeightSub.St) (a b : Nat) (hab : a ≤ b) :
    ∀ x ∈ (HeightSub.firstBatch s a b).subs, b < x :=
  HeightSub.firstBatch_releases s a b hab

/-- ... and a reader arriving afterwards for a height of the batch is not parked at all -/
theorem c12_first_batch_then_elapsed (s : HeightSub.St) (a b x : Nat) (hab : a ≤ b) (hx : x ≤ b) :
    (HeightSub.register (HeightSub.firstBatch s a b) x).2 = false :=
  HeightSub.firstBatch_elapsed s a b x hab hx

/-- No lost wake-up: in every reachable state in which the flusher has worked off its batch, no
    reader is parked on a height that is stored — whether or not it is contiguous with Head, and
    however the append interleaved with the reader's lookup / registration. -/
theorem c12_no_lost_wakeup (evs : List Ev) (hidle : (run evs).fpc = .idle) :
    ∀ r ∈ (run evs).readers, r.pc = .parked → r.h ∉ (run evs).stored := by
  intro r hr hp
  rcases (inv_run evs).parked r hr hp with h | h
  · exact h
  · simp [OwesNotify, hidle] at h

/-- a reader returns `found` only for a height that is stored -/
theorem c12_found_is_stored (evs : List Ev) :
    ∀ r ∈ (run evs).readers, r.pc = .done .found → r.h ∈ (run evs).stored :=
  (inv_run evs).found

/-- a height at or below Height() that is not stored is answered ErrNotFound promptly: the reader
    goes lookup → elapsed → lookup without ever parking -/
theorem c12_prompt_notfound (s : St) (i : Nat) (r : Reader) (hr : s.readers[i]? = some r)
    (hpc : r.pc = .start) (hle : r.h ≤ s.hs) (hns : s.stored.contains r.h = false) :
    ∃ s1 s2 s3, stepR s i false = some s1 ∧ stepR s1 i false = some s2 ∧ stepR s2 i false = some s3 ∧
      s3.readers[i]? = some { r with pc := .done .notFound } := by
  have hlt : i < s.readers.length := by
    rcases List.getElem?_eq_some_iff.mp hr with ⟨h, _⟩; exact h
  have hnm : r.h ∉ s.stored := by simpa using hns
  refine ⟨{ s with readers := s.readers.set i { r with pc := .missed } },
          { s with readers := (s.readers.set i { r with pc := .missed }).set i { r with pc := .woken } },
          { s with readers := ((s.readers.set i { r with pc := .missed }).set i { r with pc := .woken }).set i { r with pc := .done .notFound } },
          ?_, ?_, ?_, ?_⟩
  · simp [stepR, hr, hpc, hnm]
  · simp [stepR, hlt, hle]
  · simp [stepR, hlt, hnm]
  · simp [hlt]

/-- a cancelled context always releases a parked caller (one step), and nobody else is affected -/
theorem c12_cancel_releases (s : St) (i : Nat) (r : Reader) (hr : s.readers[i]? = some r) (hpc : r.pc = .parked) :
    stepR s i true = some { s with readers := s.readers.set i { r with pc := .done .ctxErr } } := by
  simp [stepR, hr, hpc]

/-- a parked reader whose height gets appended IS woken: after the flusher's Notify step for a batch
    containing its height it is no longer parked -/
theorem c12_notify_wakes (s : St) (b : List Nat) (hf : s.fpc = .inited b) (s' : St) (hs : stepF s = some s') :
    ∀ r ∈ s'.readers, r.pc = .parked → r.h ∉ b := by
  unfold stepF at hs
  simp only [hf, Option.some.injEq] at hs; subst hs
  intro r hr hp
  obtain ⟨_, hnp⟩ := wake_parked (fun h => b.contains h) s.readers r hr hp
  simpa using hnp

/-! non-vacuity: the lost-wake-up schedule of finding F11 (reader misses, the NON-contiguous header is
    appended and notified before the reader registers) — with the re-check after registration the
    reader finds it -/
example : let s := run [.append [1], .flusher, .flusher, .flusher, .flusher, .flusher, .flusher,
                        .call 9, .reader 0,                 -- first lookup misses
                        .append [9], .flusher, .flusher, .flusher,   -- Append(9): pending, ensureInit, Notify
                        .reader 0, .reader 0,               -- fast check, register
                        .reader 0, .reader 0]               -- re-check finds it, second lookup
          s.readers = [⟨9, .done .found⟩] ∧ s.head = some 1 := by decide

end GoHeader.C12
