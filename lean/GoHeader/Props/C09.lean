/-
  C09 — Exchange.Head returns the quorum/highest head and honours the trusted head.
-/
import GoHeader.P2P.Head
import GoHeader.Gen.P2P
namespace GoHeader.C09
open GoHeader GoHeader.P2P

/-- Tier A: the quorum rule regenerated from exchange.go is the model's -/
theorem c09_tie_minHeadResponses : Gen.minHeadResponses = minHeadResponses := by
  funext n; unfold Gen.minHeadResponses minHeadResponses; simp

/-- quorum arithmetic for EVERY peer count: all of them for one or two peers, otherwise the least
    count that is at least two thirds -/
theorem c09_quorum_arith (n : Nat) :
    (n ≤ 2 → minHeadResponses n = n) ∧
    (3 ≤ n → 3 * minHeadResponses n ≥ 2 * n ∧ 3 * (minHeadResponses n - 1) < 2 * n ∧ minHeadResponses n ≤ n) := by
  unfold minHeadResponses
  constructor
  · intro h; simp [h]
  · intro h
    have : ¬ n ≤ 2 := by omega
    simp only [this, if_false]
    omega

theorem highest_none (l : List (Nat × Nat × Bool)) (h : highest l = none) : l = [] := by
  cases l with
  | nil => rfl
  | cons a as => unfold highest at h; split at h <;> (try split at h) <;> simp at h

theorem highest_mem (l : List (Nat × Nat × Bool)) (x) (h : highest l = some x) : x ∈ l := by
  induction l generalizing x with
  | nil => simp [highest] at h
  | cons a as ih =>
    unfold highest at h
    split at h
    · simp at h; subst h; simp
    · rename_i y hy
      split at h
      · simp at h; subst h; exact List.mem_cons_of_mem _ (ih y hy)
      · simp at h; subst h; simp

theorem highest_max (l : List (Nat × Nat × Bool)) (x) (h : highest l = some x) : ∀ y ∈ l, y.2.1 ≤ x.2.1 := by
  induction l generalizing x with
  | nil => simp [highest] at h
  | cons a as ih =>
    unfold highest at h
    split at h
    · rename_i hn
      simp at h; subst h
      have := highest_none as hn; subst this
      intro y hy; simp at hy; subst hy; exact Nat.le_refl _
    · rename_i z hz
      intro y hy
      simp only [List.mem_cons] at hy
      split at h
      · simp at h; subst h
        rcases hy with rfl | hy
        · omega
        · exact ih z hz y hy
      · simp at h; subst h
        rcases hy with rfl | hy
        · exact Nat.le_refl _
        · have := ih z hz y hy; omega

/-- every header `collect` returns was reported by some peer, with that soft flag -/
theorem collect_found_mem (n : Nat) (as : List Ans) (acc : List (Nat × Nat × Bool)) (got id h : Nat) (s : Bool)
    (hr : collect n as acc got = .found id h s) : (id, h, s) ∈ acc ∨ Ans.hdr id h s ∈ as := by
  induction as generalizing acc got with
  | nil =>
    unfold collect at hr
    split at hr
    · cases hr
    · split at hr
      · cases hr
      · rename_i x hx
        simp at hr; obtain ⟨rfl, rfl, rfl⟩ := hr
        exact Or.inl (highest_mem acc _ hx)
  | cons a rest ih =>
    cases a with
    | zero =>
      unfold collect at hr
      rcases ih acc (got + 1) hr with h1 | h1
      · exact Or.inl h1
      · exact Or.inr (List.mem_cons_of_mem _ h1)
    | hdr id' h' s' =>
      unfold collect at hr
      simp only at hr
      split at hr
      · simp at hr; obtain ⟨rfl, rfl, rfl⟩ := hr; exact Or.inr (by simp)
      · rcases ih _ _ hr with h1 | h1
        · simp at h1
          rcases h1 with h1 | h1
          · exact Or.inl h1
          · obtain ⟨rfl, rfl, rfl⟩ := h1; exact Or.inr (by simp)
        · exact Or.inr (List.mem_cons_of_mem _ h1)

/-- With WithTrustedHead: a returned header never failed verification hard; nil error ⇒ it passed
    Verify against the trusted head; otherwise it is paired with its own soft failure.  Without it
    the header is simply one that a peer reported. -/
theorem c09_trusted (useTracked : Bool) (n : Nat) (arrival : List PeerResp) (id h : Nat) (s : Bool)
    (hr : head useTracked n arrival = .found id h s) :
    ∃ v, PeerResp.head id h v ∈ arrival ∧
      (useTracked = true → (v ≠ .hard ∧ (s = false → v = .ok) ∧ (s = true → v = .soft))) ∧
      (useTracked = false → s = false) := by
  unfold head at hr
  rcases collect_found_mem n _ [] 0 id h s hr with h1 | h1
  · simp at h1
  · simp only [List.mem_filterMap] at h1
    obtain ⟨r, hr1, hr2⟩ := h1
    cases r with
    | fail => simp [classify] at hr2
    | hang => simp [classify] at hr2
    | head id' h' v =>
      unfold classify at hr2
      cases useTracked with
      | false =>
        simp at hr2; obtain ⟨rfl, rfl, rfl⟩ := hr2
        exact ⟨v, hr1, by simp, by simp⟩
      | true =>
        cases v <;> simp at hr2
        · obtain ⟨rfl, rfl, rfl⟩ := hr2; exact ⟨.ok, hr1, by simp, by simp⟩
        · obtain ⟨rfl, rfl, rfl⟩ := hr2; exact ⟨.soft, hr1, by simp, by simp⟩

/-- nobody supplied a usable header ⇒ ErrNotFound with a zero header (when everybody answered) -/
theorem c09_none (n : Nat) (as : List Ans) (hall : ∀ a ∈ as, a = .zero) (hlen : as.length = n) :
    collect n as [] 0 = .notFound := by
  have gen : ∀ (as : List Ans) (got : Nat), (∀ a ∈ as, a = .zero) → got + as.length = n →
      collect n as [] got = .notFound := by
    intro as
    induction as with
    | nil => intro got _ hl; simp at hl; subst hl; simp [collect, highest]
    | cons a rest ih =>
      intro got ha hl
      have : a = .zero := ha a (by simp)
      subst this
      unfold collect
      exact ih (got + 1) (fun x hx => ha x (List.mem_cons_of_mem _ hx)) (by simp at hl; omega)
  exact gen as 0 hall (by omega)

/-- the quorum header is returned as soon as it exists: at the arrival that brings some hash to
    `minHeadResponses n` reports, without waiting for the remaining answers -/
theorem c09_first_quorum (n : Nat) (pre : List Ans) (acc : List (Nat × Nat × Bool)) (got id h : Nat) (s : Bool)
    (rest : List Ans)
    (hq : countId (acc ++ [(id, h, s)]) id ≥ minHeadResponses n) :
    collect n (.hdr id h s :: rest) acc got = .found id h s := by
  unfold collect; simp [hq]

/-- no quorum and everybody answered ⇒ the highest reported header -/
theorem c09_fallback_highest (n : Nat) (acc : List (Nat × Nat × Bool)) (id h : Nat) (s : Bool)
    (hr : collect n [] acc n = .found id h s) : ∀ y ∈ acc, y.2.1 ≤ h := by
  unfold collect at hr
  simp at hr
  split at hr
  · cases hr
  · rename_i x hx
    simp at hr; obtain ⟨rfl, rfl, rfl⟩ := hr
    exact highest_max acc _ hx

example : head false 3 [.head 7 10 .ok, .head 8 12 .ok, .head 7 10 .ok] = .found 7 10 false := by decide
example : head false 3 [.head 7 10 .ok, .fail, .head 8 12 .ok] = .found 8 12 false := by decide
example : head true 2 [.head 7 10 .soft, .head 7 10 .soft] = .found 7 10 true := by decide
example : head true 2 [.head 7 10 .hard, .fail] = .notFound := by decide
example : head false 3 [.head 7 10 .ok, .hang, .head 8 12 .ok] = .ctxErr := by decide

end GoHeader.C09
