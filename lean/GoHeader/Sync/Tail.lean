/-
  GoHeader.Sync.Tail — hand model of the tail arithmetic in /repo/sync/syncer_tail.go.
  `estimateTailHeight` and the straight-line part of `findTailHeight` (`tailEstimate`) are ALSO
  regenerated from the Go source on every run (Gen/Tail.lean); Props/C16 proves the two equal.
  `uint64` ↦ `UInt64` (wrapping), `time.Duration` and times ↦ `Int64` nanoseconds.
-/
import GoHeader.Prelude
import GoHeader.GoSem
namespace GoHeader.Tail

def estimateTailHeight (trustingPeriod blockTime : Int64) (head_height : UInt64) : Outcome UInt64 :=
  if decide (blockTime ≤ 0) then (.val 1) else
  if blockTime == 0 then .panic else
  let headersToRetain := (Int64.toUInt64 (trustingPeriod / blockTime))
  if decide (headersToRetain ≥ head_height) then (.val 1) else
  (.val (head_height - headersToRetain))

def tailEstimate (PruningWindow blockTime : Int64) (oldTail_height : UInt64) (oldTail_time : Int64)
    (head_height : UInt64) (head_time : Int64) : Outcome TailEst :=
  let window := PruningWindow
  let expectedTailTime := (head_time + (-window))
  let currentTailTime := oldTail_time
  let tailTimeDiff := (expectedTailTime - currentTailTime)
  if decide (blockTime ≤ 0) then (.val (TailEst.done oldTail_height)) else
  let estimatedTailHeight : UInt64 := 0
  if decide (tailTimeDiff ≤ 0) then
    (.val (TailEst.done oldTail_height))
  else if decide (tailTimeDiff ≥ window) then
    if blockTime == 0 then .panic else
    let headersToStore := (Int64.toUInt64 (window / blockTime))
    let estimatedTailHeight := if decide (headersToStore < head_height) then (head_height - headersToStore) else estimatedTailHeight
    let estimatedTailHeight := if decide (estimatedTailHeight < oldTail_height) then oldTail_height else estimatedTailHeight
    let estimatedTailHeight := if decide (estimatedTailHeight > head_height) then head_height else estimatedTailHeight
    let newTailHeight := estimatedTailHeight
    (.val (TailEst.walk newTailHeight expectedTailTime))
  else if decide (tailTimeDiff < window) then
    if blockTime == 0 then .panic else
    let headersToStore := (Int64.toUInt64 (tailTimeDiff / blockTime))
    let estimatedTailHeight := (oldTail_height + headersToStore)
    let estimatedTailHeight := if decide (estimatedTailHeight < oldTail_height) then oldTail_height else estimatedTailHeight
    let estimatedTailHeight := if decide (estimatedTailHeight > head_height) then head_height else estimatedTailHeight
    let newTailHeight := estimatedTailHeight
    (.val (TailEst.walk newTailHeight expectedTailTime))
  else let estimatedTailHeight := if decide (estimatedTailHeight < oldTail_height) then oldTail_height else estimatedTailHeight
    let estimatedTailHeight := if decide (estimatedTailHeight > head_height) then head_height else estimatedTailHeight
    let newTailHeight := estimatedTailHeight
    (.val (TailEst.walk newTailHeight expectedTailTime))

/-- the walk loop of `findTailHeight`: from the estimate upwards while the stored header is older
    than the expected tail time; `timeAt h` is the time of the stored header at height `h` -/
def walk (timeAt : Nat → Option Int64) (oldTailH storeH : Nat) (expected : Int64) : Nat → Nat → Option Nat
  | 0, h => some h
  | fuel+1, h =>
    if h > oldTailH ∧ h < storeH then
      match timeAt h with
      | none => none                               -- store.GetByHeight failed
      | some t => if expected ≤ t then some h else walk timeAt oldTailH storeH expected fuel (h + 1)
    else some h

/-- the downward walk of `findTailHeight`: from the estimate downwards while the header BELOW is still
    inside the window (its time is not before the expected tail time), never below the old tail and only where
    the store has the header below (`h - 1 ≤ storeH`) -/
def walkDown (timeAt : Nat → Option Int64) (oldTailH storeH : Nat) (expected : Int64) : Nat → Nat → Option Nat
  | 0, h => some h
  | fuel+1, h =>
    if h > oldTailH ∧ h - 1 ≤ storeH then
      match timeAt (h - 1) with
      | none => none                               -- store.GetByHeight failed
      | some t => if t < expected then some h else walkDown timeAt oldTailH storeH expected fuel (h - 1)
    else some h

/-- both loops: down first, then up -/
def walkBoth (timeAt : Nat → Option Int64) (oldTailH storeH : Nat) (expected : Int64) (n : Nat) : Option Nat :=
  match walkDown timeAt oldTailH storeH expected (n + 1) n with
  | none => none
  | some d => walk timeAt oldTailH storeH expected (storeH + 1) d

/-- `findTailHeight` -/
def findTailHeight (window blockTime : Int64) (timeAt : Nat → Option Int64) (oldTailH : UInt64) (oldTailT : Int64)
    (headH : UInt64) (headT : Int64) (storeH : Nat) : Outcome (Option Nat) :=
  match tailEstimate window blockTime oldTailH oldTailT headH headT with
  | .panic => .panic
  | .val (.done h) => .val (some h.toNat)
  | .val (.walk n expected) => .val (walkBoth timeAt oldTailH.toNat storeH expected n.toNat)

end GoHeader.Tail
