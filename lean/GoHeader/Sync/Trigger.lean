/-
  The hand-over between `setLocalHead` (gossip handler, `Head()`) and the sync loop:
      setLocalHead:  pending.Add(x) ; wantSync()            -- wantSync = non-blocking send on a 1-buffered channel
      syncLoop:      <-triggerSync ; to := pending.Head() ; sync up to `to` ; pending.Remove(≤ to)
  `trig` is the channel's buffer.  Any number of setters run concurrently with the one loop.
-/
namespace GoHeader.SyncTrigger

inductive GPc
  | idle
  | add (x : Nat)      -- verified head x, about to be put into `pending`
  | fire               -- added, about to call wantSync
  deriving Repr, DecidableEq

inductive LPc
  | idle
  | read               -- trigger consumed, about to read the target
  | sync (to : Nat)    -- syncing up to `to`
  | clean (to : Nat)   -- synced, about to remove the pending heights ≤ to
  deriving Repr, DecidableEq

structure St where
  sh   : Nat           -- store head
  pend : List Nat      -- pending (verified, not yet synced) heads
  trig : Bool
  gs   : List GPc      -- the setters (gossip handler, Head() callers …)
  l    : LPc

def maxOf : List Nat → Nat
  | [] => 0
  | x :: xs => max x (maxOf xs)

/-- setter `i` moves; `x` = the head it is handed when idle -/
def stepG (s : St) (i : Nat) (x : Nat) : St :=
  match s.gs[i]? with
  | none => s
  | some .idle => if x > s.sh then { s with gs := s.gs.set i (.add x) } else s
  | some (.add y) => { s with pend := y :: s.pend, gs := s.gs.set i .fire }
  | some .fire => { s with trig := true, gs := s.gs.set i .idle }

/-- the sync loop moves (the getter is honest: a sync reaches its target) -/
def stepL (s : St) : St :=
  match s.l with
  | .idle => if s.trig then { s with trig := false, l := .read } else s
  | .read => if maxOf s.pend > s.sh then { s with l := .sync (maxOf s.pend) } else { s with l := .idle }
  | .sync to => { s with sh := max s.sh to, l := .clean to }
  | .clean to => { s with pend := s.pend.filter (· > to), l := .idle }

inductive Ev | g (i : Nat) (x : Nat) | l
def step (s : St) : Ev → St
  | .g i x => stepG s i x
  | .l => stepL s

def init (sh : Nat) (n : Nat) : St := { sh := sh, pend := [], trig := false, gs := List.replicate n .idle, l := .idle }
def run (sh n : Nat) (evs : List Ev) : St := evs.foldl step (init sh n)

end GoHeader.SyncTrigger
