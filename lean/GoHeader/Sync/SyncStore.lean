/-
  GoHeader.Sync.SyncStore — the Syncer's cached store head (/repo/sync/sync_store.go):
      Head():    if cache != nil return *cache ; v := Store.Head() ; [publish v] ; return …
      Append(h): head := Head() ; adjacency check ; cache := h ; Store.Append(h)
  Callers of Head() that found the cache empty are between their read of the store and the publication; appends of the next
  adjacent header (gossip handler, sync loop) run concurrently.  Before the repair of F43 the publication was a plain
  store, after it a compare-and-swap from nil (the loser returns what is cached).
-/
namespace GoHeader.SyncStore

inductive RPc
  | idle
  | read (v : Nat)     -- found the cache empty, has read store head v, about to publish
  deriving Repr, DecidableEq

structure St where
  store : Nat
  cache : Option Nat
  rs : List RPc
  results : List Nat := []     -- what completed Head() calls returned, oldest first
  deriving Repr, DecidableEq

def stepHead (repaired : Bool) (s : St) (i : Nat) : St :=
  match s.rs[i]? with
  | none => s
  | some .idle =>
    match s.cache with
    | some c => { s with results := s.results ++ [c] }
    | none => { s with rs := s.rs.set i (.read s.store) }
  | some (.read v) =>
    match repaired, s.cache with
    | true, some c => { s with rs := s.rs.set i .idle, results := s.results ++ [c] }
    | _, _ => { s with cache := some v, rs := s.rs.set i .idle, results := s.results ++ [v] }

/-- `Append` of the header right above the current head (its own lazy load, if needed, is atomic here: the appenders are
    serialised by the Syncer) -/
def stepAppend (s : St) : St :=
  let cur := s.cache.getD s.store
  { s with cache := some (cur + 1), store := max s.store (cur + 1) }

inductive Ev | head (i : Nat) | append
  deriving Repr, DecidableEq

def step (repaired : Bool) (s : St) : Ev → St
  | .head i => stepHead repaired s i
  | .append => stepAppend s

def init (store n : Nat) : St := { store := store, cache := none, rs := List.replicate n .idle }
def run (repaired : Bool) (store n : Nat) (evs : List Ev) : St := evs.foldl (step repaired) (init store n)

end GoHeader.SyncStore
