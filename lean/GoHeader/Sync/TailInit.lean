/-
  The first tail of an empty store under concurrent `Syncer.Head()` callers (finding F35).

  All callers share ONE head request (single flight, `Sync.Head`); afterwards each of them calls `subjectiveTail`, which
  is guarded by a try-lock: a caller that finds the lock taken skips the tail renewal - fine when a tail exists, but on an
  empty store there is nothing to go on with: that caller found the store still empty and failed ("store is empty"),
  although the shared request had brought a good head. Since the repair such a caller waits for the attempt in progress.
-/
namespace GoHeader.TailInit

structure St where
  tail    : Bool := false              -- the store has a tail
  holder  : Option Nat := none         -- the caller fetching the tail right now (holds the lock)
  waiting : List Nat := []             -- callers blocked on the lock (repaired code only)
  results : List (Nat × Bool) := []    -- (caller, succeeded)
deriving Repr

inductive Ev
  | arrive (i : Nat)      -- caller i reaches subjectiveTail with the shared head
  | finish (ok : Bool)    -- the fetch in progress ends (the getter served the tail header, or failed)
deriving DecidableEq, Repr

/-- `wait` = the repaired code: with no tail at all, wait for the attempt in progress instead of skipping -/
def step (wait : Bool) (s : St) : Ev → St
  | .arrive i =>
    match s.holder with
    | none => if s.tail then { s with results := s.results ++ [(i, true)] } else { s with holder := some i }
    | some _ =>
      if s.tail then { s with results := s.results ++ [(i, true)] }       -- skip the renewal: the tail is there
      else if wait then { s with waiting := s.waiting ++ [i] }
      else { s with results := s.results ++ [(i, false)] }               -- went on with no tail: "store is empty"
  | .finish ok =>
    match s.holder with
    | none => s
    | some h =>
      let t := s.tail || ok
      let rs := s.results ++ [(h, ok)]
      if t then { tail := true, holder := none, waiting := [], results := rs ++ s.waiting.map (·, true) }
      else match s.waiting with
        | [] => { s with tail := false, holder := none, results := rs }
        | w :: ws => { tail := false, holder := some w, waiting := ws, results := rs }   -- the next one fetches itself

def run (wait : Bool) (s : St) (evs : List Ev) : St := evs.foldl (step wait) s

def AllOk (s : St) : Prop := ∀ p ∈ s.results, p.2 = true

theorem step_allok (s : St) (e : Ev) (h : AllOk s) (he : e ≠ .finish false) : AllOk (step true s e) := by
  unfold AllOk at *
  cases e with
  | arrive i =>
    simp only [step]
    split
    · split
      · intro p hp; simp only [List.mem_append, List.mem_singleton] at hp
        rcases hp with hp | hp
        · exact h p hp
        · subst hp; rfl
      · exact h
    · split
      · intro p hp; simp only [List.mem_append, List.mem_singleton] at hp
        rcases hp with hp | hp
        · exact h p hp
        · subst hp; rfl
      · simpa using h
  | finish ok =>
    have hok : ok = true := by
      cases ok with
      | true => rfl
      | false => exact absurd rfl he
    subst hok
    simp only [step]
    split
    · exact h
    · simp only [Bool.or_true, if_true]
      intro p hp
      simp only [List.mem_append, List.mem_singleton, List.mem_map] at hp
      rcases hp with (hp | hp) | ⟨w, _, hw⟩
      · exact h p hp
      · subst hp; rfl
      · subst hw; rfl

/-- as long as no tail fetch fails, NO caller fails - however the callers and the fetch interleave -/
theorem run_allok (evs : List Ev) (s : St) (h : AllOk s) (he : ∀ e ∈ evs, e ≠ .finish false) : AllOk (run true s evs) := by
  induction evs generalizing s with
  | nil => exact h
  | cons e es ih =>
    exact ih (step true s e) (step_allok s e h (he e (by simp))) (fun e' h' => he e' (by simp [h']))

/-- before the repair: the second caller arrives while the first is fetching, and fails -/
theorem old_second_caller_fails : (run false {} [.arrive 0, .arrive 1, .finish true]).results = [(1, false), (0, true)] := by decide

end GoHeader.TailInit
