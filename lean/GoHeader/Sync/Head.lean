/-
  GoHeader.Sync.Head — model of `Syncer.Head` (/repo/sync/syncer_head.go: Head, networkHead,
  subjectiveHead, isExpired, isRecent) and of the single-flight wrapper (/repo/sync/sync_head.go).
  `isExpired` / `isRecent` are also regenerated from the source (Gen/Sync.lean) and tied in Props/C19.
  Times are nanoseconds (`Int`), `now` is explicit.
-/
import GoHeader.Prelude
namespace GoHeader.SHead

structure Cfg where
  trustingPeriod : Int
  blockTime : Int
  recencyThreshold : Int
deriving Repr, DecidableEq

structure H where
  height : Nat
  time : Int
deriving Repr, DecidableEq

def isExpired (now : Int) (header_zero : Bool) (header_time : Int) (period : Int) : Bool × Int :=
  if header_zero then (false, 0) else
  let expirationTime := (header_time + period)
  let diff := (now - expirationTime)
  (decide (diff > 0), diff)

def isRecent (now : Int) (header_time : Int) (blockTime recencyThreshold : Int) : Bool × Int :=
  let recencyThreshold := if (recencyThreshold == 0) then (blockTime * 3) else recencyThreshold
  let recencyTime := (header_time + recencyThreshold)
  let diff := (now - recencyTime)
  (decide (diff ≤ 0), diff)

def expired (c : Cfg) (now : Int) (h : H) : Bool := (isExpired now false h.time c.trustingPeriod).1
def recent (c : Cfg) (now : Int) (h : H) : Bool := (isRecent now h.time c.blockTime c.recencyThreshold).1

/-- what the trusted peers (the getter) answer to a head request -/
inductive PeerAns
  | fail                 -- error / timeout
  | ok (h : H)           -- a head (verified against the trusted head by the exchange, if one was given)
  | soft (h : H) (bifurcationOk : Bool)   -- head + soft *VerifyError; whether incomingNetworkHead then accepts it
deriving Repr, DecidableEq

/-- requests made to the getter's Head during one call -/
inductive Req
  | init                         -- Head() without options (subjective initialisation)
  | trusted (subj : Nat)         -- Head(WithTrustedHead(subjective head at this height))
deriving Repr, DecidableEq

structure Out where
  result : Option H              -- `none` = error
  subj : Option H                -- subjective head afterwards (pending head, else store head)
  reqs : List Req
deriving Repr, DecidableEq

/-- `subjectiveHead` needs (re)initialisation: empty store, or the stored head is expired -/
def needInit (c : Cfg) (now : Int) : Option H → Bool
  | none => true
  | some s => expired c now s

/-- `Syncer.Head()`: `subj` = current subjective head (`none` = empty store); `ansInit` / `ansTrusted`
    = what the peers would answer to the two kinds of request; `verifyNew h` = does
    incomingNetworkHead accept `h` against the current subjective head -/
def headCall (c : Cfg) (now : Int) (subj : Option H) (ansInit ansTrusted : PeerAns) : Out :=
  if needInit c now subj then
    -- subjectiveHead: (re)initialisation from trusted peers
    match ansInit with
    | .ok h =>
      if expired c now h then { result := none, subj := subj, reqs := [.init] }
      else
        -- initialized ⇒ networkHead returns it as updated; Head() then sets it via incomingNetworkHead and
        -- returns the local head: the new head if it was accepted (above the old one), else the old one
        -- if it was NOT accepted the local head is still the expired one: that is an error, never a result
        let accepted := match subj with | none => true | some s => decide (h.height > s.height)
        if accepted then { result := some h, subj := some h, reqs := [.init] }
        else { result := none, subj := subj, reqs := [.init] }
    | .soft h _ =>  -- an error value accompanies the header: treated as an error of the head request
      let _ := h
      { result := none, subj := subj, reqs := [.init] }
    | .fail => { result := none, subj := subj, reqs := [.init] }
  else
    match subj with
    | none => { result := none, subj := none, reqs := [] }     -- unreachable (needInit)
    | some s =>
      if recent c now s then { result := some s, subj := some s, reqs := [] }
      else
        match ansTrusted with
        | .fail => { result := some s, subj := some s, reqs := [.trusted s.height] }
        | .ok h =>
          if h.height ≤ s.height then { result := some s, subj := some s, reqs := [.trusted s.height] }
          else { result := some h, subj := some h, reqs := [.trusted s.height] }
        | .soft h bifOk =>
          if !bifOk then { result := some s, subj := some s, reqs := [.trusted s.height] }
          else if h.height ≤ s.height then { result := some s, subj := some s, reqs := [.trusted s.height] }
          else { result := some h, subj := some h, reqs := [.trusted s.height] }

/-- A stale-head call whose network request is IN FLIGHT while the subjective head moves from `s0` (the snapshot
    the request was issued with) to `s1` (gossip; `s1 = s0` if nothing happened).  `networkHead` reports the
    current subjective head when the request fails or brings nothing new (`latestSubjective`), and `Head()` itself
    returns the local head after adopting a newer answer. -/
def headCallInflight (s0 s1 : H) (ans : PeerAns) : H :=
  let latest := if s1.height > s0.height then s1 else s0
  match ans with
  | .fail => latest
  | .ok h => if h.height ≤ s0.height then latest else if h.height > s1.height then h else s1
  | .soft h bifOk => if !bifOk || h.height ≤ s0.height then latest else if h.height > s1.height then h else s1

/-! ### single-flight wrapper (`syncHead.Head`) -/

/-- callers are numbered; an event is a caller entering (`enter`) or the in-flight request finishing -/
inductive SFEv | enter (caller : Nat) | finish (answer : Nat)
deriving Repr, DecidableEq

structure SF where
  inflight : Option Nat := none          -- the caller that acquired the flight
  waiting : List Nat := []               -- callers that joined it
  requests : Nat := 0                    -- underlying head requests started
  results : List (Nat × Nat) := []       -- (caller, answer it returned)
deriving Repr, DecidableEq

def SF.step (s : SF) : SFEv → SF
  | .enter c =>
    match s.inflight with
    | none => { s with inflight := some c, requests := s.requests + 1 }
    | some _ => { s with waiting := s.waiting ++ [c] }
  | .finish a =>
    match s.inflight with
    | none => s
    | some l => { s with inflight := none, waiting := [], results := s.results ++ (l, a) :: s.waiting.map (fun w => (w, a)) }

def SF.run (evs : List SFEv) : SF := evs.foldl SF.step {}

end GoHeader.SHead
