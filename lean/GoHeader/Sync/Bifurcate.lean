/-
  GoHeader.Sync.Bifurcate — model of `verifyBifurcating` (/repo/sync/syncer_head.go) over heights.

  `verify tv a b` is `header.Verify(header at a, header at b)` reduced to what the loop looks at
  (C01): not-above ⇒ hard (ErrKnownHeader); type-level accept ⇒ ok; type-level reject ⇒ hard when
  adjacent, soft otherwise.  `get h = false` is a getter failure for height `h`.
  The definition is by well-founded recursion on (new − subj, diff): termination of the search for
  EVERY predicate and getter is itself checked by the kernel.
-/
import GoHeader.Prelude
namespace GoHeader.Bif

inductive VRes | ok | soft | hard
deriving DecidableEq, Repr

def verify (tv : Nat → Nat → Bool) (a b : Nat) : VRes :=
  if b ≤ a then .hard
  else if tv a b then .ok
  else if b = a + 1 then .hard else .soft

inductive Verdict
  | accept        -- nil: the candidate becomes the sync target
  | rejectHard    -- an intermediate failed verification for good
  | rejectFinal   -- "bifurcation: new head failed": nothing between the last promoted head and the candidate
  | getterErr     -- an intermediate could not be fetched
deriving DecidableEq, Repr

structure Out where
  verdict : Verdict
  promoted : List Nat      -- intermediates promoted to subjective head (setLocalHead), in order
  requests : List Nat      -- getter.GetByHeight calls, in order
deriving Repr, DecidableEq

def loop (tv : Nat → Nat → Bool) (get : Nat → Bool) (new : Nat) (subj diff : Nat)
    (hd : diff ≤ new - subj) (acc : Out) : Out :=
  let cand := subj + diff / 2
  let acc := { acc with requests := acc.requests ++ [cand] }
  if hget : get cand = false then { acc with verdict := .getterErr } else
  match hv : verify tv subj cand with
  | .hard => { acc with verdict := .rejectHard }
  | .soft =>
      have : diff / 2 < diff := by
        unfold verify at hv; split at hv; · cases hv
        · rename_i h; have : 0 < diff / 2 := by omega
          omega
      loop tv get new subj (diff / 2) (by omega) acc
  | .ok =>
      let acc := { acc with promoted := acc.promoted ++ [cand] }
      if verify tv cand new = .ok then { acc with verdict := .accept }
      else if hle : new - cand ≤ 1 then { acc with verdict := .rejectFinal }
      else
        have : new - cand < new - subj := by
          unfold verify at hv; split at hv; · cases hv
          · rename_i h; omega
        loop tv get new cand (new - cand) (Nat.le_refl _) acc
termination_by (new - subj, diff)
decreasing_by
  · exact Prod.Lex.right _ (by assumption)
  · exact Prod.Lex.left _ _ (by assumption)

/-- `verifyBifurcating(subjHead, newHead)` -/
def run (tv : Nat → Nat → Bool) (get : Nat → Bool) (subj new : Nat) : Out :=
  loop tv get new subj (new - subj) (Nat.le_refl _) { verdict := .getterErr, promoted := [], requests := [] }

inductive SyncVerdict | accepted | refused
deriving DecidableEq, Repr

/-- `Syncer.verify`: direct verification first; bifurcation ONLY for a soft failure -/
def syncerVerify (tv : Nat → Nat → Bool) (get : Nat → Bool) (subj new : Nat) : SyncVerdict × Out :=
  match verify tv subj new with
  | .ok => (.accepted, { verdict := .accept, promoted := [], requests := [] })
  | .hard => (.refused, { verdict := .rejectHard, promoted := [], requests := [] })
  | .soft =>
    let o := run tv get subj new
    (if o.verdict = .accept then .accepted else .refused, o)

end GoHeader.Bif
