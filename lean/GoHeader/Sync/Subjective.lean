/-
  GoHeader.Sync.Subjective — the subjective head under the check-then-act of `setLocalHead` (/repo/sync/syncer_head.go):
      setLocalHead(x):  storeHead := store.Head() ; if storeHead ≥ x return ; … ; pending.Add(x) ; wantSync()
      sync loop:        to := localHead() ; if to ≤ store head: [repaired: pending.Prune(store head)] return ;
                        fetch + store.Append(… to) ; pending.Remove(to)
      localHead():      before the repair of F40:  pending head if any, else the store head
                        after it:                  the higher of the two
  Any number of setters (gossip handler under its mutex, Head() callers outside it) run concurrently with the one loop.
  `pend` is the pending set as the ascending log of heads that `ranges.Add` keeps (theorem c07_add_records_new_heads).
-/
namespace GoHeader.Subjective

inductive SPc
  | idle
  | checked (x : Nat)    -- read a store head below x, about to put x into pending
  deriving Repr, DecidableEq

inductive LPc
  | idle
  | syncing (to : Nat)   -- fetching; store.Append next
  | stored (to : Nat)    -- stored up to `to`; pending.Remove(to) next
  deriving Repr, DecidableEq

structure St where
  sh : Nat
  pend : List Nat
  ss : List SPc
  l : LPc
  deriving Repr, DecidableEq

def addH (pend : List Nat) (h : Nat) : List Nat := if pend.all (· < h) then pend ++ [h] else pend

def localHeadOld (s : St) : Nat := match s.pend.getLast? with | some p => p | none => s.sh
def localHeadNew (s : St) : Nat := match s.pend.getLast? with | some p => max p s.sh | none => s.sh

def stepS (s : St) (i x : Nat) : St :=
  match s.ss[i]? with
  | none => s
  | some .idle => if s.sh ≥ x then s else { s with ss := s.ss.set i (.checked x) }
  | some (.checked y) => { s with pend := addH s.pend y, ss := s.ss.set i .idle }

def stepL (repaired : Bool) (s : St) : St :=
  match s.l with
  | .idle =>
    let tgt := if repaired then localHeadNew s else localHeadOld s
    if tgt > s.sh then { s with l := .syncing tgt }
    else if repaired then { s with pend := s.pend.filter (· > s.sh) } else s
  | .syncing to => { s with sh := max s.sh to, l := .stored to }
  | .stored to => { s with pend := s.pend.filter (· > to), l := .idle }

inductive Ev | s (i x : Nat) | l
  deriving Repr, DecidableEq

def step (repaired : Bool) (s : St) : Ev → St
  | .s i x => stepS s i x
  | .l => stepL repaired s

def init (sh n : Nat) : St := { sh := sh, pend := [], ss := List.replicate n .idle, l := .idle }
def run (repaired : Bool) (sh n : Nat) (evs : List Ev) : St := evs.foldl (step repaired) (init sh n)

/-- the heights `Head()` would report after each prefix of the schedule -/
def trace (repaired : Bool) (sh n : Nat) (evs : List Ev) : List Nat :=
  (List.range (evs.length + 1)).map fun k =>
    let s := run repaired sh n (evs.take k)
    if repaired then localHeadNew s else localHeadOld s

end GoHeader.Subjective
