/-
  GoHeader.Sync.Machine — sequential model of the Syncer's storing path (/repo/sync/syncer.go,
  sync_store.go, ranges.go, syncer_head.go) over the heights of ONE genuine chain:
  the gossip verdict (direct verification / bifurcation), `setLocalHead` (adjacent ⇒ stored at once,
  otherwise pending + trigger), and one run of the sync loop: `processHeaders` over the pending
  ranges with `requestHeaders` against a scripted getter (its output checks included).
  Concurrency between the gossip handler and the sync loop is NOT in this model (events are taken one
  at a time to quiescence); see DESIGN.md §4 C03/C07.
-/
import GoHeader.Prelude
namespace GoHeader.Mach

/-- one answer of `getter.GetRangeByHeight(from, to)` -/
inductive Resp
  | ok                 -- the whole requested range
  | pfx (k : Nat)      -- a non-empty contiguous prefix of k headers (contract-abiding when 1 ≤ k)
  | err                -- an error
  | empty              -- contract violation: empty slice, nil error
  | shift              -- contract violation: does not start at from+1
deriving DecidableEq, Repr

structure SM where
  head : Nat                 -- the Store holds the genuine headers 1..head (contiguous)
  pending : List Nat := []   -- verified heads waiting to be stored (ascending)
  err : Bool := false        -- State().Error of the last sync
  script : List Resp := []   -- what the getter will answer next (then: `ok`)
deriving Repr, DecidableEq

def maxReq : Nat := 64

/-- `requestHeaders(from = lo, to = hi)`: returns the height reached and whether it failed -/
def requestHeaders : Nat → Nat → Nat → List Resp → Nat × Bool × List Resp
  | 0, lo, _, sc => (lo, false, sc)
  | fuel+1, lo, hi, sc =>
    if lo ≥ hi then (lo, false, sc) else
    let size := min (hi - lo) maxReq
    match sc with
    | [] => requestHeaders fuel (lo + size) hi []
    | .ok :: rest => requestHeaders fuel (lo + size) hi rest
    | .pfx k :: rest =>
      if 1 ≤ k ∧ k < size then requestHeaders fuel (lo + k) hi rest
      else requestHeaders fuel (lo + size) hi rest
    | .err :: rest => (lo, true, rest)
    | .empty :: rest => (lo, true, rest)
    | .shift :: rest => if size > 1 then (lo, true, rest) else (lo, true, rest)

/-- `processHeaders`: walk the pending heads (ascending); fetch what lies before each, then store it
    from the cache -/
def processPending : List Nat → Nat → List Resp → Nat × Bool × List Resp × List Nat
  | [], head, sc => (head, false, sc, [])
  | p :: ps, head, sc =>
    if p ≤ head then processPending ps head sc              -- already stored
    else
      let r := requestHeaders (p - 1 - head) head (p - 1) sc
      if r.2.1 then (r.1, true, r.2.2, p :: ps)              -- the attempt is aborted, the heads stay pending
      else processPending ps p r.2.2                         -- cached head appended after its predecessors

/-- one run of the sync loop (`sync` → `doSync`) -/
def SM.syncRun (s : SM) : SM :=
  match s.pending with
  | [] => s
  | _ =>
    let r := processPending s.pending s.head s.script
    { head := r.1, pending := r.2.2.2, err := r.2.1, script := r.2.2.1 }

/-- the subjective head (sync target): the newest pending head, else the store head -/
def SM.target (s : SM) : Nat := match s.pending.getLast? with | some p => p | none => s.head

inductive Gossip
  | valid (h : Nat)         -- the genuine chain header at height h
  | forged (h : Nat)        -- fails the type-level check against every header
  | otherFork (h : Nat)     -- a header of another fork (broken link / never verifies)
  | mandatoryBad (h : Nat)  -- wrong chain id, future-dated, time before the trusted header
deriving DecidableEq, Repr

inductive GVerdict | accept | refuse
deriving DecidableEq, Repr

/-- a verified head becomes the sync target: stored at once when adjacent to the store head, else pending -/
def SM.setLocalHead (s : SM) (h : Nat) : SM :=
  if h ≤ s.target then s
  else if s.pending.isEmpty ∧ h = s.head + 1 then { s with head := h }
  else { s with pending := s.pending ++ [h] }

/-- a gossip delivery followed by the sync loop running to quiescence -/
def SM.gossip (s : SM) : Gossip → SM × GVerdict
  | .valid h =>
    if h ≤ s.target then (s, .refuse)                       -- ErrKnownHeader
    else ((s.setLocalHead h).syncRun, .accept)
  | .forged h | .otherFork h =>
    if h ≤ s.target + 1 then (s, .refuse)                   -- known, or adjacent: hard failure
    else
      -- non-adjacent: soft failure ⇒ bifurcation promotes the verified intermediates up to h-1, then refuses h
      ((s.setLocalHead (h - 1)).syncRun, .refuse)
  | .mandatoryBad _ => (s, .refuse)

end GoHeader.Mach
