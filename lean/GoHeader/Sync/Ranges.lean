/-
  GoHeader.Sync.Ranges — the Syncer's pending set (/repo/sync/ranges.go): `ranges.Add`, `ranges.First`,
  `ranges.Prune`, `headerRange.Get / Remove / rangeAmount`, with headers identified by their heights.

  A range is its `start` field plus the cached heights; an emptied range keeps its stale `start` until the next
  `First()` drops it (as in the Go code).  `rangeAmountOld` is the comparison before the F41 repair (`>=`).
  Go's `headers[:n]` / `headers[n:]` with n above the length is a run-time fault: `sliceOk` says it does not happen.
-/
namespace GoHeader.Ranges

structure Rng where
  start : Nat
  hs : List Nat
deriving Repr, DecidableEq, Inhabited

abbrev Ranges := List Rng

/-- `rangeAmount(end)` over start and length -/
def amt (s len e : Nat) : Nat :=
  if s > e then 0 else if s + len > e then e - s + 1 else len

/-- the same before the repair of F41: `>=` -/
def amtOld (s len e : Nat) : Nat :=
  if s > e then 0 else if s + len ≥ e then e - s + 1 else len

def rangeAmount (r : Rng) (e : Nat) : Nat := amt r.start r.hs.length e
def rangeAmountOld (r : Rng) (e : Nat) : Nat := amtOld r.start r.hs.length e

/-- the slice expressions of Get (`headers[:amnt]`) and Remove (`headers[amnt:]`) stay inside the slice -/
def sliceOk (a : Nat) (r : Rng) : Bool := a ≤ r.hs.length

/-- `headerRange.Get(end)` -/
def get (r : Rng) (e : Nat) : List Nat := r.hs.take (rangeAmount r e)

/-- `headerRange.Remove(end)`: the start moves to the first remaining header, if there is one -/
def remove (r : Rng) (e : Nat) : Rng :=
  let hs' := r.hs.drop (rangeAmount r e)
  { start := hs'.headD r.start, hs := hs' }

/-- `ranges.Add(h)`: dropped when not above the head of the LAST range, appended to it when adjacent, else a new range;
    a last range that is empty has a zero head: a new range is started -/
def add : Ranges → Nat → Ranges
  | [], h => [⟨h, [h]⟩]
  | [r], h =>
    match r.hs.getLast? with
    | none => [r, ⟨h, [h]⟩]
    | some hd => if hd ≥ h then [r] else if h = hd + 1 then [{ r with hs := r.hs ++ [h] }] else [r, ⟨h, [h]⟩]
  | r :: r' :: rest, h => r :: add (r' :: rest) h

/-- `ranges.Head()`: the head of the last range (none = zero header) -/
def headOf : Ranges → Option Nat
  | [] => none
  | [r] => r.hs.getLast?
  | _ :: r :: rest => headOf (r :: rest)

/-! `Add` is not atomic with respect to the sync loop's `Remove`: it reads the head of the last range (holding the
    lock of the range LIST, which `Remove` does not take) and then applies what it decided.  `appendLast` is
    `headerRange.Append` on the last range; since the F42 repair a range that is empty by then starts anew. -/
inductive AddPlan | drop | append | fresh
deriving Repr, DecidableEq

def addRead (rs : Ranges) (h : Nat) : AddPlan :=
  match headOf rs with
  | none => .fresh
  | some hd => if hd ≥ h then .drop else if h = hd + 1 then .append else .fresh

def appendLast (repaired : Bool) : Ranges → Nat → Ranges
  | [], h => [⟨h, [h]⟩]
  | [r], h => [if r.hs.isEmpty && repaired then ⟨h, [h]⟩ else { r with hs := r.hs ++ [h] }]
  | r :: r' :: rest, h => r :: appendLast repaired (r' :: rest) h

def addApply (repaired : Bool) (rs : Ranges) (plan : AddPlan) (h : Nat) : Ranges :=
  match plan with
  | .drop => rs
  | .fresh => rs ++ [⟨h, [h]⟩]
  | .append => appendLast repaired rs h

/-- `ranges.First()`: drops the leading empty ranges; the result's first element (if any) is what it returns -/
def clean : Ranges → Ranges
  | [] => []
  | r :: rest => if r.hs.isEmpty then clean rest else r :: rest

/-- the sync loop's `headersRange.Remove(to)` on the range `First()` returned -/
def removeFirst : Ranges → Nat → Ranges
  | [], _ => []
  | r :: rest, e => remove r e :: rest

/-- `ranges.Prune(height)` -/
def prune (rs : Ranges) (e : Nat) : Ranges := rs.map (remove · e)

/-- all cached heights, in order -/
def heights (rs : Ranges) : List Nat := rs.flatMap (·.hs)

inductive Op
  | add (h : Nat)
  | first
  | removeFirst (e : Nat)
  | prune (e : Nat)
deriving Repr, DecidableEq

def step (rs : Ranges) : Op → Ranges
  | .add h => add rs h
  | .first => clean rs
  | .removeFirst e => removeFirst rs e
  | .prune e => prune rs e

def run (rs : Ranges) (ops : List Op) : Ranges := ops.foldl step rs

/-- one iteration of the cache part of `processHeaders(…, to)`: `First()`, `Get(to)`, [the headers go to the Store],
    `Remove(to)`; `none` = the loop breaks (nothing pending, or nothing up to `to` in the first range) -/
def drainStep (rs : Ranges) (to : Nat) : Option (List Nat × Ranges) :=
  match clean rs with
  | [] => none
  | r :: rest => if (get r to).isEmpty then none else some (get r to, remove r to :: rest)

/-- the loop (with fuel): what it handed to the Store, in order, and the pending set it leaves -/
def drain : Nat → Ranges → Nat → List Nat × Ranges
  | 0, rs, _ => ([], clean rs)
  | f + 1, rs, to =>
    match drainStep rs to with
    | none => ([], clean rs)
    | some (hs, rs') => let r := drain f rs' to; (hs ++ r.1, r.2)

/-! ### invariant -/

/-- the cached heights of a range are start, start+1, … -/
def Contig : Nat → List Nat → Prop
  | _, [] => True
  | s, x :: xs => x = s ∧ Contig (s + 1) xs

def Rng.WF (r : Rng) : Prop := Contig r.start r.hs
/-- ascending and not adjacent -/
def Sep (a b : Rng) : Prop := ∀ x ∈ a.hs, ∀ y ∈ b.hs, x + 1 < y
/-- empty ranges come first (only the sync loop empties ranges, from the front) -/
def EP (a b : Rng) : Prop := b.hs = [] → a.hs = []

structure Inv (rs : Ranges) : Prop where
  wf : ∀ r ∈ rs, r.WF
  sep : rs.Pairwise Sep
  ep : rs.Pairwise EP

end GoHeader.Ranges
