/-
  GoHeader.Store.Conc — small-step model of concurrent Store use at the granularity of the yield
  hooks (build tag `verif`): ONE flusher (the `flushLoop` goroutine, which serialises every Append)
  working through the queued batches, and any number of readers in `GetByHeight`.

  Atomic steps = the code segments between two hooks; each is atomic with respect to the other actors
  because it is a single atomic operation or runs under one lock (DESIGN.md A.4):
    flusher  F1 pending.Append(batch)            (batch.lk)
             F2 ensureInit                       (CAS on the pointers + heightSub.Init under heightSubsLk)
             F3 heightSub.Notify(batch heights)  (heightSubsLk)
             F4 advanceHead: contiguousHead.Store(top of the run)      (atomic store)
             F5 heightSub.SetHeight: CAS of height + notify (old, new]  (atomic + heightSubsLk)
             F6 commit + pending.Reset: headers move from the batch to the datastore (both readable throughout)
    reader   R1 first lookup                     (reads)
             R2 Wait: fast height check          (atomic load)
             R3 Wait: check again under the lock and register          (heightSubsLk)
             R4 re-check the store after registering                   (reads)   — the lost-wake-up repair
             R5 parked; woken by F2/F3/F5, or cancelled
             R6 second lookup
-/
import GoHeader.Prelude
namespace GoHeader.Conc

inductive RRes | found | notFound | ctxErr
deriving DecidableEq, Repr

inductive RPc
  | start                 -- before R1
  | missed                -- R1 missed, before R2
  | toRegister            -- R2 saw height < h, before R3
  | registered            -- R3 registered, before R4
  | parked                -- R4 missed: waiting for a signal
  | woken                 -- signalled (or height elapsed): before R6
  | done (r : RRes)
deriving DecidableEq, Repr

structure Reader where
  h : Nat
  pc : RPc
deriving DecidableEq, Repr

inductive FPc
  | idle
  | appended (b : List Nat)     -- after F1
  | inited (b : List Nat)       -- after F2
  | notified (b : List Nat)     -- after F3
  | headStored (b : List Nat) (oldHs : Nat)   -- after F4
  | heightSet (b : List Nat)    -- after F5
deriving DecidableEq, Repr

structure St where
  stored : List Nat := []        -- retrievable heights (pending ∪ datastore)
  head : Option Nat := none      -- contiguousHead
  hs : Nat := 0                  -- heightSub.height
  queue : List (List Nat) := []  -- writes channel
  fpc : FPc := .idle
  readers : List Reader := []
deriving Repr

def walkUp (p : Nat → Bool) : Nat → Nat → Nat
  | 0, h => h
  | f+1, h => if p (h+1) then walkUp p f (h+1) else h

/-- wake every reader parked (or registered) on a height satisfying `p` -/
def wake (p : Nat → Bool) (rs : List Reader) : List Reader :=
  rs.map fun r => if (r.pc == .parked || r.pc == .registered) && p r.h then { r with pc := .woken } else r

/-- one flusher step (`none` when it has nothing to do) -/
def stepF (s : St) : Option St :=
  match s.fpc with
  | .idle =>
    match s.queue with
    | [] => none
    | b :: q => some { s with queue := q, stored := b ++ s.stored, fpc := .appended b }   -- F1
  | .appended b =>                                                                       -- F2
    match s.head, b with
    | none, x :: _ => some { s with head := some x, hs := x, readers := wake (· < x) s.readers, fpc := .inited b }
    | _, _ => some { s with fpc := .inited b }
  | .inited b => some { s with readers := wake (fun h => b.contains h) s.readers, fpc := .notified b }  -- F3
  | .notified b =>                                                                       -- F4
    match s.head with
    | some hd => some { s with head := some (walkUp (fun h => s.stored.contains h) (s.stored.length + 1) hd), fpc := .headStored b s.hs }
    | none => some { s with fpc := .headStored b s.hs }
  | .headStored b old =>                                                                 -- F5
    match s.head with
    | some hd =>
      if hd > s.hs then some { s with hs := hd, readers := wake (fun h => decide (old ≤ h ∧ h ≤ hd)) s.readers, fpc := .heightSet b }
      else some { s with fpc := .heightSet b }
    | none => some { s with fpc := .heightSet b }
  | .heightSet _ => some { s with fpc := .idle }                                          -- F6

/-- one step of reader `i`; `cancel = true` cancels its context (only effective while it waits) -/
def stepR (s : St) (i : Nat) (cancel : Bool) : Option St :=
  match s.readers[i]? with
  | none => none
  | some r =>
    let upd (pc : RPc) : St := { s with readers := s.readers.set i { r with pc := pc } }
    match r.pc with
    | .start => some (upd (if s.stored.contains r.h then .done .found else .missed))      -- R1
    | .missed => some (upd (if s.hs ≥ r.h then .woken else .toRegister))                  -- R2
    | .toRegister => some (upd (if s.hs ≥ r.h then .woken else .registered))              -- R3
    | .registered => some (upd (if s.stored.contains r.h then .woken else .parked))       -- R4
    | .parked => if cancel then some (upd (.done .ctxErr)) else none                      -- R5
    | .woken => some (upd (.done (if s.stored.contains r.h then .found else .notFound)))  -- R6
    | .done _ => none

inductive Ev | flusher | reader (i : Nat) | cancel (i : Nat) | append (b : List Nat) | call (h : Nat)
deriving DecidableEq, Repr

/-- a scheduler event; events that are not enabled leave the state unchanged -/
def step (s : St) : Ev → St
  | .flusher => (stepF s).getD s
  | .reader i => (stepR s i false).getD s
  | .cancel i => (stepR s i true).getD s
  | .append b => if b.isEmpty then s else { s with queue := s.queue ++ [b] }
  | .call h => { s with readers := s.readers ++ [{ h := h, pc := .start }] }

def run (evs : List Ev) : St := evs.foldl step {}

end GoHeader.Conc
