/-
  GoHeader.Store.Seq — sequential model of /repo/store (store.go, batch.go, heightsub.go,
  height_indexer.go, store_delete.go) over the headers of ONE chain, identified by their height.

  What is modelled (and where in the Go code):
    * the datastore: hash keys `hdr`, height-index keys `idx`, the two pointer keys        (keys.go)
    * the write batch `pending`, the in-memory ends `head` / `tail`, `heightSub.height`     (store.go)
    * the flush closure of `flushLoop`: pending.Append → ensureInit → advanceHead →
      recedeTail → commit when the batch is full or the store stops                          (store.go)
    * `getByHeight` with the code's lookup order: head, tail, pending, index → Get(hash)   (store.go)
    * `GetByHeight` = lookup, else park on heightSub unless the height has elapsed         (store.go, heightsub.go)
    * `DeleteRange`: Sync, validation, `deleteSingle` per height incl. OnDelete handlers,
      `setTail` / `setHead` / `wipe`                                                       (store_delete.go)
    * Stop (drain queue, flush, deinit) and Start on the same datastore (`init`, `readByKey`).
  What is NOT modelled: the two 2Q caches (cache-transparent: every cached entry equals what
  pending ∪ datastore hold — a stale entry would show up as a correspondence break), metrics,
  logging, the parallel delete path (≥ 10 000 headers), datastore write faults (Store.Crash).
-/
import GoHeader.Prelude
namespace GoHeader.Store

abbrev HSet := List Nat

def HSet.ins (s : HSet) (x : Nat) : HSet := if x ∈ s then s else x :: s
def HSet.del (s : HSet) (x : Nat) : HSet := s.filter (· != x)
def HSet.union (s t : HSet) : HSet := t.foldl HSet.ins s

@[simp] theorem mem_ins (s : HSet) (x y : Nat) : y ∈ HSet.ins s x ↔ y = x ∨ y ∈ s := by
  unfold HSet.ins; split
  · constructor
    · intro h; exact Or.inr h
    · rintro (h | h)
      · subst h; assumption
      · exact h
  · simp
@[simp] theorem mem_del (s : HSet) (x y : Nat) : y ∈ HSet.del s x ↔ y ∈ s ∧ y ≠ x := by
  simp [HSet.del]
@[simp] theorem mem_union (s t : HSet) (y : Nat) : y ∈ HSet.union s t ↔ y ∈ s ∨ y ∈ t := by
  unfold HSet.union
  induction t generalizing s with
  | nil => simp
  | cons a as ih =>
    simp only [List.foldl_cons, ih, mem_ins, List.mem_cons]
    constructor
    · rintro ((h | h) | h)
      · exact Or.inr (Or.inl h)
      · exact Or.inl h
      · exact Or.inr (Or.inr h)
    · rintro (h | h | h)
      · exact Or.inl (Or.inr h)
      · exact Or.inl (Or.inl h)
      · exact Or.inr h

/-- an OnDelete handler script: the call indexes (0-based, per handler) at which it fails -/
structure Handler where
  fails : List Nat
  count : Nat := 0
deriving Repr, DecidableEq

/-- one handler invocation as the harness logs it -/
structure Call where
  handler  : Nat
  height   : Nat
  readable : Bool
deriving Repr, DecidableEq

structure St where
  batch   : Nat                  -- Params.WriteBatchSize
  hdr     : HSet := []           -- datastore: hash keys
  idx     : HSet := []           -- datastore: height keys
  headPtr : Option Nat := none   -- datastore: "head" key
  tailPtr : Option Nat := none   -- datastore: "tail" key
  pending : HSet := []
  head    : Option Nat := none   -- contiguousHead
  tail    : Option Nat := none   -- tailHeader
  hs      : Nat := 0             -- heightSub.height
  queue   : List (List Nat) := [] -- writes channel (oldest first)
  handlers : List Handler := []
  calls   : List Call := []      -- log of the current DeleteRange
deriving Repr

/-! ### reads -/

def St.present (s : St) (h : Nat) : Prop := h ∈ s.pending ∨ (h ∈ s.idx ∧ h ∈ s.hdr)
instance (s : St) (h : Nat) : Decidable (s.present h) := by unfold St.present; infer_instance

/-- `Store.Get(hash of h)` / `Has`: cache (transparent), pending, datastore -/
def St.byHash (s : St) (h : Nat) : Bool := decide (h ∈ s.pending) || decide (h ∈ s.hdr)

/-- `getByHeight`: head, tail, pending, then index → Get -/
def St.lookup (s : St) (h : Nat) : Bool :=
  s.head == some h || s.tail == some h || decide (h ∈ s.pending) ||
    (decide (h ∈ s.idx) && s.byHash h)

inductive ByH | found | notFound | blocks | err
deriving DecidableEq, Repr

/-- `GetByHeight` -/
def St.getByHeight (s : St) (h : Nat) : ByH :=
  if h = 0 then .err
  else if s.lookup h then .found
  else if s.hs ≥ h then .notFound       -- errElapsedHeight, second lookup misses too
  else .blocks                           -- parks on heightSub until the context ends

def St.hasAt (s : St) (h : Nat) : Bool :=
  match s.head, s.tail with
  | some hd, some tl => h != 0 && decide (tl ≤ h) && decide (h ≤ hd)
  | _, _ => false

/-- `GetRange(a, b)`: GetByHeight(b-1), then walk back by previous-hash through `Get` -/
def St.getRange (s : St) (a b : Nat) : Bool :=
  decide (a < b) && (s.getByHeight (b - 1) == .found) &&
    (List.range' a (b - 1 - a)).all (fun h => h != 0 && s.byHash h)

/-! ### the flush closure -/

def walkUp (p : Nat → Bool) : Nat → Nat → Nat
  | 0, h => h
  | f+1, h => if p (h+1) then walkUp p f (h+1) else h

def walkDown (p : Nat → Bool) : Nat → Nat → Nat
  | 0, h => h
  | f+1, h => if h = 0 then h else if p (h-1) then walkDown p f (h-1) else h

def maxOf : List Nat → Nat
  | [] => 0
  | x :: xs => max x (maxOf xs)

def St.bound (s : St) : Nat := max (maxOf s.pending) (maxOf s.idx)

/-- `ensureInit` for a batch whose first header is `x` -/
def St.ensureInit (s : St) (x : Nat) : St :=
  let s1 : St := match s.head with
    | none => { s with head := some x, hs := x }
    | some _ => s
  match s1.tail with
    | none => { s1 with tail := some x }
    | some _ => s1

def St.advance (s : St) : St :=
  match s.head with
  | some hd =>
    let nh := walkUp s.lookup (s.bound + 1) hd
    -- `SetHeight` is only called when the head changed, and never lowers the height
    { s with head := some nh, hs := if nh = hd then s.hs else max s.hs nh }
  | none => s

def St.recede (s : St) : St :=
  match s.tail with
  | some tl => { s with tail := some (walkDown s.lookup tl tl) }
  | none => s

/-- `Store.flush` + `pending.Reset`: headers, index and the pointers that are set, one batch -/
def St.commit (s : St) : St :=
  { s with hdr := HSet.union s.hdr s.pending, idx := HSet.union s.idx s.pending,
           headPtr := match s.head with | some h => some h | none => s.headPtr,
           tailPtr := match s.tail with | some t => some t | none => s.tailPtr,
           pending := [] }

/-- the flush closure for one queued batch (non-empty) -/
def St.flushBatch (s : St) (hs : List Nat) : St :=
  match hs with
  | [] => s
  | x :: _ =>
    let s1 := { s with pending := HSet.union s.pending hs }
    let s5 := ((s1.ensureInit x).advance).recede
    if s5.pending.length ≥ s5.batch then s5.commit else s5

/-- `Sync`: the flush loop drains the queue -/
def St.sync (s : St) : St :=
  s.queue.foldl St.flushBatch { s with queue := [] }

/-- the stop signal (`headers == nil`): advance/recede once more, then flush whatever is pending -/
def St.flushStop (s : St) : St := (s.advance.recede).commit

/-! ### Stop / Start -/

/-- `readByKey`: a pointer whose header is missing is dropped -/
def resolvePtr (ptr : Option Nat) (hdr : HSet) : Option Nat :=
  match ptr with
  | some h => if h ∈ hdr then some h else none
  | none => none

/-- a fresh `Store` started on the datastore of `s1` (`init` + `readByKey`) -/
def St.reopen (s1 : St) : St :=
  { batch := s1.batch, hdr := s1.hdr, idx := s1.idx,
    headPtr := resolvePtr s1.headPtr s1.hdr, tailPtr := resolvePtr s1.tailPtr s1.hdr,
    pending := [], head := resolvePtr s1.headPtr s1.hdr, tail := resolvePtr s1.tailPtr s1.hdr,
    hs := (match resolvePtr s1.headPtr s1.hdr with | some h => h | none => 0),
    queue := [], handlers := s1.handlers, calls := [] }

/-- `Stop` (drain the queue, final flush) then a fresh `Store` started on the same datastore -/
def St.restart (s : St) : St := s.sync.flushStop.reopen

/-! ### DeleteRange -/

inductive Kind | wipe | tailSide | headSide
deriving DecidableEq, Repr

/-- the validation part of `DeleteRange` (after Sync) -/
def St.delKind (s : St) (a b : Nat) : Option Kind :=
  match s.head, s.tail with
  | some hd, some tl =>
    if a ≥ b then none
    else if a > hd ∨ b ≤ tl then none
    else if a = tl ∧ b = hd + 1 then (if s.lookup b then some .tailSide else some .wipe)
    else if a = tl then (if b > hd + 1 then none else some .tailSide)
    else if b = hd + 1 then (if a < tl then none else some .headSide)
    else none
  | _, _ => none

def St.delOne (s : St) (h : Nat) : St :=
  { s with hdr := HSet.del s.hdr h, idx := HSet.del s.idx h, pending := HSet.del s.pending h }

/-- run the OnDelete handlers for height `h` in registration order; `true` = all returned nil -/
def runHandlers (s : St) (h : Nat) : List Handler → Nat → List Handler × List Call × Bool
  | [], _ => ([], [], true)
  | hd :: rest, i =>
    let call : Call := { handler := i, height := h, readable := s.getByHeight h == .found }
    let hd' := { hd with count := hd.count + 1 }
    if hd.count ∈ hd.fails then (hd' :: rest, [call], false)
    else
      let r := runHandlers s h rest (i + 1)
      (hd' :: r.1, call :: r.2.1, r.2.2)

/-- the state after the handlers ran for height `a` (only their counters and the call log change) -/
def St.afterHandlers (s : St) (a : Nat) : St :=
  { s with handlers := (runHandlers s a s.handlers 0).1, calls := s.calls ++ (runHandlers s a s.handlers 0).2.1 }

/-- did every handler return nil for height `a`? -/
def St.handlersOk (s : St) (a : Nat) : Bool := (runHandlers s a s.handlers 0).2.2

/-- `deleteSequential` from `a`, `n` heights: returns the state and the height that failed, if any -/
def St.delLoop (s : St) (a : Nat) : Nat → St × Option Nat
  | 0 => (s, none)
  | n+1 =>
    if a ∈ s.idx ∨ a ∈ s.pending then
      if s.handlersOk a then ((s.afterHandlers a).delOne a).delLoop (a+1) n
      else (s.afterHandlers a, some a)
    else s.delLoop (a+1) n        -- "attempt to delete header that's not found": skipped

/-- `head.IsZero() || to > head.Height()` in `setTail` -/
def St.tailOver (s : St) (to : Nat) : Bool :=
  match s.head with
  | none => true
  | some hd => decide (to > hd)

/-- `setTail(to)`: the head follows when the new tail lies above it (or the head is unset) -/
def St.setTail (s : St) (to : Nat) : St × Bool :=
  if !s.lookup to then (s, false) else
  if s.tailOver to then
    (({ s with tail := some to, tailPtr := some to, head := some to, headPtr := some to } : St).advance, true)
  else ({ s with tail := some to, tailPtr := some to }, true)

/-- `setHead(to)` -/
def St.setHead (s : St) (to : Nat) : St × Bool :=
  if !s.lookup to then (s, false) else
  ({ s with head := some to, headPtr := some to, hs := to }, true)

inductive DelRes | ok | err
deriving DecidableEq, Repr

/-- `DeleteRange` first waits for the write queue to drain (`Sync`) -/
def St.syncedForDelete (s0 : St) : St := { s0.sync with calls := [] }

/-- the pointer update at the end of `DeleteRange`, by kind and by the height that failed (if any) -/
def St.finishDelete (s1 : St) (k : Kind) (a b : Nat) (fail : Option Nat) : St × DelRes :=
  match k, fail with
  | .wipe, none => ({ s1 with head := none, tail := none, headPtr := none, tailPtr := none }, .ok)
  | .wipe, some h => ((s1.setTail h).1, .err)
  | .tailSide, none => ((s1.setTail b).1, if (s1.setTail b).2 then .ok else .err)
  | .tailSide, some h => ((s1.setTail h).1, .err)
  | .headSide, none =>
    if b > a then ((s1.setHead (a - 1)).1, if (s1.setHead (a - 1)).2 then .ok else .err) else (s1, .ok)
  | .headSide, some h => if h > a then ((s1.setHead (a - 1)).1, .err) else (s1, .err)

/-- `DeleteRange(a, b)` on a drained store -/
def St.deleteSynced (s : St) (a b : Nat) : St × DelRes :=
  match s.delKind a b with
  | none => (s, .err)
  | some k => (s.delLoop a (b - a)).1.finishDelete k a b (s.delLoop a (b - a)).2

/-- `DeleteRange(a, b)` -/
def St.deleteRange (s0 : St) (a b : Nat) : St × DelRes := s0.syncedForDelete.deleteSynced a b

/-! ### operations -/

inductive Op
  | append (hs : List Nat)
  | sync
  | delete (a b : Nat)
  | restart
  | onDelete (fails : List Nat)
deriving Repr

def St.step (s : St) : Op → St
  | .append hs => if hs.isEmpty then s else { s with queue := s.queue ++ [hs] }
  | .sync => s.sync
  | .delete a b => (s.deleteRange a b).1
  | .restart => s.restart
  | .onDelete f => { s with handlers := s.handlers ++ [{ fails := f }] }

def St.init (batch : Nat) : St := { batch := batch }

def St.run (batch : Nat) (ops : List Op) : St := ops.foldl St.step (St.init batch)

end GoHeader.Store
