/-
  DeleteRange on a context-aware datastore (deletes buffered in a write batch until the end) against readers that fill
  the header caches:
     deleter:  for h in range:  evict h from the caches ; put "delete h" into the batch
               commit the batch (the datastore loses the headers) ; evict every deleted header once more   -- (F24 repair)
     reader :  look h up: a cache hit, or a datastore read (which does NOT see the uncommitted batch) that fills the cache
  Heights stand for headers.  Every step is atomic; a schedule is any interleaving.
-/
namespace GoHeader.Store.DelCache

structure St where
  ds    : List Nat          -- headers in the datastore
  cache : List Nat          -- headers in the caches
  batch : List Nat          -- deletions buffered in the write batch
  todo  : List Nat          -- heights the deleter has not processed yet
  phase : Nat               -- 0 deleting, 1 batch committed, 2 done (evicted again)
  deriving Repr, DecidableEq

inductive Ev
  | del               -- the deleter's next step
  | read (h : Nat)    -- a reader looks h up
  deriving Repr, DecidableEq

/-- the deleter's next step. `again = true`: the repaired code (evict once more after the commit) -/
def stepDel (again : Bool) (s : St) : St :=
  match s.phase, s.todo with
  | 0, h :: rest => { s with cache := s.cache.filter (· != h), batch := h :: s.batch, todo := rest }
  | 0, [] => { s with ds := s.ds.filter (fun x => !s.batch.contains x), phase := 1 }
  | 1, _ => { s with cache := if again then s.cache.filter (fun x => !s.batch.contains x) else s.cache, phase := 2 }
  | _, _ => s

/-- a reader looks h up: cache hit, or a datastore read (blind to the uncommitted batch) that fills the cache -/
def stepRead (s : St) (h : Nat) : St :=
  if s.cache.contains h then s else if s.ds.contains h then { s with cache := h :: s.cache } else s

def step (again : Bool) (s : St) : Ev → St
  | .del => stepDel again s
  | .read h => stepRead s h

def init (stored range : List Nat) : St := { ds := stored, cache := [], batch := [], todo := range, phase := 0 }
def run (again : Bool) (stored range : List Nat) (evs : List Ev) : St := evs.foldl (step again) (init stored range)

end GoHeader.Store.DelCache
