/-
  A refused write of the tail pointer inside a tail-side DeleteRange, followed by a clean Stop / Start (C06).

  `setTail` publishes the new tail in memory FIRST and then writes the pointer key; `Stop` ends with a flush that writes
  both pointers from memory (F17); `Start` drops a pointer that names a header which is not stored. With that order a
  refused pointer write is healed by the final flush. (The seeded `settail-publish-after-persist` swaps the order: the
  in-memory tail then keeps naming the header that was just deleted.)
-/
namespace GoHeader.PtrFault

structure St where
  stored   : List Nat            -- heights in the datastore
  memTail  : Option Nat          -- Tail() of the running store
  diskTail : Option Nat          -- the persisted tail pointer
deriving DecidableEq, Repr

/-- tail-side DeleteRange(tail, to): the headers go, then `setTail(to)`; `fault` = the datastore refuses the pointer write;
    `publishFirst` = the code's order (memory, then disk) -/
def deleteTail (publishFirst : Bool) (s : St) (to : Nat) (fault : Bool) : St :=
  let stored := s.stored.filter (fun h => to ≤ h)
  if fault then
    { stored := stored, memTail := if publishFirst then some to else s.memTail, diskTail := s.diskTail }
  else
    { stored := stored, memTail := some to, diskTail := some to }

/-- clean Stop: the final flush persists the pointers from memory -/
def stop (s : St) : St := { s with diskTail := s.memTail }

/-- Start on the surviving data: a pointer to a header that is not stored is dropped -/
def reopen (s : St) : St :=
  let t := match s.diskTail with
    | some h => if s.stored.contains h then some h else none
    | none => none
  { s with memTail := t, diskTail := t }

/-- the Tail the running store reports resolves to a stored header -/
def TailResolves (s : St) : Prop := ∀ h, s.memTail = some h → h ∈ s.stored

theorem delete_fault_tail_resolves (s : St) (to : Nat) (hto : to ∈ s.stored) (fault : Bool) :
    TailResolves (deleteTail true s to fault) := by
  intro h hh
  cases fault <;> simp [deleteTail] at hh ⊢ <;> (subst hh; exact ⟨hto, Nat.le_refl _⟩)

/-- the refused pointer write is healed by a clean restart: same Tail before Stop and after Start -/
theorem fault_then_restart_same_tail (s : St) (to : Nat) (hto : to ∈ s.stored) (fault : Bool) :
    (reopen (stop (deleteTail true s to fault))).memTail = (deleteTail true s to fault).memTail := by
  cases fault <;> simp [deleteTail, stop, reopen, hto]

/-- the other order: after the refused write the running store reports a Tail that is gone, and loses it on restart -/
theorem persist_first_counterexample :
    let s : St := { stored := [1, 2, 3, 4, 5], memTail := some 1, diskTail := some 1 }
    (deleteTail false s 3 true).memTail = some 1 ∧ 1 ∉ (deleteTail false s 3 true).stored ∧
    (reopen (stop (deleteTail false s 3 true))).memTail = none := by decide

end GoHeader.PtrFault
