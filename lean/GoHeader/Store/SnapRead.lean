/-
  What an OnDelete handler can read while a DeleteRange runs on a context-aware datastore (finding F34).

  The deletion opens ONE read transaction when it starts: a snapshot of the datastore. Headers of the range may still be
  in the pending write batch at that moment. While the deletion runs, the flush loop may write the pending batch out
  (and empty it). A look-up goes: pending batch first, then the datastore - through the snapshot, or as it is now.
  `OnDelete` promises the handler that GetByHeight still finds the header.
-/
namespace GoHeader.SnapRead

structure St where
  disk    : List Nat   -- heights in the datastore now
  pending : List Nat   -- heights in the pending write batch
  snap    : List Nat   -- the datastore as the deletion's read transaction sees it
deriving DecidableEq, Repr

inductive Op
  | flush            -- the flush loop writes the pending batch out
  | append (h : Nat) -- a new header enters the pending batch
  | delete (h : Nat) -- the deleter removes h (buffered in its write batch: the datastore still has it until the commit)
deriving DecidableEq, Repr

def step (s : St) : Op → St
  | .flush => { s with disk := s.disk ++ s.pending, pending := [] }
  | .append h => { s with pending := s.pending ++ [h] }
  | .delete h => { s with pending := s.pending.filter (· != h) }

def run (s : St) (ops : List Op) : St := ops.foldl step s

/-- the deletion starts: its read transaction is a snapshot of the datastore -/
def openTxn (disk pending : List Nat) : St := { disk := disk, pending := pending, snap := disk }

/-- GetByHeight as the handler performs it; `current` = reads bypass the deletion's read transaction (the F34 repair) -/
def handlerFinds (current : Bool) (s : St) (h : Nat) : Bool :=
  s.pending.contains h || (if current then s.disk.contains h else s.snap.contains h)

/-- stored somewhere (and not yet handed to `delete`) -/
def Stored (s : St) (h : Nat) : Prop := h ∈ s.disk ∨ h ∈ s.pending

theorem step_keeps (s : St) (o : Op) (h : Nat) (hs : Stored s h) (hd : o ≠ .delete h) : Stored (step s o) h := by
  unfold Stored at *
  cases o with
  | flush =>
    simp only [step, List.mem_append, List.not_mem_nil, or_false]
    rcases hs with hs | hs
    · exact Or.inl hs
    · exact Or.inr hs
  | append k =>
    simp only [step, List.mem_append, List.mem_singleton]
    rcases hs with hs | hs
    · exact Or.inl hs
    · exact Or.inr (Or.inl hs)
  | delete k =>
    simp only [step, List.mem_filter]
    rcases hs with hs | hs
    · exact Or.inl hs
    · refine Or.inr ⟨hs, ?_⟩
      have : k ≠ h := fun e => hd (by rw [e])
      simp [bne_iff_ne, Ne.symm this]

/-- whatever the flush loop and appenders do while the deletion runs, a header of the range that has not been deleted yet
    is still stored somewhere -/
theorem run_keeps (ops : List Op) (s : St) (h : Nat) (hs : Stored s h) (hd : ∀ o ∈ ops, o ≠ .delete h) :
    Stored (run s ops) h := by
  induction ops generalizing s with
  | nil => exact hs
  | cons o os ih =>
    have h1 := step_keeps s o h hs (hd o (by simp))
    exact ih (step s o) h1 (fun o' ho' => hd o' (by simp [ho']))

/-- ... and a handler that reads the datastore AS IT IS finds it -/
theorem handler_finds_current (s : St) (h : Nat) (hs : Stored s h) : handlerFinds true s h = true := by
  unfold handlerFinds
  rcases hs with hs | hs
  · simp [hs]
  · simp [hs]

/-- before the repair: 2 is pending when the deletion starts, the batch is flushed, the handler of 2 reads through the
    snapshot and does not find it -/
theorem snapshot_misses : handlerFinds false (run (openTxn [1] [2, 3]) [.delete 1, .append 4, .flush]) 2 = false := by decide

example : handlerFinds true (run (openTxn [1] [2, 3]) [.delete 1, .append 4, .flush]) 2 = true := by decide

end GoHeader.SnapRead
