/-
  A tail-side DeleteRange(t0, to) racing the flush loop's handling of Append(n+1), at the granularity of the
  shared-memory accesses of store/store.go:

    flush loop (flush → advanceHead → recedeTail/nextTail):        deleter (DeleteRange → deleteSequential → setTail):
      start   : the header lands in `pending`                        deleting k : delete height k from the datastore
      wrote   : advanceHead publishes Head = n+1                     (k = to)   : setTail publishes Tail = to
      advanced: nextTail loads the tail pointer
      walking cur changed : look up cur-1; found → keep walking, not found → publish `cur` ONLY IF changed

  `has` is the union of pending and datastore as seen by getByHeight.  Every `step` is one atomic access;
  a schedule is an arbitrary list of "who moves next".
-/
namespace GoHeader.Store.TailRace

inductive FPc
  | start | wrote | advanced
  | walking (cur : Nat) (changed : Bool)
  | done
  deriving Repr, DecidableEq

inductive DPc
  | deleting (next : Nat)
  | done
  deriving Repr, DecidableEq

structure Cfg where
  t0 : Nat
  to : Nat
  n  : Nat

structure St where
  tail : Nat
  head : Nat
  has  : Nat → Bool
  f    : FPc
  d    : DPc

def init (c : Cfg) : St :=
  { tail := c.t0, head := c.n, has := fun h => decide (c.t0 ≤ h) && decide (h ≤ c.n), f := .start, d := .deleting c.t0 }

def stepF (s : St) : Option St :=
  match s.f with
  | .start => some { s with has := fun h => if h = s.head + 1 then true else s.has h, f := .wrote }
  | .wrote => some { s with head := s.head + 1, f := .advanced }
  | .advanced => some { s with f := .walking s.tail false }
  | .walking cur ch =>
    if s.has (cur - 1) then some { s with f := .walking (cur - 1) true }
    else some { s with tail := if ch then cur else s.tail, f := .done }
  | .done => none

def stepD (c : Cfg) (s : St) : Option St :=
  match s.d with
  | .deleting k =>
    if k < c.to then some { s with has := fun h => if h = k then false else s.has h, d := .deleting (k + 1) }
    else some { s with tail := c.to, d := .done }
  | .done => none

/-- `true`: the flush loop moves; `false`: the deleter moves.  A finished actor's turn is a no-op. -/
def step (c : Cfg) (s : St) (who : Bool) : St :=
  match (if who then stepF s else stepD c s) with
  | some s' => s'
  | none => s

def run (c : Cfg) (sched : List Bool) : St := sched.foldl (step c) (init c)

/-- the heights in 1..m that are readable -/
def St.stored (s : St) (m : Nat) : List Nat := (List.range (m + 1)).filter (fun h => h ≥ 1 && s.has h)

end GoHeader.Store.TailRace
