/-
  `store/heightsub.go` at the granularity of whole calls: the published height and the set of heights that have
  registered waiters. (The interleavings of ONE reader with the flusher inside a call are `Store.Conc`'s business; this
  model covers what `Store.Conc` starts after: a store that has NO head yet - fresh, or emptied by a whole-chain
  DeleteRange - and receives its first batch.)
-/
namespace GoHeader.HeightSub

structure St where
  height : Nat := 0
  subs   : List Nat := []     -- heights with parked waiters
deriving DecidableEq, Repr

/-- `Init(h)`: publish h and release every waiter STRICTLY below it -/
def init (s : St) (h : Nat) : St := { height := h, subs := s.subs.filter (fun x => h ≤ x) }

/-- `Notify(hs…)`: release the waiters of exactly these heights; the published height is untouched -/
def notify (s : St) (hs : List Nat) : St := { s with subs := s.subs.filter (fun x => !hs.contains x) }

/-- `SetHeight(h)`: only ever raises; releases the waiters from the old height up to h -/
def setHeight (s : St) (h : Nat) : St :=
  if s.height ≥ h then s else { height := h, subs := s.subs.filter (fun x => !(decide (s.height ≤ x) && decide (x ≤ h))) }

/-- a reader registers for h: refused ("elapsed") when h is published already -/
def register (s : St) (h : Nat) : St × Bool :=
  if s.height ≥ h then (s, false) else ({ s with subs := s.subs ++ [h] }, true)

/-- what the Store does with its FIRST batch a..b (`ensureInit` → Init(a); the flush → Notify(a..b); `advanceHead` →
    SetHeight(b)) -/
def firstBatch (s : St) (a b : Nat) : St := setHeight (notify (init s a) (List.range' a (b + 1 - a))) b

theorem mem_filter_of {p : Nat → Bool} {l : List Nat} {x : Nat} (h : x ∈ l.filter p) : x ∈ l ∧ p x = true :=
  List.mem_filter.mp h

/-- no lost wake-up on the first batch: whoever was parked - on any heights, registered at any time before - nobody is
    left waiting for a height the batch made available (or one below it) -/
theorem firstBatch_releases (s : St) (a b : Nat) (hab : a ≤ b) : ∀ x ∈ (firstBatch s a b).subs, b < x := by
  intro x hx
  unfold firstBatch setHeight at hx
  have key : ∀ y ∈ (notify (init s a) (List.range' a (b + 1 - a))).subs, b < y := by
    intro y hy
    simp only [notify, init] at hy
    have h1 := List.mem_filter.mp hy
    have h2 := List.mem_filter.mp h1.1
    have hay : a ≤ y := by simpa using h2.2
    have hny : ¬ (y ∈ List.range' a (b + 1 - a)) := by
      have h3 := h1.2
      intro hmem
      simp at h3
      rw [List.mem_range'_1] at hmem
      omega
    rw [List.mem_range'_1] at hny
    omega
  split at hx
  · exact key x hx
  · have := List.mem_filter.mp hx
    exact key x this.1

/-- ... and a reader that comes afterwards for a height of the batch is told that it is there already -/
theorem firstBatch_elapsed (s : St) (a b x : Nat) (_hab : a ≤ b) (hx : x ≤ b) : (register (firstBatch s a b) x).2 = false := by
  have hh : (firstBatch s a b).height ≥ b := by
    unfold firstBatch setHeight
    split
    · rename_i h; exact h
    · simp
  unfold register
  have : (firstBatch s a b).height ≥ x := by omega
  simp [this]

/-- a waiter parked on the first height itself (Init releases only those strictly below): released by the Notify -/
example : (firstBatch { height := 0, subs := [5, 9] } 5 5).subs = [9] := by decide

end GoHeader.HeightSub
