/-
  GoHeader.P2P.Server — model of /repo/p2p/server.go: `requestHandler` (origin + amount in uint64,
  status mapping, stream reset) and `handleRangeRequest` / `handleHeadRequest` over a store that
  holds the contiguous heights `tail..head` (C04) or nothing.
-/
import GoHeader.Prelude
namespace GoHeader.P2P

/-- the server's store: `none` = empty, `some (tail, head)` with 1 ≤ tail ≤ head -/
abbrev SStore := Option (Nat × Nat)

inductive Reply
  | notFound                 -- one response with status NOT_FOUND
  | reset                    -- the stream is reset, nothing is sent
  | ok (heights : List Nat)  -- OK responses carrying the store's headers at these heights, in order
deriving DecidableEq, Repr

def maxRange : Nat := 64   -- header.MaxRangeRequestSize (tied to the regenerated constant in Props/C10)

def hasAt (st : SStore) (h : Nat) : Bool :=
  match st with
  | none => false
  | some (tl, hd) => h != 0 && decide (tl ≤ h) && decide (h ≤ hd)

/-- `store.GetRange(a, b)` for `a < b ≤ head+1`: every height must be stored; the store is asked for `b - a` headers -/
def getRange (st : SStore) (a b : Nat) : Reply × Nat :=
  match st with
  | none => (.reset, b - a)
  | some (tl, _) => if tl ≤ a then (.ok (List.range' a (b - a)), b - a) else (.notFound, b - a)

/-- `requestHandler` for an origin request: reply and number of headers asked of the store -/
def handleRange (st : SStore) (origin amount : UInt64) : Reply × Nat :=
  let to := origin + amount              -- uint64 addition: wraps
  if origin ≥ to then (.reset, 0)        -- ErrRangeMixUp
  else if origin = 0 then                -- head request
    match st with
    | none => (.reset, 0)
    | some (_, hd) => (.ok [hd], 0)   -- Head() is a pointer read, not a header lookup
  else if (to - origin).toNat > maxRange then (.reset, 0)   -- ErrHeadersLimitExceeded
  else if !hasAt st (to.toNat - 1) then
    match st with
    | none => (.reset, 0)                                    -- ErrEmptyStore from Head()
    | some (_, hd) =>
      if hd < origin.toNat then (.notFound, 0)
      else if to.toNat - 1 ≤ hd then (.notFound, 0)          -- the end of the range lies below the tail
      else getRange st origin.toNat (hd + 1)                 -- serve the partial range up to head
  else getRange st origin.toNat to.toNat

def Reply.tag : Reply → String
  | .notFound => "NF"
  | .reset => "reset"
  | .ok hs => ",".intercalate (hs.map toString)

end GoHeader.P2P
