/-
  Life cycle of `p2p.Subscriber` (Start / Stop / Subscribe / Cancel) as far as the gossip gate of C11 depends on it:
  the topic validator (`verifyMessage`) has to be registered for as long as the topic is joined - otherwise whatever
  arrives is delivered to the open Subscriptions and relayed without having been decoded, validated or verified.

  pubsub facts used: RegisterTopicValidator fails on a duplicate; Join fails when the topic is joined already;
  Topic.Close fails while Subscriptions are open and is a no-op on a closed topic; UnregisterTopicValidator fails
  when there is none; Subscribe fails on a closed topic.
-/
namespace GoHeader.Lifecycle

structure St where
  joined    : Bool := false   -- the topic is joined (messages flow)
  validator : Bool := false   -- verifyMessage is registered as the topic validator
  subs      : Nat := 0        -- open Subscriptions
deriving DecidableEq, Repr

inductive Op | start | stop | subscribe | cancel
deriving DecidableEq, Repr

/-- `keepValidator` = the repaired Stop: when closing the topic fails, the validator stays. Result: new state, error? -/
def step (keepValidator : Bool) (s : St) : Op → St × Bool
  | .start =>
    if s.validator then (s, true)                                   -- duplicate validator
    else if s.joined then ({ s with validator := true }, true)      -- registered, then Join fails
    else ({ s with validator := true, joined := true }, false)
  | .stop =>
    if s.joined && s.subs > 0 then
      -- Topic.Close fails: the topic stays joined
      if keepValidator then (s, true)
      else ({ s with validator := false }, true)
    else
      ({ s with joined := false, validator := false }, !s.validator)  -- Unregister fails when there is none
  | .subscribe => if s.joined then ({ s with subs := s.subs + 1 }, false) else (s, true)
  | .cancel => ({ s with subs := s.subs - 1 }, false)

def run (k : Bool) (s : St) (ops : List Op) : St := ops.foldl (fun s o => (step k s o).1) s

/-- the gate is in place whenever messages can flow -/
def Inv (s : St) : Prop := s.joined = true → s.validator = true

theorem step_inv (s : St) (o : Op) (h : Inv s) : Inv (step true s o).1 := by
  unfold Inv at *
  cases o with
  | start =>
    simp only [step]
    split
    · exact h
    · split <;> simp
  | stop =>
    simp only [step]
    split
    · simpa using h
    · simp
  | subscribe => simp only [step]; split <;> simpa using h
  | cancel => simpa [step] using h

/-- with the repaired Stop: after ANY sequence of life-cycle calls, a joined topic has its validator -/
theorem run_inv (ops : List Op) (s : St) (h : Inv s) : Inv (run true s ops) := by
  induction ops generalizing s with
  | nil => exact h
  | cons o os ih => exact ih _ (step_inv s o h)

/-- before the repair: Start, Subscribe, Stop leaves the topic joined with no validator -/
theorem old_counterexample : ¬ Inv (run false {} [.start, .subscribe, .stop]) := by
  intro h
  have := h (by decide)
  revert this
  decide

end GoHeader.Lifecycle
