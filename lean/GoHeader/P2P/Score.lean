/-
  Peer scores of the range session (p2p/peer_stats.go), at the granularity that matters for the ordering of the
  peer queue: is the float32 score a finite number, +Inf, or NaN?  (A NaN is neither greater nor smaller than
  anything: `peerStats.Less` answers false both ways and the heap loses its order - finding F33.)

  Float facts used (IEEE 754, amounts are byte counts, far below the float32 range):
    finite / positive-finite = finite        finite / 0 = +Inf (amount > 0)
    (finite + finite) / 2 = finite           (x + Inf) / 2 = Inf for x finite or Inf
    x - x/100*20 : finite for finite x       Inf - Inf = NaN          anything with NaN = NaN
-/
namespace GoHeader.Score

inductive Cls | fin | inf | nan
deriving DecidableEq, Repr, Inhabited

/-- one outcome booked on a peer by `session.doRequest`: a success that took `ms` WHOLE milliseconds
    (`duration.Milliseconds()`, 0 for anything faster than a millisecond), or a NOT_FOUND / empty answer -/
inductive Ev | ok (ms : Nat) | fail
deriving DecidableEq, Repr

/-- the class of `float32(amount) / float32(ms)` guarded by `divide : Bool` -/
def speed (divide : Bool) (ms : Nat) : Cls := if divide && ms == 0 then .inf else .fin

/-- `(a + b) / 2` on classes -/
def avg : Cls → Cls → Cls
  | .nan, _ | _, .nan => .nan
  | .inf, _ | _, .inf => .inf
  | .fin, .fin => .fin

/-- `updateStats`; `zero` = the stored score is exactly 0.0 (the value is then replaced, not averaged).
    `guardMs` = the repaired guard (`if ms := duration.Milliseconds(); ms != 0`): no division when ms = 0;
    the code before divided whenever `duration != 0`, i.e. also by a millisecond count of 0. -/
def update (guardMs : Bool) (zero : Bool) (c : Cls) (ms : Nat) : Cls :=
  let sp := speed (!(guardMs && ms == 0)) ms
  if zero then sp else avg c sp

/-- `decreaseScore`: `p -= p / 100 * 20` -/
def decrease : Cls → Cls
  | .fin => .fin
  | .inf => .nan      -- Inf - Inf
  | .nan => .nan

def step (guardMs : Bool) (c : Cls) : Ev → Cls
  | .ok ms => update guardMs false c ms
  | .fail => decrease c

def run (guardMs : Bool) (c : Cls) (evs : List Ev) : Cls := evs.foldl (step guardMs) c

theorem step_fixed_fin (e : Ev) : step true .fin e = .fin := by
  cases e with
  | ok ms => simp [step, update, speed, avg]
  | fail => rfl

/-- with the repaired guard a finite score stays finite under every sequence of outcomes -/
theorem run_fixed_fin (evs : List Ev) : run true .fin evs = .fin := by
  induction evs with
  | nil => rfl
  | cons e es ih => simp only [run, List.foldl_cons, step_fixed_fin] at *; exact ih

/-- ... also from a score of exactly 0 (first booking replaces the value) -/
theorem update_fixed_zero (c : Cls) (ms : Nat) : update true true c ms = .fin := by
  simp [update, speed]

/-- before the repair: one sub-millisecond success and one NOT_FOUND make the score NaN, for good -/
theorem old_reaches_nan : run false .fin [.ok 0, .fail] = .nan := by decide

theorem nan_absorbing (g : Bool) (evs : List Ev) : run g .nan evs = .nan := by
  induction evs with
  | nil => rfl
  | cons e es ih =>
    have : step g .nan e = .nan := by cases e <;> simp [step, update, avg, decrease]
    simp only [run, List.foldl_cons, this] at *; exact ih

end GoHeader.Score
