/-
  GoHeader.P2P.Head — model of `Exchange.Head` (/repo/p2p/exchange.go): per-response
  classification (request error / invalid / Verify against the trusted head) and the collection loop
  over the ARRIVAL ORDER of the answers with the quorum rule `minHeadResponses`.
-/
import GoHeader.Prelude
namespace GoHeader.P2P

/-- `minHeadResponses` (also regenerated from exchange.go, tied in Props/C09) -/
def minHeadResponses (numPeers : Nat) : Nat :=
  if numPeers ≤ 2 then numPeers else (numPeers * 2 + 2) / 3

/-- outcome of `header.Verify(TrustedHead, h)` for a received head -/
inductive VOut | ok | soft | hard
deriving DecidableEq, Repr

/-- what one asked peer does -/
inductive PeerResp
  | fail                         -- request error, NOT_FOUND, undecodable, failing Validate, wrong chain id
  | head (id height : Nat) (v : VOut)   -- a decodable, valid head with hash `id`; `v` = its verdict against the trusted head
  | hang                         -- never answers (until the caller's context ends)
deriving DecidableEq, Repr

/-- what the collection loop receives from one peer's goroutine -/
inductive Ans
  | zero                                   -- headResp{h: zero}
  | hdr (id height : Nat) (soft : Bool)    -- headResp{h, softErr}
deriving DecidableEq, Repr

/-- the goroutine per peer: verification only when a trusted head was given (`useTracked`) -/
def classify (useTracked : Bool) : PeerResp → Option Ans
  | .hang => none
  | .fail => some .zero
  | .head id h v =>
    if !useTracked then some (.hdr id h false)
    else match v with
      | .ok => some (.hdr id h false)
      | .soft => some (.hdr id h true)
      | .hard => some .zero

inductive HeadRes
  | found (id height : Nat) (soft : Bool)   -- (header, nil) or (header, its soft *VerifyError)
  | notFound                                -- (zero, ErrNotFound)
  | ctxErr                                  -- (zero, ctx.Err()): somebody never answered and no quorum formed
deriving DecidableEq, Repr

def countId (l : List (Nat × Nat × Bool)) (id : Nat) : Nat := (l.filter (fun x => x.1 == id)).length

/-- highest collected header (`sort.Slice` by height, descending; among equal heights any may come first) -/
def highest : List (Nat × Nat × Bool) → Option (Nat × Nat × Bool)
  | [] => none
  | x :: xs => match highest xs with
    | none => some x
    | some y => if y.2.1 > x.2.1 then some y else some x

/-- the collection loop over the answers in arrival order; `n` = number of asked peers -/
def collect (n : Nat) : List Ans → List (Nat × Nat × Bool) → Nat → HeadRes
  | [], acc, got =>
    if got < n then .ctxErr            -- still waiting when the context ended
    else match highest acc with
      | none => .notFound
      | some (id, h, s) => .found id h s
  | .zero :: rest, acc, got => collect n rest acc (got + 1)
  | .hdr id h s :: rest, acc, got =>
    let acc' := acc ++ [(id, h, s)]
    if countId acc' id ≥ minHeadResponses n then .found id h s
    else collect n rest acc' (got + 1)

/-- `Exchange.Head`: `arrival` = the asked peers' behaviours in the order their answers arrive
    (hanging peers contribute nothing) -/
def head (useTracked : Bool) (n : Nat) (arrival : List PeerResp) : HeadRes :=
  collect n (arrival.filterMap (classify useTracked)) [] 0

end GoHeader.P2P
