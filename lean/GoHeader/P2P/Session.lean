/-
  GoHeader.P2P.Session — model of the range session, /repo/p2p/session.go + Exchange.GetRangeByHeight:
  `prepareRequests`, the multiset of outstanding sub-requests, what one answered request does
  (`processResponses` ∘ `VerifyRange` against `from` ∘ origin check ⇒ accept the first k heights /
  re-queue), the re-request of the remainder, and the final sort.
-/
import GoHeader.Prelude
namespace GoHeader.Sess

structure Req where
  origin : Nat
  amount : Nat
deriving DecidableEq, Repr

def Req.heights (r : Req) : List Nat := List.range' r.origin r.amount

structure St where
  first : Nat             -- from.Height() + 1
  amount : Nat            -- to - first
  outstanding : List Req  -- reqCh ∪ in flight (a request in flight is still owed)
  collected : List Nat    -- heights of the verified headers received so far
deriving Repr

/-- one answered request after all checks: failure (the request goes back unchanged) or the first
    `k` heights of the request were accepted -/
inductive Outcome | fail | ok (k : Nat)
deriving DecidableEq, Repr

def step (s : St) (i : Nat) (o : Outcome) : St :=
  match s.outstanding[i]? with
  | none => s
  | some r =>
    match o with
    | .fail => s
    | .ok k =>
      if k = 0 ∨ k > r.amount then s else
      let rest := s.outstanding.eraseIdx i
      let more := if k < r.amount then [{ origin := r.origin + k, amount := r.amount - k : Req }] else []
      { s with collected := s.collected ++ List.range' r.origin k, outstanding := rest ++ more }

/-- `prepareRequests(from, amount, headersPerPeer)` -/
def prepare (origin amount per : Nat) : Nat → List Req
  | 0 => []
  | fuel+1 =>
    if amount = 0 then [] else
    if amount < per then [{ origin, amount }] else
    { origin, amount := per } :: prepare (origin + per) (amount - per) per fuel

/-- `Exchange.GetRangeByHeight(from, to)` start state; `none` = the request is rejected up front -/
def start (fromH to per : Nat) : Option St :=
  if to ≤ fromH + 1 then none
  else some { first := fromH + 1, amount := to - (fromH + 1),
              outstanding := prepare (fromH + 1) (to - (fromH + 1)) per (to - (fromH + 1)), collected := [] }

/-- the result once enough headers were collected: the collected headers sorted by height -/
def result (s : St) : Option (List Nat) :=
  if s.collected.length ≥ s.amount then some (s.collected.mergeSort (fun x y => decide (x ≤ y))) else none

/-- scripted peer behaviours of the harness (a peer holds the genuine chain up to `have`) -/
inductive Beh
  | honest | pfx (k : Nat) | shift (d : Nat) | dup | reorder | gapped | forged | wrongchain
  | oversized | status | garbage | notfound | empty | reset | hang
deriving DecidableEq, Repr

/-- what the client makes of a peer's answer to request `r` -/
def outcome (have_ : Nat) (r : Req) : Beh → Outcome
  | .honest | .oversized => if r.origin ≤ have_ then .ok (min r.amount (have_ + 1 - r.origin)) else .fail
  | .pfx k => if r.origin ≤ have_ then .ok (min k (min r.amount (have_ + 1 - r.origin))) else .fail
  | .shift d => if d = 0 then .ok r.amount else .fail          -- wrong origin
  | .dup => if r.origin > r.amount then .fail else .ok r.amount  -- wrong origin (or the same chunk)
  | .reorder => if r.amount ≥ 2 then .fail else .ok r.amount
  | .gapped => if r.amount ≥ 2 then .fail else .ok r.amount
  | .forged | .wrongchain | .status | .garbage | .notfound | .empty | .reset | .hang => .fail

end GoHeader.Sess
