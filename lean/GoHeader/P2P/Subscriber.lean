/-
  GoHeader.P2P.Subscriber — model of the gossip topic validator, /repo/p2p/subscriber.go:
  `verifyMessage` + `extractHeader`.
-/
import GoHeader.Prelude
namespace GoHeader.P2P

/-- what the payload does to `extractHeader` -/
inductive Extract
  | ok               -- decodes (or ValidatorData of the right type) and Validate returns nil
  | decodeErr        -- UnmarshalBinary returns an error
  | validateErr      -- Validate returns an error
  | panics           -- UnmarshalBinary / Validate / the ValidatorData type assertion panics
deriving DecidableEq, Repr

/-- every outcome of the registered verifier -/
inductive VOutcome
  | nil_ | soft | hard | wrapSoft | wrapHard | plain | panic
  | unset            -- no verifier registered before the validation context ended
deriving DecidableEq, Repr

inductive Verdict | accept | ignore | reject
deriving DecidableEq, Repr

/-- `errors.As(err, &verErr) && verErr.SoftFailure` -/
def VOutcome.isSoft : VOutcome → Bool
  | .soft | .wrapSoft => true
  | _ => false

/-- `verifyMessage` (the deferred recover turns every panic into Reject) -/
def verifyMessage (e : Extract) (o : VOutcome) : Verdict :=
  match e with
  | .panics => .reject
  | .decodeErr => .reject
  | .validateErr => .reject
  | .ok =>
    match o with
    | .unset => .ignore
    | .panic => .reject
    | .nil_ => .accept
    | o => if o.isSoft then .ignore else .reject

end GoHeader.P2P
