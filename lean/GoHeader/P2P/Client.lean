/-
  GoHeader.P2P.Client — model of `Exchange.Get` / `GetByHeight` (/repo/p2p/exchange.go:
  performRequest + request + processResponses + validateChainID) over the arrival order of the
  trusted peers' answers.
-/
import GoHeader.Prelude
namespace GoHeader.P2P

/-- what one trusted peer's answer amounts to after `request` processed it -/
inductive GAns
  | fail                       -- stream error, empty, NOT_FOUND, unknown status, undecodable, failing Validate, wrong chain id
  | valid (id height : Nat)    -- a decoded, validated header of the configured chain with hash `id`
  | hang                       -- no answer before the request timeout
deriving DecidableEq, Repr

inductive GRes
  | ok (id height : Nat)
  | err
deriving DecidableEq, Repr

/-- `performRequest`: the first valid answer in arrival order wins; all failing (or timing out) ⇒ error -/
def performRequest : List GAns → Option (Nat × Nat)
  | [] => none
  | .valid id h :: _ => some (id, h)
  | _ :: rest => performRequest rest

/-- `Exchange.GetByHeight` (no trusted peers ⇒ error) -/
def getByHeight (height : Nat) (arrival : List GAns) : GRes :=
  if height = 0 then .err else
  match performRequest arrival with
  | some (id, h) => .ok id h
  | none => .err

/-- `Exchange.Get`: the fetched header's hash must equal the requested one -/
def getByHash (hash : Nat) (arrival : List GAns) : GRes :=
  match performRequest arrival with
  | some (id, h) => if id = hash then .ok id h else .err
  | none => .err

end GoHeader.P2P
