import GoHeader.Oracle.Common
import GoHeader.Sync.Bifurcate
namespace GoHeader.Oracle
open GoHeader GoHeader.Bif

/-- the harness' type-level predicate: trust range R (0 = unlimited); a forged candidate fails against everyone -/
def c15tv (R new : Nat) (forged : Bool) : Nat → Nat → Bool := fun a b =>
  if forged && b == new then false else (R == 0 || decide (b - a ≤ R))

def chainOkB (tv : Nat → Nat → Bool) : Nat → List Nat → Nat → Bool
  | a, [], b => verify tv a b == .ok
  | a, x :: xs, b => verify tv a x == .ok && chainOkB tv x xs b

def log2up : Nat → Nat
  | 0 => 0
  | n+1 => Nat.log2 (n+1) + 1

/-- C15 from the property text on the implementation's observation -/
def c15_ok (subj new R : Nat) (forged : Bool) (failH : Option Nat) (res : String) (reqs promoted : List Nat) : Option String :=
  let tv := c15tv R new forged
  let d := new - subj
  if res == "nonterminating" then some "c15_terminates" else
  if res == "other" || res == "soft" then some "c15_result_class" else
  -- accepted ⇒ a chain of successful verifications through the promoted intermediates exists
  if res == "ok" && !chainOkB tv subj promoted new then some "c15_sound" else
  if res == "ok" && forged then some "c15_forged_refused" else
  -- only verified intermediates fetched from the getter are promoted
  if !promoted.all (fun p => reqs.contains p) then some "c15_promoted_fetched" else
  if !(chainOkB tv subj promoted.dropLast (promoted.getLast?.getD subj) || promoted.isEmpty) then some "c15_promoted_verified" else
  -- bounded number of requests
  if reqs.length > d * (d + 3) + 1 then some "c15_request_bound" else
  if reqs.length > (d + 1) * (log2up d + 2) then some "c15_request_bound_nlogn" else
  -- soft failures only trigger bifurcation
  if verify tv subj new != .soft && !reqs.isEmpty then some "c15_only_soft_bifurcates" else
  -- a failing fetch of a requested intermediate refuses
  if (match failH with | some h => reqs.contains h | none => false) && res == "ok" then some "c15_getter_failure_refuses" else
  -- completeness for trust-range predicates with an honest getter
  if !forged && failH.all (fun h => !reqs.contains h) && d ≥ 1 && res != "ok" then some "c15_complete" else
  none

/-- the candidate arrives through Syncer.Head: same acceptance rule, same requests as `syncerVerify` -/
def evalC15HeadPath (ins outs : List String) : Verdict :=
  match kvNat? ins "subj", kvNat? ins "new", kvNat? ins "R", kvNat? ins "forged", kv? outs "head", (kv? outs "requests").bind natList?, kvNat? outs "local" with
  | some subj, some new, some R, some forged, some head, some reqs, some lcl =>
    let tv := c15tv R new (forged == 1)
    let m := syncerVerify tv (fun _ => true) subj new
    if forged == 1 && (head == toString new || lcl == new) then .prop "c15_forged_refused" s!"head={head} local={lcl}" else
    if forged == 1 && (head != toString (m.2.promoted.getLast?.getD subj) || lcl != m.2.promoted.getLast?.getD subj) then
      .corr "subjective head after a refused candidate" (toString (m.2.promoted.getLast?.getD subj)) s!"{head}/{lcl}" else
    if forged == 0 && (head != toString new || lcl != new) then .prop "c15_complete" s!"Head()={head} subjective head={lcl}: a candidate with a verifiable path was not accepted (requests={reqs})" else
    if verify tv subj new == .soft && m.2.requests != reqs then .corr "requests" (toString m.2.requests) (toString reqs) else
    if verify tv subj new != .soft && !reqs.isEmpty then .prop "c15_only_soft_bifurcates" s!"requests={reqs}" else
    .ok s!"headpath-{if forged == 1 then "forged" else "ok"}"
  | _, _, _, _, _, _, _ => .bad "C15 headpath fields"

def evalC15 (ins outs : List String) : Verdict :=
  if kv? ins "kind" == some "headpath" then evalC15HeadPath ins outs else
  match kvNat? ins "subj", kvNat? ins "new", kvNat? ins "R", kvNat? ins "forged", kvInt? ins "failH",
        kv? outs "res", (kv? outs "requests").bind natList?, (kv? outs "pending").bind natList?, kvNat? outs "storehead" with
  | some subj, some new, some R, some forged, some failH, some res, some reqs, some pend0, some storehead =>
    -- failH = -2: the getter answers not-found for EVERY height; the first requested height is the one that fails
    let fh : Option Nat := if failH == -2 then reqs.head? else if failH < 0 then none else some failH.toNat
    -- promoted intermediates adjacent to the store head were stored right away, the others wait in `pending`
    let pend := List.range' (subj + 1) (storehead - subj) ++ pend0
    let promoted := if res == "ok" then pend.dropLast else pend
    match c15_ok subj new R (forged == 1) fh res reqs promoted with
    | some c => .prop c s!"res={res} requests={reqs} pending={pend}"
    | none =>
      let tv := c15tv R new (forged == 1)
      let get : Nat → Bool := fun h => fh != some h
      let m := syncerVerify tv get subj new
      let mres := match m.2.verdict, m.1 with
        | .accept, _ => "ok" | .rejectHard, _ => "hard" | .rejectFinal, _ => "final" | .getterErr, _ => "geterr"
      if mres != res then .corr "verdict" mres res
      else if m.2.requests != reqs then .corr "requests" (toString m.2.requests) (toString reqs)
      else if m.2.promoted != promoted then .corr "promoted" (toString m.2.promoted) (toString promoted)
      else .ok s!"{mres}{if reqs.isEmpty then "-direct" else ""}"
  | _, _, _, _, _, _, _, _, _ => .bad "C15 fields"

end GoHeader.Oracle
