import GoHeader.Sync.Trigger
import GoHeader.Oracle.Common
import GoHeader.Sync.Machine
import GoHeader.Oracle.Ranges
namespace GoHeader.Oracle
open GoHeader GoHeader.Mach

structure SyncSt where
  m : SM := { head := 0 }
  R : Nat := 0
  pending : Option (List String) := none
  maxValid : Nat := 0            -- newest valid head delivered so far
  sawError : Bool := false       -- a getter fault / contract violation has been scripted and may have been hit
  fail : Option Verdict := none
  kinds : List String := []
  loose : Bool := false          -- the sync loop raced a bifurcation while getter faults were scripted: only verdicts are compared from here on

def SyncSt.flag (o : SyncSt) (v : Verdict) : SyncSt := if o.fail.isSome then o else { o with fail := some v }

def respOfS? (s : String) : Option Resp :=
  match s.splitOn ":" with
  | ["ok"] => some .ok | ["err"] => some .err | ["errcanceled"] => some .err | ["hold"] => some .ok | ["empty"] => some .empty | ["shift"] => some .shift
  | ["prefix", k] => k.toNat?.map .pfx
  | _ => none

def gossipOf? (kind : String) (h : Nat) : Option Gossip :=
  match kind with
  | "valid" => some (.valid h) | "forged" => some (.forged h) | "fork" => some (.otherFork h)
  | "forgedfault" => some (.mandatoryBad h)   -- bifurcation cannot fetch anything: refused, nothing promoted
  | "wrongchain" | "future" | "pasttime" => some (.mandatoryBad h)
  | _ => none

/-- C03 on one observation of the store at quiescence -/
def c03_store_ok (stored : String) (head tail : Nat) : Option String :=
  let cs := stored.toList
  if cs.any (· == 'X') then some "c03_only_verified_headers_stored" else
  if !(List.range cs.length).all (fun h => (cs.getD h 'N' == 'G') == (tail ≤ h && h ≤ head && h ≥ 1)) then some "c03_one_contiguous_run" else none

def syncLine (o : SyncSt) (line : String) : SyncSt :=
  if o.fail.isSome then o else
  let toks := splitWs line
  match toks with
  | "case" :: _ :: _ :: rest =>
    match kvNat? rest "store", kvNat? rest "R", kv? rest "script" with
    | some store, some R, some script =>
      match ((script.splitOn "/").drop 1).mapM respOfS? with
      | some sc => { o with m := { head := store, script := sc }, R := R, maxValid := store,
                            sawError := sc.any (fun r => r == .err || r == .empty || r == .shift) }
      | none => o.flag (.bad "script")
    | _, _, _ => o.flag (.bad "C03 case header")
  | "op" :: _ => { o with pending := some toks }
  | "ob" :: rest =>
    let checkStore (o : SyncSt) : SyncSt :=
      match kv? rest "stored", kvNat? rest "head", kvNat? rest "tail" with
      | some stored, some head, some tail =>
        match c03_store_ok stored head tail with
        | some c => o.flag (.prop c line)
        | none => o
      | _, _, _ => o
    match o.pending with
    | some ["op", "start"] => checkStore { o with pending := none }
    | some ["op", "wait"] =>
      let o := { o with pending := none }
      -- SyncWait returns once the (error-free) sync is finished
      if kv? rest "syncwait" == some "ok" || o.m.err then o else o.flag (.prop "c07_syncwait_returns" line)
    | some ["op", "gossip", kind, hs] =>
      let o := checkStore { o with pending := none }
      match hs.toNat?, kv? rest "verdict", kvNat? rest "head", kvNat? rest "target", kvNat? rest "err", kvNat? rest "finished" with
      | some h, some verdict, some head, some target, some err, some finished =>
        match gossipOf? kind h with
        | none => o.flag (.bad "gossip kind")
        | some g =>
          let r := o.m.gossip g
          let mv := if r.2 == .accept then "accept" else "refuse"
          -- property predicates
          let o := if kind != "valid" && verdict == "accept" then o.flag (.prop "c03_invalid_gossip_refused" line) else o
          let o := if kind == "valid" then { o with maxValid := max o.maxValid (if verdict == "accept" then h else 0) } else o
          -- C07: with a contract-abiding, error-free getter the store reaches the newest verified target
          let o := if !o.sawError && verdict == "accept" && (head != h || err != 0 || finished != 1) then
              o.flag (.prop "c07_reaches_target" line) else o
          -- C07: an error loses nothing
          let o := if head < o.m.head then o.flag (.prop "c07_nothing_lost" line) else o
          if o.fail.isSome then o else
          -- correspondence
          -- with a trust range AND getter faults the sync loop races the bifurcation's promotions: which sync run
          -- meets the fault is scheduling-dependent, so only the verdict and the properties are compared there
          let o := if o.sawError && (o.R != 0 || kind == "forged" || kind == "fork") then { o with loose := true } else o
          if o.loose then
            (if mv != (if verdict == "accept" then "accept" else "refuse") then o.flag (.corr "verdict" mv verdict)
             else { o with m := ({ head := head, err := err == 1, script := r.1.script,
                                   pending := if target > head then [target] else [] } : SM) })
          else
          if mv != (if verdict == "accept" then "accept" else "refuse") then o.flag (.corr "verdict" mv verdict)
          else if r.1.head != head then o.flag (.corr "store head" (toString r.1.head) (toString head))
          else if r.1.target != target then o.flag (.corr "target" (toString r.1.target) (toString target))
          else if r.1.err != (err == 1) then o.flag (.corr "state.error" (toString r.1.err) (toString err))
          else { o with m := r.1, kinds := if o.kinds.contains s!"{kind}-{mv}" then o.kinds else o.kinds ++ [s!"{kind}-{mv}"] }
      | _, _, _, _, _, _ => o.flag (.bad "gossip ob")
    | _ => o.flag (.bad s!"unexpected ob {line}")
  | ["end"] => o
  | _ => o.flag (.bad s!"line {line}")

/-- the gossip handler stopped inside syncStore.Append while the sync loop runs ahead: whatever happens in between,
    the Syncer ends at the target with a finished, error-free state and Head() reports the target -/
def evalAppendRace (ins outs : List String) : Verdict :=
  match kvNat? ins "target", kv? outs "start", kv? outs "gossip", kv? outs "head1", kv? outs "head2", kvNat? outs "head", kvNat? outs "err", kvNat? outs "finished",
        kv? outs "stored", kvNat? outs "tail" with
  | some target, some "ok", some gossip, some h1, some h2, some head, some err, some fin, some stored, some tail =>
    match c03_store_ok stored head tail with
    | some c => .prop c "appendrace"
    | none =>
      if gossip == "hang" || h1 == "hang" then .prop "c07_state_finished" s!"gossip={gossip} head1={h1}" else
      if head != target then .prop "c07_reaches_target" s!"head={head} target={target}" else
      if h2 != toString target then .prop "c19_subjective_head_is_newest" s!"Head()={h2} target={target}" else
      if err != 0 || fin != 1 then .prop "c07_state_finished" s!"err={err} finished={fin}" else .ok "appendrace"
  | _, some s, _, _, _, _, _, _, _, _ => .prop "c07_state_finished" s!"appendrace start={s}"
  | _, _, _, _, _, _, _, _, _, _ => .bad "appendrace fields"

/-- the same head learned by gossip and by Head() while its sync runs, then a later head: ends at the newest -/
def evalDupHead (ins outs : List String) : Verdict :=
  match kvNat? ins "n2", kv? outs "start", kv? outs "gossip1", kv? outs "gossip2", kvNat? outs "head", kvNat? outs "err", kvNat? outs "finished",
        kv? outs "syncwait", kv? outs "stored", kvNat? outs "tail" with
  | some n2, some "ok", some g1, some g2, some head, some err, some fin, some sw, some stored, some tail =>
    match c03_store_ok stored head tail with
    | some c => .prop c "duphead"
    | none =>
      if g1 != "accept" || g2 != "accept" then .prop "c03_valid_gossip_accepted" s!"gossip1={g1} gossip2={g2}" else
      if head != n2 then .prop "c07_reaches_target" s!"head={head} newest={n2}" else
      if err != 0 || fin != 1 || sw != "ok" then .prop "c07_state_finished" s!"err={err} finished={fin} syncwait={sw}" else .ok "duphead"
  | _, some s, _, _, _, _, _, _, _, _ => .prop "c07_state_finished" s!"duphead start={s}"
  | _, _, _, _, _, _, _, _, _, _ => .bad "duphead fields"

/-- restart with the wanted tail above the stored head, first catch-up meets a getter fault, a later head retries:
    at quiescence one gap-free run ending at the newest head -/
def evalTailAbove (ins outs : List String) : Verdict :=
  match (kv? ins "heads").bind natList?, kv? outs "start", kvNat? outs "head", kvNat? outs "err", kvNat? outs "finished", kv? outs "stored", kvNat? outs "tail" with
  | some heads, some "ok", some head, some err, some fin, some stored, some tail =>
    match c03_store_ok stored head tail with
    | some c => .prop c s!"tailabove: head={head} tail={tail} stored={stored}"
    | none =>
      if head != heads.foldl max 0 then .prop "c03_one_contiguous_run" s!"the Syncer reports being synced (err={err} finished={fin}) while the store's contiguous head is {head}, newest accepted head {heads.foldl max 0}" else
      .ok "tailabove"
  | _, some s, _, _, _, _, _ => .ok s!"tailabove-start-{s}"
  | _, _, _, _, _, _, _ => .bad "tailabove fields"

/-- gossip whose validation context ends while the Syncer is not (or never got) started: refused, never accepted unseen -/
def evalStartWindow (outs : List String) : Verdict :=
  match kv? outs "duringstart", kv? outs "start2", kv? outs "afterfailedstart" with
  | some d, some s2, some a =>
    if d == "accept" then .prop "c03_invalid_gossip_refused" "a forged header gossiped while Start was still running was accepted when its validation context ended" else
    if s2 == "err" && a == "accept" then .prop "c03_invalid_gossip_refused" "after a failed Start a gossiped header was accepted without having been verified" else
    .ok "startwindow"
  | _, _, _ => .bad "startwindow fields"

/-- the same Syncer stopped and started again: a skipping head learned afterwards is synced -/
def evalRestartSync (outs : List String) : Verdict :=
  match kv? outs "start", kv? outs "stop", kv? outs "start2", kv? outs "verdicts", kvNat? outs "head", kvNat? outs "err", kvNat? outs "finished", kv? outs "stored", kvNat? outs "tail" with
  | some "ok", some "ok", some "ok", some vs, some head, some err, some fin, some stored, some tail =>
    match c03_store_ok stored head tail with
    | some c => .prop c "restartsync"
    | none =>
      if vs != "accept,accept" then .prop "c03_valid_gossip_accepted" s!"verdicts={vs}" else
      if head != 35 then .prop "c07_reaches_target" s!"after Stop/Start the head 35 was accepted but never synced: store head {head}" else
      if err != 0 || fin != 1 then .prop "c07_state_finished" s!"err={err} finished={fin}" else .ok "restartsync"
  | some a, some b, some c, _, _, _, _, _, _ => .prop "c07_state_finished" s!"restartsync: start={a} stop={b} start2={c}"
  | _, _, _, _, _, _, _, _, _ => .bad "restartsync fields"

/-- heads learned while a sync is running must be synced as well -/
def evalBurst (ins outs : List String) : Verdict :=
  if kv? ins "kind" == some "ranges" then evalRanges ins outs else
  if kv? ins "kind" == some "forkrace" then evalForkRace outs else
  if kv? ins "kind" == some "addrace" then evalAddRace outs c03_store_ok else
  if kv? ins "kind" == some "emptiedwindow" then evalEmptiedWindow ins outs c03_store_ok else
  if kv? ins "kind" == some "restartsync" then evalRestartSync outs else
  if kv? ins "kind" == some "startwindow" then evalStartWindow outs else
  if kv? ins "kind" == some "tailabove" then evalTailAbove ins outs else
  if kv? ins "kind" == some "duphead" then evalDupHead ins outs else
  if kv? ins "kind" == some "appendrace" then evalAppendRace ins outs else
  match (kv? ins "heads").bind natList?, kvNat? outs "head", kvNat? outs "err", kvNat? outs "finished", kv? outs "syncwait", kv? outs "stored", kvNat? outs "tail" with
  | some heads, some head, some err, some fin, some sw, some stored, some tail =>
    let want := heads.foldl max 0
    match c03_store_ok stored head tail with
    | some c => .prop c "burst"
    | none =>
      -- the same interleaving on the hand-over model (theorem c07_no_lost_trigger): the first head starts a sync, the
      -- others are handed to setLocalHead while it runs, then the loop runs until it is idle
      let g3 := fun (h : Nat) => [SyncTrigger.Ev.g 0 h, .g 0 h, .g 0 h]
      let evs := (match heads with | [] => [] | h :: rest => g3 h ++ [.l, .l] ++ rest.flatMap g3) ++ List.replicate 10 SyncTrigger.Ev.l
      let m := SyncTrigger.run 10 1 evs
      if m.sh != want then .bad s!"burst: the model schedule ends at {m.sh}" else
      if head != want then .prop "c07_heads_during_sync_are_synced" s!"head={head} newest={want}"
      else if err != 0 || fin != 1 || sw != "ok" then .prop "c07_state_finished" s!"err={err} finished={fin} syncwait={sw}"
      else .ok "burst"
  | _, _, _, _, _, _, _ => .prop "c07_heads_during_sync_are_synced" "burst case did not start"

def syncFinish (o : SyncSt) : Verdict :=
  match o.fail with
  | some v => v
  | none => .ok s!"sync:{",".intercalate o.kinds}{if o.m.err then "+err" else ""}"

end GoHeader.Oracle
