import GoHeader.Oracle.C01
namespace GoHeader.Oracle
open GoHeader

/-- one element of the printed input sequence: `Z` or `chain:height:time:tv` -/
def parseElem? (s : String) : Option (Hdr × TV) :=
  if s = "Z" then some ({ zero := true }, .ok)
  else match s.splitOn ":" with
    | [c, h, t, tv] => do
      let c ← c.toNat?; let h ← h.toNat?; let t ← t.toInt?; let tv ← TV.ofString? tv
      pure ({ chain := c, height := h, time := t }, tv)
    | _ => none

/-- In the harness the scripted verdict travels with the untrusted header; the model's `tv` looks it
    up by position: headers get their index as `id`. -/
def tvOf (tvs : List TV) : Hdr → Hdr → TV := fun _ u => tvs.getD u.id .ok

/-- C02 as a decidable predicate on (inputs, len of result, prefix-by-identity flag, error tag). -/
def c02_ok (now drift : Int) (tv : Hdr → Hdr → TV) (t : Hdr) (us : List Hdr)
    (len : Nat) (isPrefix : Bool) (err : ImplV) : Option String :=
  if !isPrefix || len > us.length then some "c02_prefix" else
  let r := us.take len
  -- every element verified against its predecessor; adjacency from the first element on
  let rec chain (p : Hdr) (first : Bool) : List Hdr → Bool
    | [] => true
    | u :: rest => (Verify now drift tv p u).isNone && (first || u.height == p.height + 1) && chain u false rest
  if !chain t true r then some "c02_chain" else
  if (err == .nil_) != (us != [] && len == us.length) then some "c02_nil_iff" else
  if us == [] && err == .nil_ then some "c02_empty" else
  if err == .notVE then some "c02_always_verifyerror" else
  -- the first failing header is excluded: the element right after the prefix must be a culprit
  match err, us.drop len with
  | .nil_, _ => none
  | _, [] => if us == [] then none else some "c02_first_bad_excluded"
  | _, bad :: _ =>
    let p := (t :: r).getLast!
    if (Verify now drift tv p bad).isSome || (len > 0 && bad.height != p.height + 1) then none
    else some "c02_first_bad_excluded"

/-- VerifyRange depends on its arguments only: [h1 h2 h3] verifies, [f1 h2 h3] (h2 not linked to f1) gives [f1] + a hard
    failure, before and after any other call -/
def evalC02History (outs : List String) : Verdict :=
  match kv? outs "good", kv? outs "swapped", kv? outs "again" with
  | some a, some b, some c =>
    if a != "3/nil" || c != "3/nil" then .prop "c02_nil_iff" s!"the valid range: {a}, again {c}" else
    if b != "1/hard" then .prop "c02_first_bad_excluded" s!"[f1 h2 h3] with h2 not linked to f1: result/err = {b}, expected 1/hard" else .ok "history"
  | _, _, _ => .bad "C02 history"

def evalC02 (ins outs : List String) : Verdict :=
  if kv? ins "kind" == some "history" then evalC02History outs else
  match kvInt? ins "now", kvInt? ins "drift", kvNat? ins "th", kvInt? ins "tt", kv? ins "us",
        kvNat? outs "len", kvNat? outs "prefix", (kv? outs "err").bind ImplV.parse? with
  | some now, some drift, some th, some tt, some usS, some len, some pref, some err =>
    let elems := if usS = "-" then some [] else (usS.splitOn ",").mapM parseElem?
    match elems with
    | none => .bad "C02 sequence"
    | some es =>
      let us : List Hdr := (List.range es.length).zipWith (fun i e => { e.1 with id := i }) es
      let tvs := es.map (·.2)
      let t : Hdr := { chain := 1, height := th, time := tt }
      let tv := tvOf tvs
      let implErr := (kv? outs "err").getD ""
      match c02_ok now drift tv t us len (pref = 1) err with
      | some clause => .prop clause s!"len={len} err={implErr}"
      | none =>
        let m := VerifyRange now drift tv t us
        if m.1.length != len then .corr "len" (toString m.1.length) (toString len)
        else if optVErrTag m.2 != implErr then .corr "err" (optVErrTag m.2) implErr
        else .ok s!"{optVErrTag m.2}@{if len = 0 then "first" else if len = us.length then "all" else "mid"}"
  | _, _, _, _, _, _, _, _ => .bad "C02 fields"

end GoHeader.Oracle
