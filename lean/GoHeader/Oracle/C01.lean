import GoHeader.Oracle.Common
import GoHeader.Verify
namespace GoHeader.Oracle
open GoHeader

/-- the implementation's answer, parsed back from its tag -/
inductive ImplV
  | nil_
  | sentinel (s : Sentinel) (soft : Bool)
  | typeErr (soft : Bool)
  | notVE
deriving DecidableEq, Repr

def sentinelOfTag? : String → Option Sentinel
  | "zero" => some .ErrZeroHeader | "chain" => some .ErrWrongChainID | "known" => some .ErrKnownHeader
  | "unordered" => some .ErrUnorderedTime | "future" => some .ErrFromFuture
  | "empty" => some .ErrEmptyRange | "nonadj" => some .ErrNonAdjacentRange
  | _ => none

def ImplV.parse? (s : String) : Option ImplV :=
  if s = "nil" then some .nil_
  else if s = "notve" || s = "notve-top" then some .notVE
  else match s.splitOn ":" with
    | [k, f] =>
      let soft := f = "1"
      if k = "type" then some (.typeErr soft)
      else (sentinelOfTag? k).map (.sentinel · soft)
    | _ => none

def mandatoryOkB (now drift : Int) (t u : Hdr) : Bool :=
  !t.zero && !u.zero && u.chain == t.chain && decide (t.height < u.height) &&
    decide (t.time ≤ u.time) && decide (u.time ≤ now + drift)

def condB (now drift : Int) (t u : Hdr) : Sentinel → Bool
  | .ErrZeroHeader => t.zero || u.zero
  | .ErrWrongChainID => u.chain != t.chain
  | .ErrKnownHeader => decide (u.height ≤ t.height)
  | .ErrUnorderedTime => decide (u.time < t.time)
  | .ErrFromFuture => decide (u.time > now + drift)
  | _ => false

/-- C01 as a decidable predicate on (inputs, implementation answer) — straight from the property text. -/
def c01_ok (now drift : Int) (tvr : TV) (t u : Hdr) (r : ImplV) : Option String :=
  let m := mandatoryOkB now drift t u
  match r with
  | .nil_ => if m && tvr == .ok then none else some "c01_accept"
  | .sentinel s soft =>
    if soft then some "c01_mandatory_hard"
    else if condB now drift t u s then none else some "c01_reason_sentinel"
  | .typeErr soft =>
    if !(m && tvr != .ok) then some "c01_reason_type"
    else if soft == (u.height != t.height + 1 || reportedSoft tvr) then none else some "c01_soft_iff"
  | .notVE => some "c01_always_verifyerror"

/-- the type's own error value is shared between calls: soft exactly for the non-adjacent failure, hard for the adjacent
    ones before AND after it -/
def evalC01Shared (outs : List String) : Verdict :=
  match kv? outs "adjacent0", kv? outs "nonadjacent", kv? outs "adjacent1" with
  | some a0, some f, some a1 =>
    if a0 == "hard" && f == "soft" && a1 == "hard" then .ok "sharedsentinel"
    else .prop "c01_soft_iff" s!"shared type-level error: adjacent={a0}, then non-adjacent={f}, then adjacent={a1} (must be hard, soft, hard)"
  | _, _, _ => .bad "C01 sharedsentinel"

/-- the type's Verify returned a typed-nil `*VerifyError` (a non-nil error): the type-level check rejected, so the result is a
    `*VerifyError`, hard when adjacent and soft otherwise; never a panic -/
def evalC01TypedNil (outs : List String) : Verdict :=
  match kv? outs "adjacent", kv? outs "nonadjacent" with
  | some a, some f =>
    if a == "PANIC" || f == "PANIC" then .prop "c01_total" s!"Verify panicked: adjacent={a} nonadjacent={f}" else
    if a == "hard" && f == "soft" then .ok "typednil"
    else .prop "c01_soft_iff" s!"typed-nil type-level error: adjacent={a} nonadjacent={f} (must be hard, soft)"
  | _, _ => .bad "C01 typednil"

def evalC01 (ins outs : List String) : Verdict :=
  if kv? ins "kind" == some "sharedsentinel" then evalC01Shared outs else
  if kv? ins "kind" == some "typednil" then evalC01TypedNil outs else
  match kvNat? ins "tz", kvNat? ins "uz", kvNat? ins "tc", kvNat? ins "uc", kvNat? ins "th", kvNat? ins "uh",
        kvInt? ins "tt", kvInt? ins "ut", kvInt? ins "now", kvInt? ins "drift", (kv? ins "tv").bind TV.ofString?,
        outs.head?.bind ImplV.parse? with
  | some tz, some uz, some tc, some uc, some th, some uh, some tt, some ut, some now, some drift, some tvr, some r =>
    let t : Hdr := { zero := tz = 1, chain := tc, height := th, time := tt }
    let u : Hdr := { zero := uz = 1, chain := uc, height := uh, time := ut }
    -- a nil header has no fields: the harness prints the would-be values, the model must not look at them
    let m := Verify now drift (fun _ _ => tvr) t u
    let implTag := outs.head?.getD ""
    match c01_ok now drift tvr t u r with
    | some clause => .prop clause s!"impl={implTag}"
    | none =>
      if optVErrTag m = implTag then .ok (optVErrTag m) else .corr "verify" (optVErrTag m) implTag
  | _, _, _, _, _, _, _, _, _, _, _, _ => .bad "C01 fields"

end GoHeader.Oracle
