import GoHeader.Oracle.Common
import GoHeader.P2P.Client
namespace GoHeader.Oracle
open GoHeader GoHeader.P2P

/-- what each scripted answer amounts to for a request for main:60 (hash id 60): the model's own reading -/
def gansOf? : String → Option GAns
  | "valid" => some (.valid 60 60)
  | "other:61" => some (.valid 61 61)
  | "otherfork:60" => some (.valid 1060 60)
  | "oversized" => some (.valid 60 60)      -- the client reads only the one response it asked for
  | "hang" => some .hang
  | "wrongchain" | "nochain" | "panicdecode" | "panicvalidate" | "invalid" | "garbage" | "truncated" | "status" | "emptybody" | "empty" | "notfound" | "reset" => some .fail
  | _ => none

def hdrTag : Nat → String
  | 60 => "valid" | 61 => "other:61" | 1060 => "otherfork:60" | n => s!"unknown:{n}"

/-- C13 from the property text -/
def c13_ok (op : String) (answers : List GAns) (hdr err : String) : Option String :=
  if err == "CRASH" then some "c13_no_panic" else
  if hdr == "zero" && err == "nil" then some "c13_never_zero_nil" else
  if hdr != "zero" && err != "nil" then some "c13_header_xor_error" else
  if hdr != "zero" then
    -- only validated headers of the configured chain, as answered by some trusted peer
    if !(answers.any fun a => match a with | .valid id _ => hdrTag id == hdr | _ => false) then some "c13_only_valid_answers" else
    if op == "get" && hdr != "valid" then some "c13_get_hash_bound" else none
  else
    -- an error although… is only wrong when NO trusted peer could have caused it: all peers answered the requested header validly
    if !answers.isEmpty && answers.all (fun a => a == .valid 60 60) then some "c13_error_iff_no_valid" else
    if op == "byheight" && answers.any (fun a => match a with | .valid _ _ => true | _ => false) then some "c13_error_iff_no_valid" else none

/-- every trusted peer was blocked by the client earlier: an error or a genuine header, never a panic or zero-with-nil -/
def evalC13AllBlocked (outs : List String) : Verdict :=
  match kv? outs "hdr", kv? outs "err" with
  | some hdr, some err =>
    if err == "CRASH" then .prop "c13_no_panic" "Get/GetByHeight with every trusted peer blocked" else
    if hdr == "zero" && err == "nil" then .prop "c13_never_zero_nil" "all trusted peers blocked" else
    if hdr != "zero" && err != "nil" then .prop "c13_header_xor_error" s!"hdr={hdr} err={err}" else
    if hdr != "zero" && hdr != "valid" then .prop "c13_only_valid_answers" s!"hdr={hdr}" else .ok s!"allblocked-{hdr}"
  | _, _ => .bad "C13 allblocked"

def evalC13 (ins outs : List String) : Verdict :=
  if kv? ins "kind" == some "allblocked" then evalC13AllBlocked outs else
  if kv? ins "kind" == some "twin" then
    (match kvNat? ins "samehash", kv? outs "first", kv? outs "second" with
     | some 1, some "valid", some second =>
       -- the model (P2P.Client): an answer that fails Validate is never a valid answer, whatever was seen before
       if second == "err" then .ok "twin" else
       .prop "c13_only_valid_answers" s!"a header that fails Validate was returned ({second}) after a valid header with the same hash had been processed by the same client"
     | some 1, some f, _ => .prop "c13_error_iff_no_valid" s!"the valid answer was not returned: first={f}"
     | _, _, _ => .bad "C13 twin") else
  match kv? ins "op", kv? ins "answers", (kv? ins "order").bind natList?, kv? outs "hdr", kv? outs "err" with
  | some op, some answers, some order, some hdr, some err =>
    match (answers.splitOn ",").mapM gansOf? with
    | none => .bad "C13 answers"
    | some ans =>
      if kvNat? outs "slow" == some 1 then .prop "c13_fails_when_no_peer_answers" "still blocked 3 s after every per-peer request timed out" else
      match c13_ok op ans hdr err with
      | some c => .prop c s!"hdr={hdr} err={err}"
      | none =>
        let arrival := order.filterMap (fun i => ans[i]?)
        let m := if op == "get" then getByHash 60 arrival else getByHeight 60 arrival
        let mt := match m with | .ok id _ => (hdrTag id, "nil") | .err => ("zero", "err")
        if mt.1 == hdr && mt.2 == err then .ok s!"{op}-{mt.1}" else .corr op s!"{mt.1}/{mt.2}" s!"{hdr}/{err}"
  | _, _, _, _, _ => .bad "C13 fields"

end GoHeader.Oracle
