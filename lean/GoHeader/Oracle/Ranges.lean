/-
  Oracle for `kind=ranges` cases: a script of operations run on the real `ranges[H]` (hook VerifRangesRun) is run on
  GoHeader.Sync.Ranges and the per-operation results are compared; and for the `emptiedwindow` / `stalepending` cases.
-/
import GoHeader.Oracle.Common
import GoHeader.Sync.Ranges
import GoHeader.Sync.Subjective
import GoHeader.Sync.SyncStore
namespace GoHeader.Oracle
open GoHeader GoHeader.Ranges

def showHs (xs : List Nat) : String := "[" ++ ",".intercalate (xs.map toString) ++ "]"

structure RSt where
  rs : Ranges := []
  cur : Bool := false          -- the range the last `first` returned is rs[0]
  outs : List String := []

def rangesOp (s : RSt) (op : String) : Option RSt :=
  let put (s : RSt) (o : String) : RSt := { s with outs := s.outs ++ [o] }
  match op.splitOn ":" with
  | ["add", h] => h.toNat?.map fun h => put { s with rs := add s.rs h } "ok"
  | ["first"] =>
    let rs := clean s.rs
    match rs with
    | [] => some (put { s with rs := rs, cur := false } "none")
    | r :: _ => some (put { s with rs := rs, cur := true } (showHs r.hs))
  | ["get", e] => e.toNat?.map fun e =>
    match s.cur, s.rs with
    | true, r :: _ => put s (showHs (get r e))
    | _, _ => put s "nocur"
  | ["remove", e] => e.toNat?.map fun e =>
    match s.cur, s.rs with
    | true, r :: rest => let r' := remove r e; put { s with rs := r' :: rest } s!"start:{r'.start}@{showHs r'.hs}"
    | _, _ => put s "nocur"
  | ["prune", e] => e.toNat?.map fun e => put { s with rs := prune s.rs e } "ok"
  | ["head"] => some (put s (match headOf s.rs with | some h => toString h | none => "zero"))
  | ["dump"] => some (put s ("{" ++ String.join (s.rs.map fun r => s!"{r.start}:{showHs r.hs};") ++ "}"))
  | _ => none

def evalRanges (ins outs : List String) : Verdict :=
  match kv? ins "ops", kv? outs "res" with
  | some ops, some res =>
    let rl := res.splitOn "|"
    -- property predicate on the implementation's own observation: no slice expression left its slice
    if rl.any (· == "panic") then .prop "c07_ranges_never_slice_out_of_range" s!"an operation of the pending set panicked: {res}" else
    if rl.any (fun r => (r.splitOn "nil").length > 1) then .prop "c07_ranges_never_slice_out_of_range" s!"Get returned elements beyond the cached headers: {res}" else
    match (ops.splitOn "/").foldlM rangesOp ({} : RSt) with
    | none => .bad "ranges: unknown op"
    | some m =>
      if m.outs != rl then
        let i := ((List.range m.outs.length).find? fun i => m.outs[i]? != rl[i]?).getD 0
        .corr s!"ranges op {i} ({(ops.splitOn "/").getD i ""})" (m.outs.getD i "-") (rl.getD i "-")
      else .ok (if (ops.splitOn "prune").length > 1 then "ranges+prune" else "ranges")
  | _, _ => .bad "ranges fields"

/-- the gossip handler's head `a` lands in the pending set the sync loop has just emptied (target a+1): no crash, the
    store ends at a+1, finished, error-free, nothing stale pending -/
def evalEmptiedWindow (ins outs : List String) (storeOk : String → Nat → Nat → Option String) : Verdict :=
  match kvNat? ins "a", kvNat? ins "b", kv? outs "start", kv? outs "parked", kv? outs "loop", kv? outs "gossip", kv? outs "head1", kv? outs "later" with
  | some a, some b, some "ok", some parked, some lp, some gossip, some h1, some later =>
    match kvNat? outs "head", kvNat? outs "target", kv? outs "pending", kvNat? outs "err", kvNat? outs "finished", kv? outs "stored", kvNat? outs "tail" with
    | some head, some target, some pending, some err, some fin, some stored, some tail =>
      match storeOk stored head tail with
      | some c => .prop c "emptiedwindow"
      | none =>
        if parked != "yes" || lp != "yes" then .bad s!"emptiedwindow: the schedule was not reached (parked={parked} loop={lp})" else
        if gossip == "hang" || h1 == "hang" then .prop "c07_state_finished" s!"gossip={gossip} head1={h1}" else
        if later != "accept" then .prop "c03_valid_gossip_accepted" s!"the later head {b + 3} was refused" else
        -- the same schedule on the model of the pending set: the target b is removed, `a` is added to the emptied set, the loop looks again
        let m := Ranges.run [] [.add b, .first, .removeFirst b, .add a, .first]
        let g := match m with | r :: _ => get r b | [] => []
        if g != [a] then .bad s!"emptiedwindow: the model hands out {g}" else
        if head != b + 3 then .prop "c07_reaches_target" s!"head={head}, newest accepted head {b + 3} (a={a}, b={b})" else
        if target != b + 3 || pending != "-" then .prop "c19_subjective_head_is_newest" s!"target={target} pending={pending} store head={head}" else
        if err != 0 || fin != 1 then .prop "c07_state_finished" s!"err={err} finished={fin}" else .ok (if a == b then "emptiedwindow-same" else "emptiedwindow")
    | _, _, _, _, _, _, _ => .bad "emptiedwindow observation"
  | _, _, some s, _, _, _, _, _ => .prop "c07_state_finished" s!"emptiedwindow start={s}"
  | _, _, _, _, _, _, _, _ => .bad "emptiedwindow fields"

/-- `Add(12)` split by the loop's `Remove(11)` (hooks ranges.add.read / sync.removed), then head 13 between the loop's next
    Get and Remove: every accepted head ends up in the Store -/
def evalAddRace (outs : List String) (storeOk : String → Nat → Nat → Option String) : Verdict :=
  match kv? outs "start", kv? outs "missed", kv? outs "verdicts", kvNat? outs "newest", kvNat? outs "head", kvNat? outs "target", kv? outs "pending",
        kvNat? outs "err", kvNat? outs "finished", kv? outs "stored", kvNat? outs "tail" with
  | some "ok", some missed, some verdicts, some newest, some head, some target, some pending, some err, some fin, some stored, some tail =>
    match storeOk stored head tail with
    | some c => .prop c "addrace"
    | none =>
      if missed != "-" then .bad s!"addrace: the schedule was not reached ({missed})" else
      if verdicts != "accept,accept,accept,accept,accept" then .prop "c03_valid_gossip_accepted" verdicts else
      -- the same interleaving on the model of the pending set (theorems c07_add_racing_remove_*)
      let rs0 : Ranges := [⟨10, [10, 11]⟩]
      let rs1 := addApply true (removeFirst rs0 11) (addRead rs0 12) 12
      let left := heights (removeFirst (add rs1 13) 11)
      if left != [12, 13] then .bad s!"addrace: the model keeps {left}" else
      if head != newest then .prop "c07_heads_during_sync_are_synced" s!"head={head} newest accepted head={newest} pending={pending}" else
      if target != newest || pending != "-" then .prop "c19_subjective_head_is_newest" s!"target={target} pending={pending}" else
      if err != 0 || fin != 1 then .prop "c07_state_finished" s!"err={err} finished={fin}" else .ok "addrace"
  | some s, _, _, _, _, _, _, _, _, _, _ => .prop "c07_state_finished" s!"addrace start={s}"
  | _, _, _, _, _, _, _, _, _, _, _ => .bad "addrace fields"

/-- an equivocating child of the real header h-1 held in bifurcation while the real headers arrive: whatever wins, the Store is
    one chain (every stored header names the stored header below it as its parent), gap-free -/
def evalForkRace (outs : List String) : Verdict :=
  match kv? outs "start", kvNat? outs "inbif", kv? outs "fork", kv? outs "forkstored", kvNat? outs "linked", kvNat? outs "head", kvNat? outs "tail", kv? outs "stored" with
  | some "ok", some inbif, some fork, some fs, some linked, some head, some tail, some stored =>
    if inbif != 1 then .bad "forkrace: the bifurcation was not reached" else
    if fork == "hang" then .prop "c03_invalid_gossip_refused" "the held candidate never got a verdict" else
    if linked != 1 then .prop "c03_one_chain" s!"a stored header does not name the stored header below it as its parent (fork verdict={fork}, fork {fs}, head={head})" else
    if fork == "refuse" && fs == "stored" then .prop "c03_invalid_gossip_refused" "the fork header was refused and stored" else
    let cs := stored.toList
    if !(List.range cs.length).all (fun h => (cs.getD h 'N' != 'N') == (tail ≤ h && h ≤ head && h ≥ 1)) then .prop "c03_one_contiguous_run" stored else
    .ok s!"forkrace:{fork}"
  | some s, _, _, _, _, _, _, _ => .prop "c07_state_finished" s!"forkrace start={s}"
  | _, _, _, _, _, _, _, _ => .bad "forkrace fields"

/-- the first read of the Syncer's cached store head racing an adjacent gossip head: a later caller never gets less -/
def evalColdStart (ins outs : List String) : Verdict :=
  match kvNat? ins "store", kv? outs "paused", kv? outs "arrive", kv? outs "ha", kv? outs "hb", kv? outs "hc" with
  | some st, some paused, some arr, some ha, some hb, some hc =>
    if paused != "yes" then .bad "coldstart: the schedule was not reached" else
    if arr != "ok" then .prop "c03_valid_gossip_accepted" s!"the adjacent head was refused" else
    match hb.toNat?, hc.toNat? with
    | some vb, some vc =>
      if vc < vb then .prop "c19_monotone" s!"Head() returned {vb}, and to a later caller {vc} (the paused first caller got {ha})" else
      if vb != st + 1 then .prop "c19_subjective_head_is_newest" s!"hb={hb} after header {st + 1} was stored" else
      if ha == "hang" || ha == "err" then .prop "c19_head_result" s!"the paused caller got {ha}" else
      -- the same schedule on the model of the cached head (theorems c19_cached_head_*)
      let m := SyncStore.run true st 2 [.head 0, .append, .head 1, .head 0, .head 1]
      if m.results.map toString != [hb, ha, hc] then .corr "coldstart results (B, A, C)" (toString m.results) s!"{hb},{ha},{hc}" else .ok "coldstart"
    | _, _ => .prop "c19_head_result" s!"hb={hb} hc={hc}"
  | _, _, _, _, _, _ => .bad "coldstart fields"

/-- caller A of Head() is stopped between its store-head check and `pending.Add(a)`; B learns b > a, the loop syncs; A goes
    on; C asks again: what C gets is not below what B got, and the model's subjective head agrees -/
def evalStalePending (ins outs : List String) : Verdict :=
  match kvNat? ins "store", kvNat? ins "a", kvNat? ins "b", kv? outs "start", kv? outs "parked", kv? outs "hb", kv? outs "ha", kv? outs "hc",
        kvNat? outs "head", kvNat? outs "target", kv? outs "pending" with
  | some st, some a, some b, some "ok", some parked, some hb, some ha, some hc, some head, some target, some pending =>
    if parked != "yes" then .bad "stalepending: the schedule was not reached" else
    match hb.toNat?, hc.toNat? with
    | some vb, some vc =>
      if vc < vb then .prop "c19_monotone" s!"Head() returned {vb}, and to a later caller {vc} (pending={pending}, store head={head})" else
      if ha == "hang" || ha == "err" then .prop "c19_head_result" s!"the delayed caller got {ha}" else
      open Subjective in
      let evs : List Ev := [.s 0 a, .s 1 b, .s 1 b, .l, .l, .l, .s 0 a, .l]
      let m := run true st 2 evs
      if localHeadNew m != vc then .corr "stalepending subjective head" (toString (localHeadNew m)) hc else
      if target < head then .prop "c19_subjective_head_is_newest" s!"subjective head {target} below the store head {head}" else
      if (natList? pending).getD [] != m.pend then .corr "stalepending pending" (toString m.pend) pending else .ok "stalepending"
    | _, _ => .prop "c19_head_result" s!"hb={hb} hc={hc}"
  | _, _, _, some s, _, _, _, _, _, _, _ => .prop "c19_head_result" s!"stalepending start={s}"
  | _, _, _, _, _, _, _, _, _, _, _ => .bad "stalepending fields"

end GoHeader.Oracle
