/-
  Oracle.Store — driver side of the store properties (C04, C08, C14): replays a `case … end`
  block of the harness on `Store.Seq`, compares every observation (correspondence) and evaluates the
  property predicates on the IMPLEMENTATION's observations (violation search).
-/
import GoHeader.Store.DelCache
import GoHeader.Oracle.Common
import GoHeader.Store.Seq
namespace GoHeader.Oracle
open GoHeader GoHeader.Store

def sortNat (l : List Nat) : List Nat := (l.toArray.qsort (· < ·)).toList

def renderSet (l : List Nat) : String :=
  if l.isEmpty then "-" else ",".intercalate ((sortNat l).map toString)
def renderOpt : Option Nat → String
  | none => "-" | some h => toString h

def byhChar : ByH → Char
  | .found => 'F' | .notFound => 'N' | .blocks => 'B' | .err => 'E'
def fn (b : Bool) : Char := if b then 'F' else 'N'

/-- ranges printed by the harness when asked: same thinning rule as harness/cmd/hx/store.go -/
def rangePairs (n : Nat) : List (Nat × Nat) :=
  (List.range (n + 2)).flatMap fun a =>
    ((List.range (n + 3)).filter (fun b => b ≥ a && !((a + b) % 3 != 0 && b - a > 2))).map fun b => (a, b)

/-- the model's rendering of `ob …` for an observe op -/
def renderObs (s : St) (n : Nat) (withRanges : Bool) : String :=
  let hs := List.range (n + 2)
  let byh := String.ofList (hs.map fun h => byhChar (s.getByHeight h))
  let get := String.ofList (hs.map fun h => fn (h != 0 && s.byHash h))
  let hasat := String.ofList (hs.map fun h => fn (s.hasAt h))
  let base := s!"ob head={renderOpt s.head} tail={renderOpt s.tail} height={s.hs} byh={byh} get={get} has={get} hasat={hasat} hdr={renderSet s.hdr} idx={renderSet s.idx} hp={renderOpt s.headPtr} tp={renderOpt s.tailPtr}"
  if withRanges then
    base ++ " rng=" ++ ",".intercalate ((rangePairs n).map fun (a, b) => s!"{a}-{b}:{if s.getRange a b then "k" else "e"}")
  else base

/-- parsed implementation observation -/
structure Obs where
  head : Option Nat
  tail : Option Nat
  height : Nat
  byh : List Char
  get : List Char
  has : List Char
  hasat : List Char
  hdr : List Nat
  idx : List Nat
  rngBad : Bool
  raw : String

def optNat? (s : String) : Option (Option Nat) :=
  if s = "-" then some none else s.toNat?.map some

def Obs.parse? (line : String) : Option Obs := do
  let toks := splitWs line
  let head ← (kv? toks "head").bind optNat?
  let tail ← (kv? toks "tail").bind optNat?
  let height ← kvNat? toks "height"
  let byh ← kv? toks "byh"; let get ← kv? toks "get"; let has ← kv? toks "has"; let hasat ← kv? toks "hasat"
  let hdr ← (kv? toks "hdr").bind natList?
  let idx ← (kv? toks "idx").bind natList?
  let rngBad := match kv? toks "rng" with | some r => (r.splitOn ":bad").length > 1 | none => false
  pure { head, tail, height, byh := byh.toList, get := get.toList, has := has.toList, hasat := hasat.toList,
         hdr, idx, rngBad, raw := line }

def chr (l : List Char) (h : Nat) : Char := l.getD h '?'

/-- C04 on one synced observation; `live` = appended and not deleted since. -/
def c04_ok (o : Obs) (live : List Nat) : Option String :=
  let n2 := o.byh.length
  if o.head.isSome != o.tail.isSome then some "c04_ends" else
  if (o.byh ++ o.get ++ o.has).any (fun c => c == 'W' || c == 'E' && false) then some "c04_exact_header" else
  if o.rngBad then some "c04_getrange_exact" else
  match o.head, o.tail with
  | some hd, some tl =>
    if tl > hd then some "c04_tail_le_head" else
    if !(List.range' tl (hd + 1 - tl)).all (fun h => chr o.byh h == 'F' && chr o.get h == 'F' && chr o.has h == 'F') then
      some "c04_range_readable" else
    if !(List.range n2).all (fun h => (chr o.hasat h == 'F') == (h != 0 && tl ≤ h && h ≤ hd)) then some "c04_hasat" else
    if o.height != hd then some "c04_height_eq_head" else
    if chr o.byh (hd + 1) == 'F' then some "c04_head_is_top" else
    if !live.all (fun h => chr o.byh h == 'F' && chr o.get h == 'F') then some "c04_appended_readable" else none
  | _, _ =>
    if (List.range n2).any (fun h => chr o.hasat h == 'F') then some "c04_hasat" else
    if !live.all (fun h => chr o.byh h == 'F' && chr o.get h == 'F') then some "c04_appended_readable" else none

/-- state of the oracle while walking through one case -/
structure OSt where
  n : Nat := 0
  withRanges : Bool := false
  model : St := St.init 1
  live : List Nat := []          -- appended (synced) and not deleted since
  queued : List Nat := []        -- appended, not yet synced
  dead : List Nat := []          -- deleted by a successful DeleteRange and not re-appended since
  last : Option Obs := none      -- last implementation observation (of a synced state)
  synced : Bool := true
  mayFail : Bool := false        -- a failing handler script is registered
  pendingOp : Option (List String) := none  -- op whose `ob` line is expected next
  delPre : Option Obs := none    -- observation before the current delete
  lastDel : Option (Nat × Nat × Bool) := none -- (a, b, ok) of the last delete, checked at next observe
  nHandlers : Nat := 0
  crashes : Nat := 0               -- crash images validated in this case
  failedAt : List Nat := []        -- heights whose handler failed in the last delete
  modelDel : DelRes := .ok         -- the model's result of the last delete
  preRestart : Option Obs := none  -- synced observation right before a restart (C06 clean restart)
  sinceObs : Nat := 0              -- ops since the last observation
  fail : Option Verdict := none
  cov : List String := []

def OSt.flag (o : OSt) (v : Verdict) : OSt := if o.fail.isSome then o else { o with fail := some v }

def inRange (a b h : Nat) : Bool := a ≤ h && h < b

def parseCalls? (s : String) : Option (List Call) :=
  if s = "-" then some [] else
  (s.splitOn ",").mapM fun c =>
    match c.splitOn "@" with
    | [hi, rest] => match rest.splitOn ":" with
      | [h, r] => do pure { handler := ← hi.toNat?, height := ← h.toNat?, readable := r = "1" }
      | [h, r, _] => do pure { handler := ← hi.toNat?, height := ← h.toNat?, readable := r = "1" }
      | _ => none
    | _ => none

/-- heights at which some handler call failed (`…:e` in the harness log) -/
def failedHeights (s : String) : List Nat :=
  if s = "-" then [] else
  (s.splitOn ",").filterMap fun c =>
    match c.splitOn "@" with
    | [_, rest] => match rest.splitOn ":" with
      | [h, _, "e"] => h.toNat?
      | _ => none
    | _ => none

def renderCalls (cs : List Call) : String :=
  if cs.isEmpty then "-" else
  ",".intercalate (cs.map fun c => s!"{c.handler}@{c.height}:{if c.readable then 1 else 0}")

/-- C08 / C14 checks at a delete's result line -/
def checkDelete (o : OSt) (a b : Nat) (ok : Bool) (calls : List Call) : Option (String × String) :=
  match o.delPre with
  | none => none
  | some pre =>
    -- C08 accepted shapes
    let shapeOk := match pre.head, pre.tail with
      | some hd, some tl => a < b && ((a == tl && b ≤ hd + 1) || (b == hd + 1 && tl ≤ a))
      | _, _ => false
    if ok && !shapeOk then some ("c08_shapes", s!"a={a} b={b}") else
    -- C14: every call happened while the header was readable
    if calls.any (fun c => !c.readable) then some ("c14_readable_at_call", renderCalls calls) else
    -- C14: calls only for heights of the range
    if calls.any (fun c => !inRange a b c.height) then some ("c14_calls_in_range", renderCalls calls) else
    -- C14 (success): each handler exactly once per removed header = per header of the range that was stored
    if ok then
      let stored := (List.range' a (b - a)).filter (fun h => chr pre.byh h == 'F' || chr pre.get h == 'F')
      let bad := (List.range o.nHandlers).any fun i =>
        stored.any fun h => (calls.filter (fun c => c.handler == i && c.height == h)).length != 1
      if bad then some ("c14_once_per_removed", s!"calls={renderCalls calls}") else none
    else none

/-- checks at the first observation after a delete -/
def checkAfterDelete (o : OSt) (pre post : Obs) (a b : Nat) (ok : Bool) (calls : List Call) : Option (String × String) :=
  let hs := List.range pre.byh.length
  -- outside the range nothing changes (success or failure)
  if hs.any (fun h => !inRange a b h && (chr pre.byh h == 'F') != (chr post.byh h == 'F')) then some ("c08_outside_untouched", "byh") else
  if hs.any (fun h => !inRange a b h && (chr pre.get h == 'F') != (chr post.get h == 'F')) then some ("c08_outside_untouched", "get") else
  if ok then
    if hs.any (fun h => inRange a b h && (chr post.byh h == 'F' || chr post.get h == 'F' || chr post.has h == 'F')) then
      some ("c08_removed", "still retrievable") else
    if (post.hdr ++ post.idx).any (inRange a b) then some ("c08_removed", "raw keys remain") else
    -- Head and Tail describe the remaining chain
    match pre.head, pre.tail with
    | some hd, some tl =>
      if a == tl && b == hd + 1 then
        (if post.head.isSome || post.tail.isSome then some ("c08_pointers", "whole chain deleted but pointers remain") else none)
      else if a == tl then
        (if post.tail != some b || post.head != some hd then some ("c08_pointers", "tail-side") else none)
      else
        (if post.head != some (a - 1) || post.tail != some tl then some ("c08_pointers", "head-side") else none)
    | _, _ => none
  else
    -- rejected without any handler failing: no effect at all
    if !o.mayFail && pre.raw != post.raw then some ("c08_reject_noeffect", "") else
    -- C14: a header whose handler failed is not removed; what disappeared was handled successfully by every handler
    let gone := hs.filter (fun h => inRange a b h && chr pre.byh h == 'F' && chr post.byh h != 'F')
    if gone.any (fun h => (List.range o.nHandlers).any fun i =>
        (calls.filter (fun c => c.handler == i && c.height == h)).length != 1) then
      some ("c14_removed_iff_handled", s!"gone={renderSet gone} calls={renderCalls calls}") else
    -- Tail and Head still resolve with Tail ≤ Head (checked by c04_ok on the same observation)
    none

/-- C06 on a store reopened from a crash image: straight from the property text -/
def c06_crash_ok (imgHdr : List Nat) (start : String) (o : Obs) (cont : String) : Option String :=
  if start != "ok" then some "c06_start_ok" else
  let res (h : Nat) : Bool := chr o.byh h == 'F' && chr o.get h == 'F'
  if (match o.head with | some hd => !res hd | none => false) then some "c06_head_resolves" else
  if (match o.tail with | some tl => !res tl | none => false) then some "c06_tail_resolves" else
  if (match o.head, o.tail with
      | some hd, some tl => !(List.range' tl (hd + 1 - tl)).all (fun h => chr o.byh h == 'F')
      | _, _ => false) then some "c06_between_retrievable" else
  if !imgHdr.all (fun h => chr o.get h == 'F') then some "c06_committed_retrievable" else
  -- continuation "a,b>newHead"
  match cont.splitOn ">" with
  | [hs, nh] =>
    match natList? hs, nh.toNat? with
    | some l, some n => if l.getLast? == some n || (match l.getLast? with | some t => n ≥ t | none => true) then none else some "c06_continuation_advances_head"
    | _, _ => some "c06_continuation_advances_head"   -- includes "…>none": Head still unset after the append
  | _ => none

/-- the model's reopened store for a raw image -/
def reopenImage (batch : Nat) (hdr idx : List Nat) (hp tp : Option Nat) : St :=
  ({ batch := batch, hdr := hdr, idx := idx, headPtr := hp, tailPtr := tp } : St).reopen

def parseOp? (toks : List String) : Option Op :=
  match toks with
  | ["op", "append", hs] => (natList? hs).map .append
  | ["op", "sync"] => some .sync
  | ["op", "delete", a, b] => do pure (.delete (← a.toNat?) (← b.toNat?))
  | ["op", "restart"] => some .restart
  | ["op", "ondelete", sc] =>
    if sc = "-" then some (.onDelete []) else
    ((sc.splitOn ",").mapM fun (f : String) => (f.dropEnd 1).toString.toNat?).map .onDelete
  | _ => none

/-- process one line of a store case -/
def storeLine (o : OSt) (line : String) : OSt :=
  if o.fail.isSome then o else
  let toks := splitWs line
  match toks with
  | "case" :: _ :: _ :: rest =>
    match kvNat? rest "batch", kvNat? rest "n" with
    | some b, some n => { o with n := n, model := St.init b, withRanges := (kv? rest "ranges") == some "1" }
    | _, _ => o.flag (.bad "case header")
  | ["op", "observe"] => { o with pendingOp := some toks }
  | "op" :: _ =>
    match parseOp? toks with
    | none => o.flag (.bad s!"op: {line}")
    | some op =>
      let m' := o.model.step op
      let o := { o with sinceObs := match op with | .sync => o.sinceObs | _ => o.sinceObs + 1 }
      let o := match op with
        | .delete a b => { o with modelDel := (o.model.deleteRange a b).2 }
        | _ => o
      let o := { o with model := m' }
      match op with
      | .append hs => { o with queued := o.queued ++ hs, synced := false, dead := o.dead.filter (fun h => !hs.contains h) }
      | .sync => { o with live := o.live ++ o.queued, queued := [], synced := true }
      | .delete _ _ =>
        { o with live := o.live ++ o.queued, queued := [], synced := true, pendingOp := some toks, delPre := o.last }
      | .restart => { o with live := o.live ++ o.queued, queued := [], synced := true, pendingOp := some toks,
                             preRestart := if o.synced && o.sinceObs == 0 then o.last else none }
      | .onDelete f => { o with mayFail := o.mayFail || !f.isEmpty, nHandlers := o.nHandlers + 1 }
  | "ob" :: rest =>
    match o.pendingOp with
    | some ["op", "observe"] =>
      let o := { o with pendingOp := none }
      match Obs.parse? line with
      | none => o.flag (.bad "ob line")
      | some ob =>
        -- property predicates on the implementation's observation first
        let o1 := match c04_ok ob o.live with
          | some c => if o.synced then o.flag (.prop c s!"ob={line}") else o
          | none => o
        let o1 := if o.synced && o.dead.any (fun h => chr ob.byh h == 'F' || chr ob.get h == 'F') then
            o1.flag (.prop "c08_permanent" s!"dead={renderSet o.dead}") else o1
        let o1 := match o.lastDel, o.delPre with
          | some (a, b, ok), some pre =>
            match checkAfterDelete o pre ob a b ok (o.model.calls) with
            | some (c, d) => o1.flag (.prop c s!"a={a} b={b} {d}")
            | none => o1
          | _, _ => o1
        let o1 := match o.preRestart with
          | some pre =>
            if pre.head != ob.head || pre.tail != ob.tail then o1.flag (.prop "c06_restart_same_ends" s!"before: head={renderOpt pre.head} tail={renderOpt pre.tail}")
            else if pre.byh.map (· == 'F') != ob.byh.map (· == 'F') || pre.get != ob.get then o1.flag (.prop "c06_restart_same_headers" "")
            else o1
          | none => o1
        -- C14: a header whose handler failed is not removed and remains readable
        let o1 := if o.lastDel.isSome && o.failedAt.any (fun h => chr ob.byh h != 'F') then
            o1.flag (.prop "c14_failure_keeps_header" s!"failed at {renderSet o.failedAt}") else o1
        let o1 := { o1 with lastDel := none, last := some ob, preRestart := none, sinceObs := 0, failedAt := [] }
        -- correspondence
        let m := renderObs o.model o.n o.withRanges
        if m == line then { o1 with cov := o1.cov } else
          let mt := splitWs m; let it := splitWs line
          let diff := (mt.zip it).find? (fun (a, b) => a != b)
          match diff with
          | some (a, b) => o1.flag (.corr "observe" a b)
          | none => o1.flag (.corr "observe" m line)
    | some ["op", "delete", a, b] =>
      let o := { o with pendingOp := none }
      match a.toNat?, b.toNat?, kv? rest "res", (kv? rest "calls").bind parseCalls? with
      | some a, some b, some res, some calls =>
        let ok := res == "ok"
        let failedAt := failedHeights ((kv? rest "calls").getD "-")
        let o1 := match checkDelete o a b ok calls with
          | some (c, d) => o.flag (.prop c d)
          | none => o
        -- C14: a handler error (or panic) is returned by DeleteRange
        let o1 := if ok && !failedAt.isEmpty then o1.flag (.prop "c14_error_returned" s!"failed at {renderSet failedAt} but res=ok") else o1
        let o1 := { o1 with failedAt := failedAt }
        let o1 := { o1 with lastDel := some (a, b, ok),
                            live := o1.live.filter (fun h => !inRange a b h),
                            dead := if ok then o1.dead ++ (List.range' a (b - a)) else o1.dead }
        -- correspondence: result and handler call log
        let mres := if o.modelDel == .ok then "ok" else "err"
        if mres != res then o1.flag (.corr "delete.res" mres res)
        else if renderCalls o.model.calls != renderCalls calls then
          o1.flag (.corr "delete.calls" (renderCalls o.model.calls) (renderCalls calls))
        else o1
      | _, _, _, _ => o.flag (.bad "delete result")
    | some ["op", "restart"] =>
      let o := { o with pendingOp := none }
      if kv? rest "res" == some "ok" then o else o.flag (.prop "c06_restart_ok" line)
    | _ =>
      -- an `ob res=…` after append/sync means the call failed
      o.flag (.prop "store_call_failed" line)
  | ["end"] => o
  | "log" :: _ => o
  | "faults" :: _ => o
  | "crash" :: _ =>
    match line.splitOn " => ", (line.splitOn " img: ") with
    | [pre, post], [_, imgAndRest] =>
      let imgToks := splitWs ((imgAndRest.splitOn " => ").headD "")
      let postToks := splitWs post
      match (kv? imgToks "hdr").bind natList?, (kv? imgToks "idx").bind natList?, (kv? imgToks "hp").bind optNat?,
            (kv? imgToks "tp").bind optNat?, kv? postToks "start" with
      | some hdr, some idx, some hp, some tp, some start =>
        if start != "ok" then o.flag (.prop "c06_start_ok" pre) else
        match Obs.parse? post, kv? postToks "cont" with
        | some ob, some cont =>
          match c06_crash_ok hdr start ob cont with
          | some c => o.flag (.prop c (pre.take 200).toString)
          | none =>
            -- correspondence: the model's reopen on the same image
            let m := reopenImage o.model.batch hdr idx hp tp
            let mline := renderObs m o.n false
            let iline := "ob " ++ ((post.splitOn " cont=").headD "" |>.splitOn "start=ok " |>.getD 1 "")
            if mline != iline then
              let diff := ((splitWs mline).zip (splitWs iline)).find? (fun (a, b) => a != b)
              match diff with
              | some (a, b) => o.flag (.corr "reopen" a b)
              | none => o.flag (.corr "reopen" mline iline)
            else
              -- continuation on the model
              match cont.splitOn ">" with
              | [hs, nh] =>
                match natList? hs with
                | some l =>
                  let m2 := (l.foldl (fun st h => st.step (.append [h])) m).step .sync
                  if renderOpt m2.head == nh || (m2.head.isNone && nh == "none") then { o with crashes := o.crashes + 1 }
                  else o.flag (.corr "continuation" (renderOpt m2.head) nh)
                | none => o.flag (.bad "cont")
              | _ => { o with crashes := o.crashes + 1 }
        | _, _ => o.flag (.bad "crash obs")
      | _, _, _, _, _ => o.flag (.bad "crash img")
    | _, _ => o.flag (.bad "crash line")
  | _ => o.flag (.bad s!"line: {line}")


/-- `kind=readduringdelete`: a read of an already processed height while DeleteRange is under way must not bring it back -/
def evalReadDuringDelete (ins outs : List String) : Verdict :=
  match kvNat? ins "n", kvNat? ins "to", kv? outs "delete", kv? outs "byheight", kv? outs "byhash", kv? outs "has" with
  | some n, some to, some del, some bh, some bx, some has =>
    if del != "ok" then .prop "c14_error_returned" s!"delete={del} although no handler failed" else
    if bh != "-" || bx != "-" || has != "-" then
      .prop "c08_removed" s!"DeleteRange returned nil, still retrievable: by height {bh}, by hash {bx}, Has {has}"
    else
      -- the same interleaving on the batch/cache model (theorem c08_deleted_is_gone_under_concurrent_reads): before each
      -- height h >= 3 is processed, height h-2 is read
      let range := (List.range (to - 1)).map (· + 1)
      let evs := range.flatMap (fun h => (if h ≥ 3 then [Store.DelCache.Ev.read (h - 2)] else []) ++ [Store.DelCache.Ev.del]) ++ [.del, .del]
      let m := Store.DelCache.run true ((List.range n).map (· + 1)) range evs
      if m.phase != 2 || range.any (fun h => m.ds.contains h || m.cache.contains h) then .bad "readduringdelete: model" else .ok "readduringdelete"
  | _, _, _, _, _, _ => .bad "readduringdelete fields"

/-- `kind=stopsync`: Stop overlapping a Sync with unflushed headers: after the restart everything appended before Stop is there -/
def evalStopSync (_ins outs : List String) : Verdict :=
  match kv? outs "stop", kvNat? outs "head", (kv? outs "stored").bind natList?, kvNat? outs "want" with
  | some stop, some hd, some stored, some want =>
    if stop != "ok" then .ok "stopsync-stop-failed" else   -- a Stop that reports an error promises nothing
    if hd != want || stored != (List.range want).map (· + 1) then
      .prop "c06_clean_restart" s!"after Stop (nil) and restart: head={hd} stored={stored}, expected 1..{want}"
    else .ok "stopsync"
  | _, _, _, _ => .bad "stopsync fields"

/-- `kind=queued`: a mid-chain range (of the real chain, once the queued Append has been applied) must be rejected
    with no effect, however busy the flush loop was when DeleteRange was called -/
def evalQueued (ins outs : List String) : Verdict :=
  match kvNat? ins "n2", kv? outs "delete", kvNat? outs "head", kvNat? outs "tail", (kv? outs "stored").bind natList? with
  | some n2, some del, some hd, some tl, some stored =>
    if del == "ok" then .prop "c08_shapes" s!"a mid-chain range was accepted (head={hd} tail={tl} stored={stored})" else
    if del == "hang" then .prop "c08_reject_noeffect" "DeleteRange did not return" else
    if !(hd == n2 && tl == 1 && stored == (List.range n2).map (· + 1)) then .prop "c08_reject_noeffect" s!"head={hd} tail={tl} stored={stored}" else
    .ok "queued"
  | _, _, _, _, _ => .bad "queued fields"

/-- `kind=delfault`: one datastore Delete fails in the middle of a tail-side DeleteRange; after the retry nothing of the
    range is left - by height, by hash, after a restart, or as a raw key -/
def evalDelFault (ins outs : List String) : Verdict :=
  match kvNat? ins "n", kvNat? ins "to", kv? outs "res1", kv? outs "res2", (kv? outs "byheight").bind natList?, (kv? outs "byhash").bind natList?,
        (kv? outs "byheight2").bind natList?, (kv? outs "byhash2").bind natList?, kvNat? outs "tail", kvNat? outs "rawleft" with
  | some n, some to, some r1, some r2, some bh, some bx, some bh2, some bx2, some tl, some left =>
    let rest := (List.range (n + 1)).filter fun h => to ≤ h
    if r1 == "ok" then (if bh == rest && bx == rest then .ok "delfault-nofault" else .prop "c08_removed" s!"byheight={bh} byhash={bx}") else
    -- failed part-way: the Tail the store reports must still be a STORED header
    if (kv? outs "tail1stored").any (fun t => t != "byheight:ok,byhash:ok,has:true") then
      .prop "c08_pointers_resolve_after_fault" s!"after the failed DeleteRange Tail()={(kvNat? outs "tail1").getD 0} is not a stored header: {(kv? outs "tail1stored").getD ""}" else
    if r2 != "ok" then .prop "c08_retry_completes" s!"retry: {r2}" else
    if bh != rest || bh2 != rest then .prop "c08_removed" s!"by height: {bh} / after restart {bh2}, expected {rest}" else
    if bx != rest || bx2 != rest then .prop "c08_removed" s!"by HASH: {bx} / after restart {bx2}, expected {rest}" else
    if left != 0 then .prop "c08_removed" s!"{left} raw keys of the deleted range are still in the datastore" else
    if tl != to then .prop "c08_pointers" s!"tail={tl}" else .ok "delfault"
  | _, _, _, _, _, _, _, _, _, _ => .bad "delfault fields"

/-- `kind=deadline`: a valid tail-side and a valid head-side DeleteRange under a caller deadline of any length -/
def evalDeadline (outs : List String) : Verdict :=
  match kv? outs "tailside", kv? outs "headside", kvNat? outs "head", kvNat? outs "tail", (kv? outs "byheight").bind natList? with
  | some a, some b, some hd, some tl, some bh =>
    if a != "ok" || b != "ok" then .prop "c08_accepts_valid_ranges" s!"DeleteRange(1,8)={a} DeleteRange(23,26)={b}" else
    if tl != 8 || hd != 22 then .prop "c08_pointers" s!"tail={tl} head={hd}, expected 8..22" else
    if bh != List.range' 8 15 then .prop "c08_removed" s!"byheight={bh}" else .ok "deadline"
  | _, _, _, _, _ => .bad "deadline fields"

/-- `kind=flushinhandler`: the pending batch is flushed while the handler of an unflushed header is in flight -/
def evalFlushInHandler (ins outs : List String) : Verdict :=
  match kvNat? ins "n", kvNat? ins "to", kvNat? ins "more", kv? outs "delete", kvNat? outs "head", kvNat? outs "tail",
        (kv? outs "stored").bind natList?, (kv? outs "keys").bind natList?, kv? outs "second", kvNat? outs "handledTwice" with
  | some n, some to, some more, some del, some hd, some tl, some stored, some keys, some second, some twice =>
    let top := n + more + 2
    -- after the probe delete of the new tail the chain is [to+1 .. top] (or [to .. top] if the probe was not run)
    if (kvNat? outs "unreadableAtCall").any (· != 0) then
      .prop "c14_readable_at_call" s!"{(kvNat? outs "unreadableAtCall").getD 0} handler calls could not read their header through GetByHeight with the context they were given" else
    if del != "ok" then .prop "c14_error_returned" s!"delete={del} although no handler failed" else
    if stored.any (· < to) || keys.any (· < to) then .prop "c08_removed" s!"headers below {to} are still there: stored={stored} keys={keys}" else
    if !(tl == to && hd == top) then .prop "c08_pointers" s!"tail={tl} head={hd}, expected {to}..{top}" else
    if stored != (List.range (top + 1 - to)).map (· + to) then .prop "c08_outside_untouched" s!"stored={stored}" else
    if second != "ok" then .prop "c08_retry_completes" s!"second delete: {second}" else
    if twice != 0 then .prop "c14_once_per_removed" s!"{twice} removed heights were handled again by a later DeleteRange" else
    .ok "flushinhandler"
  | _, _, _, _, _, _, _, _, _, _ => .bad "flushinhandler fields"

/-- `kind=pointerfault` (C06): one refused write of the tail/head pointer key right after the range's headers were removed.
    The pointers of the running store resolve to stored headers with everything between them retrievable, and a clean
    Stop/Start reports the same Head and Tail. -/
def evalPointerFault (outs : List String) : Verdict :=
  match kv? outs "head1", kv? outs "tail1", kv? outs "between1", kv? outs "restart", kv? outs "head2", kv? outs "tail2", kv? outs "between2" with
  | some h1, some t1, some b1, some rs, some h2, some t2, some b2 =>
    let dangling := fun (x : String) => (x.splitOn "!").length > 1
    let h1 := if h1.startsWith "wiped+" then (h1.drop 6).toString else h1
    if dangling h1 || dangling t1 || h1 == "none" || t1 == "none" then .prop "c06_pointers_resolve" s!"after the refused pointer write: Head={h1} Tail={t1}" else
    if b1 != "ok" then .prop "c06_between_retrievable" s!"running store: {b1} (Tail={t1} Head={h1})" else
    if rs != "ok" then .prop "c06_restart_ok" s!"restart={rs}" else
    if dangling h2 || dangling t2 then .prop "c06_pointers_resolve" s!"after restart: Head={h2} Tail={t2}" else
    if h2 != h1 || t2 != t1 then .prop "c06_clean_restart_same" s!"before Stop: Tail={t1} Head={h1}; after Start: Tail={t2} Head={h2}" else
    if b2 != "ok" then .prop "c06_between_retrievable" s!"after restart: {b2}" else .ok "pointerfault"
  | _, _, _, _, _, _, _ => .bad "pointerfault fields"

/-- `kind=snapshotflush`: the pending headers of the range are flushed right after the deleter opened its first read transaction -/
def evalSnapshotFlush (outs : List String) : Verdict :=
  match kv? outs "parked", kv? outs "delete", kvNat? outs "tail", kv? outs "stored", kvNat? outs "handlercalls", kvNat? outs "unreadableAtCall" with
  | some "yes", some d, some tl, some stored, some calls, some unread =>
    if unread != 0 then .prop "c14_readable_at_call" s!"{unread} of {calls} handler calls could not read their header" else
    if d != "ok" then .prop "c08_accepts_valid_ranges" s!"DeleteRange(1,4)={d} (tail={tl})" else
    if calls != 3 then .prop "c14_once_per_removed" s!"{calls} handler calls for 3 removed headers" else
    if tl != 4 || stored != "4,5,6,7" then .prop "c08_removed" s!"tail={tl} stored={stored}, expected 4..7" else .ok "snapshotflush"
  | some _, _, _, _, _, _ => .ok "snapshotflush-notparked"
  | _, _, _, _, _, _ => .bad "snapshotflush fields"

/-- `kind=flushvsdelete`: a flush starting while the deleter is inside the deletion of an unflushed header -/
def evalFlushVsDelete (outs : List String) : Verdict :=
  match kv? outs "parked", kv? outs "delete", kv? outs "retrievable", kv? outs "afterrestart" with
  | some "yes", some d, some v1, some v2 =>
    if d != "ok" then .prop "c08_accepts_valid_ranges" s!"DeleteRange(1,3)={d}" else
    if v1 != "3,4,5,6" || v2 != "3,4,5,6" then .prop "c08_removed" s!"DeleteRange(1,3) returned nil; retrievable afterwards: {v1}, after a restart: {v2} (expected 3,4,5,6)" else .ok "flushvsdelete"
  | some _, _, _, _ => .ok "flushvsdelete-notparked"
  | _, _, _, _ => .bad "flushvsdelete fields"

/-- DeleteRange(1,to) on 1..n through the PARALLEL path with a refusing handler, then a retry with the handler
healed (`kind=parfail`).  Pure predicates from the texts of C08 / C14 / C04 on the implementation's observation. -/
def evalParFail (tag : String) (ins outs : List String) : Verdict :=
  if kv? ins "kind" == some "pointerfault" then evalPointerFault outs else
  if kv? ins "kind" == some "flushvsdelete" then evalFlushVsDelete outs else
  if kv? ins "kind" == some "snapshotflush" then evalSnapshotFlush outs else
  if kv? ins "kind" == some "stopsync" then evalStopSync ins outs else
  if kv? ins "kind" == some "readduringdelete" then evalReadDuringDelete ins outs else
  if kv? ins "kind" == some "queued" then evalQueued ins outs else
  if kv? ins "kind" == some "delfault" then evalDelFault ins outs else
  if kv? ins "kind" == some "deadline" then evalDeadline outs else
  if kv? ins "kind" == some "flushinhandler" then evalFlushInHandler ins outs else
  match kvNat? ins "n", kvNat? ins "to", kvNat? ins "failfrom", kvNat? ins "only",
        kv? outs "res1", kvNat? outs "tail1", kvNat? outs "head1", (kv? outs "stored1").bind natList?, (kv? outs "keys1").bind natList?,
        (kv? outs "handled1").bind natList?, kv? outs "res2", kvNat? outs "tail2", kvNat? outs "head2",
        (kv? outs "stored2").bind natList?, (kv? outs "keys2").bind natList?, kvNat? outs "handledTwice", kvNat? outs "unreadableAtCall" with
  | some n, some to, some ff, some only, some res1, some tail1, some head1, some stored1, some keys1, some handled1,
    some res2, some tail2, some head2, some stored2, some keys2, some twice, some unreadable =>
    let inRange := fun h => 1 ≤ h && h < to
    let refused := fun h => inRange h && (h == ff || (only == 0 && h > ff))
    let rest := (List.range (n + 1)).filter fun h => to ≤ h && h ≤ n
    -- C14
    if res1 != "err" then .prop "c14_error_returned" s!"res1={res1}" else
    if unreadable != 0 then .prop "c14_readable_at_call" s!"{unreadable} calls saw an unreadable header" else
    if (List.range (n + 1)).any (fun h => refused h && !stored1.contains h) then .prop "c14_failure_keeps_header" s!"stored1={stored1}" else
    if (List.range (n + 1)).any (fun h => inRange h && !stored1.contains h && !handled1.contains h) then
      .prop "c14_removed_iff_handled" s!"stored1={stored1} handled1={handled1}" else
    if twice != 0 then .prop "c14_once_per_removed" s!"{twice} heights were handled successfully twice" else
    -- C08, failed part-way
    if rest.any (fun h => !stored1.contains h) then .prop "c08_outside_untouched" s!"stored1={stored1}" else
    if !(stored1.contains tail1 && stored1.contains head1 && tail1 ≤ head1) then .prop "c08_pointers_resolve" s!"tail1={tail1} head1={head1} stored1={stored1}" else
    if stored1.any (· < tail1) || keys1.any (· < tail1) then .prop "c08_pointers_resolve" s!"headers below Tail {tail1}: stored1={stored1} keys1={keys1}" else
    -- C08, the retry completes the deletion and leaves nothing behind
    if res2 != "ok" then .prop "c08_retry_completes" s!"res2={res2}" else
    if stored2 != rest || keys2 != rest then .prop "c08_retry_completes" s!"after retry stored2={stored2} keys2={keys2}, expected {rest}" else
    if !rest.isEmpty && !(tail2 == to && head2 == n) then .prop "c08_pointers" s!"tail2={tail2} head2={head2}" else
    -- C04: between Tail and Head no height is missing, also after a DeleteRange that failed part-way
    if tag == "C04" && (List.range (n + 1)).any (fun h => tail1 ≤ h && h ≤ head1 && !stored1.contains h) then
      .prop "c04_gap_free_after_failed_parallel_delete" s!"tail1={tail1} head1={head1} stored1={stored1}"
    else .ok "parfail"
  | _, _, _, _, _, _, _, _, _, _, _, _, _, _, _, _, _ => .bad "parfail fields"

end GoHeader.Oracle
