/-
  Oracle.Common — verdicts of the driver.  Oracles import ONLY the Prelude and the hand models
  (never Props/*, never Gen/*), so the violation search still builds when a proof or the
  regenerated text does not.
-/
import GoHeader.Prelude
namespace GoHeader.Oracle

/-- verdict for one case: `cov` is a coverage key (which branch of the model the case exercised) -/
inductive Verdict
  | ok (cov : String)
  | corr (field model impl : String)       -- model and implementation disagree
  | prop (clause detail : String)          -- the property predicate fails on the implementation's observation
  | bad (msg : String)                     -- unparsable line (harness/driver protocol bug)

def Verdict.render : Verdict → String
  | .ok c => s!"ok {c}"
  | .corr f m i => s!"corr field={f} model={m} impl={i}"
  | .prop c d => s!"prop clause={c} {d}"
  | .bad m => s!"bad {m}"

/-- split "inputs => outputs" -/
def splitArrow (line : String) : Option (List String × List String) :=
  match line.splitOn " => " with
  | [a, b] => some (splitWs a, splitWs b)
  | _ => none

end GoHeader.Oracle
