import GoHeader.Oracle.Common
import GoHeader.P2P.Session
import GoHeader.P2P.Score
namespace GoHeader.Oracle
open GoHeader GoHeader.Sess

def behOf? (s : String) : Option Beh :=
  match s.splitOn ":" with
  | ["honest"] => some .honest | ["slow"] => some .honest | ["dup"] => some .dup | ["reorder"] => some .reorder | ["gapped"] => some .gapped
  | ["wrongchain"] | ["wrongchaincase"] => some .wrongchain | ["oversized"] => some .oversized | ["status"] => some .status
  | ["garbage"] => some .garbage | ["notfound"] => some .notfound | ["empty"] => some .empty
  | ["reset"] => some .reset | ["hang"] | ["late"] => some .hang
  | ["prefix", k] => k.toNat?.map .pfx
  | ["partialreset", k] => k.toNat?.map .pfx      -- what the client got before the reset = a prefix answer
  | ["shift", d] => d.toNat?.map .shift
  | ["forged", _] => some .forged
  | ["panickyverify", _] => some .forged
  | ["forgedabove", _] => some .forged     -- (honest below the threshold: the trace check allows either reading, see replay)
  | ["invalidlast"] => some .forged
  | ["panicky", _] => some .forged       -- a response the client cannot accept (its processing panics and is recovered)
  | _ => none

/-- `peer:origin+amount:behaviour` -/
def traceEv? (s : String) : Option (Nat × Req × Beh) :=
  match s.splitOn ":" with
  | p :: oa :: rest =>
    match oa.splitOn "+" with
    | [o, a] => do
      let origin ← o.toNat?
      -- `forgedabove:k` forges only chunks that start above k; below, the peer is honest
      let beh ← match rest with
        | ["forgedabove", k] => k.toNat?.map fun k => if origin > k then Beh.forged else Beh.honest
        | _ => behOf? (":".intercalate rest)
      pure (← p.toNat?, { origin := origin, amount := ← a.toNat? }, beh)
    | _ => none
  | _ => none

/-- replay the recorded request trace on the model; `none` = a recorded request was not outstanding -/
def replay (haves : List Nat) : St → List (Nat × Req × Beh) → Option St
  | s, [] => some s
  | s, (p, r, b) :: rest =>
    match s.outstanding.findIdx? (· == r) with
    | none => none
    | some i => replay haves (step s i (outcome (haves.getD p 0) r b)) rest

/-- two calls on one client: the second call's only capable peer is healthy; the first call's history must not starve it -/
def evalTwoCalls (ins outs : List String) : Verdict :=
  match kvNat? ins "from", kvNat? ins "to", kv? outs "res", kv? outs "err" with
  | some fromH, some to, some res, some err =>
    let expected := List.range' (fromH + 1) (to - (fromH + 1))
    if err == "CRASH" then .prop "c05_no_crash" "twocalls" else
    if err != "nil" then .prop "c18_complete" s!"second call: res={res} err={err}" else
    if (kvNat? outs "blocked").any (· != 0) then .prop "c18_complete" s!"an honest peer that only timed out once was blocked by the client ({(kvNat? outs "blocked").getD 0} blocked): it is lost for every later call" else
    if natList? res == some expected then .ok "twocalls" else .prop "c05_exact_heights" s!"res={res}"
  | _, _, _, _ => .bad "twocalls fields"

def scoreEv? : String → Option Score.Ev
  | "fail" => some .fail
  | s => if s.startsWith "ok" then (s.drop 2).toString.toNat?.map .ok else none

def clsTag : Score.Cls → String
  | .fin => "fin" | .inf => "inf" | .nan => "nan"

/-- `kind=scoreclass`: a sequence of outcomes booked on one tracked peer by the real `updateStats` / `decreaseScore`;
    the class of the resulting float32 score against `P2P.Score.run` (theorem c18_score_stays_finite) -/
def evalScoreClass (ins outs : List String) : Verdict :=
  match (kv? ins "seq").bind (fun s => (s.splitOn ",").mapM scoreEv?), kv? outs "class" with
  | some evs, some c =>
    if c != "fin" then .prop "c18_complete" s!"a peer's score became {c}: it cannot be ordered in the peer queue any more" else
    let m := clsTag (Score.run true .fin evs)
    if m == c then .ok "scoreclass" else .corr "score class" m c
  | _, _ => .bad "scoreclass fields"

def evalSession (prop : String) (ins outs : List String) : Verdict :=
  if kv? ins "kind" == some "scoreclass" then evalScoreClass ins outs else
  if kv? ins "kind" == some "twocalls" then evalTwoCalls ins outs else
  match kvNat? ins "from", kvNat? ins "to", kvNat? ins "chunk", kv? ins "peers", kv? outs "res", kv? outs "err", kv? outs "trace" with
  | some fromH, some to, some chunk, some peersS, some res, some err, some traceS =>
    let haves := (peersS.splitOn ",").map fun p => ((p.splitOn "|").headD "0").toNat?.getD 0
    let allHonest := (peersS.splitOn ",").all fun p => (p.splitOn "|").getD 1 "-" == "-"
    let capable := haves.any (· + 1 ≥ to)
    let expected := List.range' (fromH + 1) (to - (fromH + 1))
    -- property predicate on the implementation's answer
    let propFail : Option String :=
      if err == "CRASH" then some "c05_no_crash" else
      if to ≤ fromH + 1 then (if err == "err" && res == "-" then none else some "c05_degenerate_is_error") else
      if err == "nil" then
        (if res == "-" || res == "empty" then some "c05_nonempty" else
         match natList? res with
         | none => some "c05_only_verified_headers"     -- an X-tagged (foreign) header came back
         | some l => if l == expected then none
                     else if l.length != expected.length then some "c05_exact_heights"
                     else if l.mergeSort (fun a b => decide (a ≤ b)) != l then some "c05_ascending"
                     else some "c05_exact_heights")
      else if res != "-" then some "c05_slice_xor_error"
      else if prop == "C18" && capable && (allHonest || true) then some "c18_complete" else none
    match propFail with
    | some c => .prop c s!"res={res} err={err}"
    | none =>
      if to ≤ fromH + 1 then .ok "degenerate" else
      match start fromH to chunk, (if traceS == "-" then some [] else (traceS.splitOn ";").mapM traceEv?) with
      | some s0, some evs =>
        match replay haves s0 evs with
        | none => .corr "trace" "request not outstanding in the model" traceS
        | some s =>
          match result s, err with
          | some l, "nil" => if some l == natList? res then .ok s!"ok-{min 9 evs.length}" else .corr "result" (toString l) res
          | none, "nil" => .corr "result" "incomplete" res
          | some l, _ => .corr "result" (toString l) s!"error {err}"
          | none, _ => .ok s!"err-{min 9 evs.length}"
      | _, _ => .bad "session trace"
  | _, _, _, _, _, _, _ => .bad "session fields"

end GoHeader.Oracle
