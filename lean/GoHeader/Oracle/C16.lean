import GoHeader.Oracle.Common
import GoHeader.Sync.Tail
namespace GoHeader.Oracle
open GoHeader GoHeader.Tail

def i64 (n : Int) : Int64 := Int64.ofInt n
def u64 (n : Nat) : UInt64 := UInt64.ofNat n

def intList? (s : String) : Option (List Int) :=
  if s = "" || s = "-" then some [] else (s.splitOn ",").mapM String.toInt?

def evalC16 (ins outs : List String) : Verdict :=
  match kv? ins "kind" with
  | some "knowngossip" =>
    -- a refused (already known) gossip header must not prune anything
    match kv? outs "start", kv? outs "verdict", kvNat? outs "tail0", kvNat? outs "tail1", kv? outs "gone" with
    | some "ok", some v, some t0, some t1, some gone =>
      if v != "refuse" then .prop "c16_known_gossip_refused" s!"verdict={v}"
      else if t1 != t0 || gone != "-" then .prop "c16_retention_refused_gossip" s!"tail {t0} -> {t1}, gone={gone}"
      else .ok "knowngossip"
    | some s, _, _, _, _ => .prop "c16_not_wedged" s!"knowngossip: start={s}"
    | _, _, _, _, _ => .bad "C16 knowngossip fields"
  | some "hashpin" =>
    -- SyncFromHash has priority: with the tail on that header, renewals keep it and delete nothing
    match kvNat? ins "pin", kv? outs "renewals", kvNat? outs "tail", kvNat? outs "gone" with
    | some pin, some rs, some tl, some gone =>
      if (rs.splitOn ",").any (· == "panic") then .prop "c16_no_panic" s!"renewals={rs}" else
      if rs != "ok,ok,ok" then .prop "c16_not_wedged" s!"renewals={rs}" else
      if tl != pin || gone != 0 then .prop "c16_retention" s!"tail pinned by SyncFromHash at {pin}: now {tl}, {gone} stored headers above it are gone" else .ok "hashpin"
    | _, _, _, _ => .bad "C16 hashpin fields"
  | some "emptyinit" =>
    -- first tail selection over an empty store with the tail request failing once: an error, not a panic, and no wedge
    match kvNat? ins "sfh", kvNat? ins "n", kv? outs "r1", kvNat? outs "stored1", kv? outs "r2", kvNat? outs "tail" with
    | some sfh, some n, some r1, some s1, some r2, some tl =>
      if r1 == "panic" || r2 == "panic" then .prop "c16_no_panic" s!"first tail selection over an empty store: r1={r1} r2={r2}" else
      if r1 != "err" || s1 != 0 then .prop "c16_not_wedged" s!"failing tail request: r1={r1}, stored height {s1}" else
      if r2 != "ok" || tl == 0 || tl > n || (sfh != 0 && tl != sfh) then .prop "c16_not_wedged" s!"after the getter recovered: r2={r2} tail={tl}" else .ok "emptyinit"
    | _, _, _, _, _, _ => .bad "C16 emptyinit fields"
  | some "estimate" =>
    match kvInt? ins "tp", kvInt? ins "bt", kvNat? ins "headH", kv? outs "res" with
    | some tp, some bt, some headH, some res =>
      if res == "panic" then .prop "c16_no_panic" s!"estimateTailHeight tp={tp} bt={bt} headH={headH}" else
      match res.toNat? with
      | none => .bad "C16 estimate res"
      | some r =>
        if r < 1 || r > max 1 headH then .prop "c16_no_wrap" s!"estimate={r} headH={headH}" else
        match estimateTailHeight (i64 tp) (i64 bt) (u64 headH) with
        | .panic => .corr "estimate" "panic" res
        | .val v => if v.toNat == r then .ok "estimate" else .corr "estimate" (toString v.toNat) res
    | _, _, _, _ => .bad "C16 estimate fields"
  | some "find" =>
    match kvInt? ins "window", kvInt? ins "bt", kvNat? ins "tailH", kvNat? ins "headH", kvInt? ins "headT",
          kvNat? ins "storeH", (kv? ins "times").bind intList?, kv? outs "res" with
    | some window, some bt, some tailH, some headH, some headT, some storeH, some times, some res =>
      if res == "panic" then .prop "c16_no_panic" s!"findTailHeight window={window} bt={bt}" else
      if res == "err" then .prop "c16_not_wedged" "findTailHeight returned an error on a store holding every height" else
      match res.toNat? with
      | none => .bad "C16 find res"
      | some r =>
        if r < tailH || r > headH then .prop "c16_no_wrap" s!"newTail={r} oldTail={tailH} head={headH}" else
        let timeAt : Nat → Option Int64 := fun h => if h < tailH then none else (times[h - tailH]?).map i64
        let tailT := (times.head?).getD 0
        match findTailHeight (i64 window) (i64 bt) timeAt (u64 tailH) (i64 tailT) (u64 headH) (i64 headT) storeH with
        | .panic => .corr "find" "panic" res
        | .val none => .corr "find" "err" res
        | .val (some v) => if v == r then .ok (if v == tailH then "find-keep" else "find-move") else .corr "find" (toString v) res
    | _, _, _, _, _, _, _, _ => .bad "C16 find fields"
  | some "move" =>
    match kvInt? ins "window", kvInt? ins "bt", kvNat? ins "lo", kvNat? ins "local", kvInt? ins "headT", kvInt? ins "maxgap", kvNat? ins "sfh",
          kv? outs "r1", kv? outs "r2", kvNat? outs "tail", kvNat? outs "head", (kv? outs "gone").bind natList?, kvInt? outs "youngestGoneT" with
    | some window, some bt, some lo, some local_, some headT, some maxgap, some sfh, some r1, some r2, some tail, some head, some gone, some ygt =>
      if r1 == "panic" || r2 == "panic" then .prop "c16_no_panic" s!"subjectiveTail window={window} bt={bt}" else
      -- with a transient getter failure injected into the first attempt only, that attempt may fail; the retry must not
      let ff := kvNat? ins "failfirst" == some 1
      if (r1 != "ok" && !(ff && r1 == "err")) || r2 != "ok" then .prop "c16_not_wedged" s!"r1={r1} r2={r2}" else
      if ff && sfh != 0 && tail != sfh then .prop "c16_not_wedged" s!"after the retry the tail is {tail}, configured {sfh}" else
      if tail < 1 || tail > head then .prop "c16_tail_bounds" s!"tail={tail} head={head}" else
      -- gap-free: exactly the heights below the new tail are gone
      if gone != List.range' lo (tail - lo) then .prop "c16_gap_free" s!"gone={gone} tail={tail}" else
      if tail < lo && (kvNat? outs "filled").any (· != lo - tail) then .prop "c16_gap_free" s!"tail moved down to {tail} but only {(kvNat? outs "filled").getD 0} of {lo - tail} heights below {lo} are readable" else
      if head != local_ && head < local_ then .prop "c16_tail_bounds" s!"head moved down to {head}" else
      -- retention: spacing at most the block time ⇒ nothing younger than the window is deleted
      -- (an explicitly configured SyncFromHeight/Hash overrides the window: pruning up to it is the user's choice)
      if sfh == 0 && bt > 0 && maxgap ≤ bt && !gone.isEmpty && ygt ≥ headT - window then
        .prop "c16_retention" s!"deleted a header of age {headT - ygt} ns < window {window}"
      else .ok (if gone.isEmpty then "move-keep" else "move-prune")
    | _, _, _, _, _, _, _, _, _, _, _, _, _ => .bad "C16 move fields"
  | _ => .bad "C16 kind"

end GoHeader.Oracle
