import GoHeader.Oracle.Common
import GoHeader.P2P.Head
namespace GoHeader.Oracle
open GoHeader GoHeader.P2P

/-- the harness header type's Verify against trusted height `t` with trust range `R` (vhdr.Header.Verify) -/
def vhdrVerdict (t R : Nat) (fork : Bool) (h : Nat) : VOut :=
  if h ≤ t then .hard                       -- ErrKnownHeader
  else if h == t + 1 then (if fork then .hard else .ok)   -- adjacent: hash link
  else if fork then .soft                   -- non-adjacent header of another fork: type-level failure, soft
  else if R != 0 && h - t > R then .soft    -- non-adjacent beyond the trust range
  else .ok

def respOf? (t R : Nat) (a : String) : Option PeerResp :=
  if a == "hang" then some .hang
  else if a.startsWith "fail:" then some .fail
  else match a.splitOn ":" with
    | ["main", h] => h.toNat?.map fun h => .head h h (vhdrVerdict t R false h)
    | ["fork", h] => h.toNat?.map fun h => .head (1000 + h) h (vhdrVerdict t R true h)
    | ["big", k] => k.toNat?.map fun k => .head (2000 + k) (2^63 + k) (vhdrVerdict t R false (2^63 + k))
    | _ => none

def tagOf (id h : Nat) : String :=
  if id ≥ 2000 then s!"big:{h - 2^63}" else if id ≥ 1000 then s!"fork:{h}" else s!"main:{h}"

def resTag : HeadRes → String × String
  | .found id h s => (tagOf id h, if s then "soft" else "nil")
  | .notFound => ("zero", "notfound")
  | .ctxErr => ("zero", "ctx")

/-- C09 from the property text (order-independent part) on the implementation's answer -/
def c09_ok (useTracked : Bool) (n : Nat) (resps : List PeerResp) (head err : String) : Option String :=
  let usable : List (Nat × Nat × VOut) := resps.filterMap fun r => match r with
    | .head id h v => if useTracked && v == .hard then none else some (id, h, v)
    | _ => none
  let anyHang := resps.any (· == .hang)
  if err == "hard" || err == "other" then some "c09_error_class" else
  if (head == "zero") != (err == "notfound" || err == "ctx") then some "c09_zero_iff_error" else
  if head == "zero" then
    (if err == "notfound" && !(usable.isEmpty) && !anyHang then some "c09_notfound_only_if_none" else
     if err == "ctx" && !anyHang then some "c09_ctx_only_if_hang" else none)
  else
    -- the returned header was reported by an asked peer and did not fail hard
    match usable.find? (fun (id, h, _) => tagOf id h == head) with
    | none => some "c09_returned_was_reported_and_not_hard"
    | some (id, h, v) =>
      if useTracked && err == "nil" && v != .ok then some "c09_nil_means_verified" else
      if useTracked && err == "soft" && v != .soft then some "c09_soft_pairs_own_error" else
      if !useTracked && err != "nil" then some "c09_error_class" else
      -- quorum: if some hash was reported by at least minHeadResponses n usable answers it must be the result
      let q := minHeadResponses n
      let quorumIds := (usable.map (·.1)).filter fun i => (usable.filter (·.1 == i)).length ≥ q
      if !quorumIds.isEmpty && !quorumIds.contains id then some "c09_quorum_wins" else
      -- no quorum and everybody answered: the highest reported
      if quorumIds.isEmpty && !anyHang && usable.any (fun (_, h', _) => h' > h) then some "c09_fallback_highest" else none

def evalC09 (ins outs : List String) : Verdict :=
  match kvNat? ins "n", kvNat? ins "trusted", kvNat? ins "R", kv? ins "answers", (kv? ins "order").bind natList?,
        kv? outs "head", kv? outs "err" with
  | some n, some trusted, some R, some answers, some order, some head, some err =>
    match (answers.splitOn ",").mapM (respOf? trusted R) with
    | none => .bad "C09 answers"
    | some resps =>
      let useTracked := trusted != 0
      match c09_ok useTracked n resps head err with
      | some c => .prop c s!"head={head} err={err}"
      | none =>
        let arrival := order.filterMap (fun i => resps[i]?)
        let m := resTag (P2P.head useTracked n arrival)
        -- equal heights with different hashes: sort.Slice may put either first (fallback only)
        if m.1 == head && m.2 == err then .ok s!"{if useTracked then "T" else "U"}{n}-{m.2}"
        else if m.2 == err && (m.1.splitOn ":").getD 1 "" == (head.splitOn ":").getD 1 "x" && err != "ctx" then .ok s!"tie{n}"
        else .corr "head" s!"{m.1}/{m.2}" s!"{head}/{err}"
  | _, _, _, _, _, _, _ => .bad "C09 fields"

end GoHeader.Oracle
