import GoHeader.Store.TailRace
import GoHeader.Oracle.Common
import GoHeader.Store.Conc
import GoHeader.Store.HeightSub
import GoHeader.Oracle.Store
namespace GoHeader.Oracle
open GoHeader GoHeader.Conc

def concEv? (s : String) : Option Ev :=
  if s == "F" then some .flusher
  else if s.startsWith "A:" then (natList? (s.drop 2).toString).map .append
  else if s.startsWith "call:" then (s.drop 5).toString.toNat?.map .call
  else if s.startsWith "R" then (s.drop 1).toString.toNat?.map .reader
  else if s.startsWith "C" then (s.drop 1).toString.toNat?.map .cancel
  else none

def rpcTag : RPc → String
  | .done .found => "found" | .done .notFound => "notFound" | .done .ctxErr => "ctxErr"
  | .parked => "parked" | .start => "notstarted" | .missed => "at-missed" | .toRegister => "at-toRegister"
  | .registered => "at-registered" | .woken => "at-woken"

def evalConc (prop : String) (ins outs : List String) : Verdict :=
  match kv? ins "kind" with
  | some "gated" =>
    -- a reader parked on a store without a head: the model releases it with the first batch
    let noHead := kv? ins "where" == some "empty-store" || kv? ins "where" == some "parked-then-wiped"
    let modelStuck := match kvNat? ins "target" with
      | some t => noHead && (HeightSub.firstBatch { height := 0, subs := [t] } t t).subs.contains t
      | none => false
    if modelStuck then .bad "HeightSub model keeps the waiter parked" else
    match kv? outs "result" with
    | some "found" => .ok (if noHead then "gated-nohead" else "gated")
    | some r => .prop "c12_no_lost_wakeup" s!"gated replay: {" ".intercalate ins} => {r}"
    | none => .bad "gated"
  | some "stalledreader" =>
    match kvNat? ins "n", kvNat? ins "to", kv? outs "parked", kv? outs "delete", kv? outs "reader", kvNat? outs "head", kvNat? outs "tail", kv? outs "below" with
    | some n, some to, some "yes", some "ok", some rd, some hd, some tl, some below =>
      if rd == "hang" then .prop "c17_no_torn_read" "the stalled reader never returned" else
      if tl != to || below != "absent" then .prop "c17_tail_delete_racing_append_gap_free" s!"after DeleteRange(1,{to}) overtook a stalled reader of {to - 1} and the head advanced: Tail={tl}, height {to - 1} {below}" else
      if hd != n + 2 then .prop "c17_synced_appends_readable" s!"head={hd} after appending up to {n + 2}" else .ok "stalledreader"
    | _, _, some "no", _, _, _, _, _ => .bad "stalledreader: the reader was not stalled"
    | _, _, _, some "err", _, _, _, _ => .prop "c08_accepts_valid_ranges" "DeleteRange failed while a reader was stalled"
    | _, _, _, _, _, _, _, _ => .bad "stalledreader fields"
  | some "slowlookup" =>
    match kv? outs "parkedA", kv? outs "b", kv? outs "c" with
    | some "yes", some b, some c =>
      if b != "cancelled" then .prop "c12_cancel_releases" s!"a parked reader whose context was cancelled while ANOTHER reader's lookup was slow: {b}" else
      if c != "found" then .prop "c12_no_lost_wakeup" s!"a parked reader whose header was appended while ANOTHER reader's lookup was slow: {c}" else .ok "slowlookup"
    | some _, _, _ => .bad "slowlookup: the schedule was not reached"
    | _, _, _ => .bad "slowlookup fields"
  | some "tailrace" =>
    match kvNat? ins "t0", kvNat? ins "to", kvNat? ins "n", kv? outs "delete", kv? outs "sync", kvNat? outs "head", kvNat? outs "tail",
          (kv? outs "stored").bind natList? with
    | some t0, some to, some n, some "ok", some "ok", some hd, some tl, some stored =>
      -- the harness' interleaving on the model: the deleter reaches the middle, the flush loop takes the Append up to
      -- its look-up below the tail, the deleter finishes (setTail), the flush loop finishes
      let mid := (t0 + to) / 2
      let sched := List.replicate (mid - t0) false ++ [true, true, true] ++ List.replicate (to - mid + 1) false ++ [true, true]
      let m := GoHeader.Store.TailRace.run ⟨t0, to, n⟩ sched
      let want := (List.range (n + 2 - to)).map (· + to)
      if m.f != .done || m.d != .done then .bad "tailrace: model schedule does not finish" else
      -- property predicate (theorem c17_tail_delete_racing_append_gap_free): exactly [to .. n+1], Tail = to, Head = n+1
      if !(hd == n + 1 && tl == to && stored == want) then
        .prop "c17_tail_delete_racing_append_gap_free" s!"head={hd} tail={tl} stored={stored} want [{to}..{n+1}]"
      else if !(m.head == hd && m.tail == tl && m.stored (n + 1) == stored) then
        .corr "tailrace" s!"head={m.head} tail={m.tail} stored={m.stored (n+1)}" s!"head={hd} tail={tl} stored={stored}"
      else .ok "tailrace"
    | _, _, _, some d, some sy, _, _, _ => .prop "c17_tail_delete_racing_append_gap_free" s!"delete={d} sync={sy}"
    | _, _, _, _, _, _, _, _ => .bad "tailrace"
  | some "boundary" =>
    -- DeleteRange(1,n) up to the head racing appends n+1..n+k: the outcome of a sequential execution, and the
    -- published Head / Height never decrease on the way
    match kvNat? ins "n", kvNat? ins "k", kv? outs "delete", kvNat? outs "head", kvNat? outs "tail", kv? outs "regress",
          (kv? outs "stored").bind natList? with
    | some n, some k, some "ok", some hd, some tl, some reg, some stored =>
      if reg != "-" then .prop "c17_head_height_monotone" s!"a reader saw {reg}" else
      if hd == n + k && tl == n && stored == (List.range (k + 1)).map (· + n) then .ok "boundary"
      else .prop "c17_tail_delete_racing_append_gap_free" s!"head={hd} tail={tl} stored={stored} want [{n}..{n+k}]"
    | _, _, some d, _, _, _, _ => .prop "c17_tail_delete_racing_append_gap_free" s!"boundary: delete={d}"
    | _, _, _, _, _, _, _ => .bad "boundary"
  | some "torn" =>
    match kvNat? ins "n", kvNat? ins "to", kvNat? ins "more", kv? outs "delete", kvNat? outs "head", kvNat? outs "tail",
          (kv? outs "stored").bind natList? with
    | some n, some to, some more, some "ok", some hd, some tl, some stored =>
      if hd == n + more && tl == to && stored == (List.range (n + more + 1 - to)).map (· + to) then .ok "torn"
      else .prop "c17_tail_delete_racing_append_gap_free" s!"head={hd} tail={tl} stored={stored} want [{to}..{n+more}]"
    | _, _, _, some d, _, _, _ => .prop "c17_no_torn_read" s!"DeleteRange over appended-and-synced headers failed while a flush raced its look-up: delete={d}"
    | _, _, _, _, _, _, _ => .bad "torn"
  | some "resumewalk" =>
    -- chunks appended out of order, each followed by Sync: after all writers finished the store is the sequential one
    match kvNat? outs "head", kvNat? outs "readable", kv? outs "monitor" with
    | some hd, some rd, some mon =>
      if mon != "-" then .prop "c17_head_monotone" s!"monitor={mon}" else
      if rd != 12 then .prop "c17_synced_appends_readable" s!"readable={rd} of 12" else
      if hd != 12 then .prop "c17_equals_sequential" s!"all of 1..12 appended and synced, Height()={hd} (fault={(kv? ins "fault").getD "?"})" else .ok "resumewalk"
    | _, _, _ => .bad "resumewalk"
  | some "syncdrain" =>
    match kv? outs "sync", kvNat? outs "head", kvNat? outs "readable", kvNat? outs "want" with
    | some "ok", some hd, some rd, some want =>
      if hd == want && rd == want then .ok "syncdrain" else .prop "c17_synced_appends_readable" s!"head={hd} readable={rd} of {want}"
    | some s, _, _, _ => .prop "c17_synced_appends_readable" s!"sync={s}"
    | _, _, _, _ => .bad "syncdrain"
  | _ =>
  match kv? ins "events", kv? outs "readers", kvNat? outs "head", kvNat? outs "hs", (kv? outs "stored").bind natList?,
        kvNat? outs "mono", kvNat? outs "headok" with
  | some evS, some readersS, some head, some hs, some stored, some mono, some headok =>
    let implReaders : List (Nat × String) := if readersS == "-" then [] else
      (readersS.splitOn ",").filterMap fun r => match r.splitOn ":" with
        | [h, st] => h.toNat?.map (·, st)
        | _ => none
    -- property predicates on the implementation's observation
    let propFail : Option String :=
      if mono != 1 then some "c17_head_height_monotone" else
      if headok != 1 then some "c17_head_readable" else
      if implReaders.any (fun (h, st) => st == "parked" && stored.contains h) then some "c12_no_lost_wakeup" else
      if implReaders.any (fun (h, st) => st == "found" && !stored.contains h) then some "c12_found_is_stored" else
      if implReaders.any (fun (_, st) => st.startsWith "stuck" || st == "wrong" || st == "err") then some "c12_reader_stuck" else
      if implReaders.any (fun (h, st) => st == "notFound" && h > hs) then some "c12_notfound_only_below_height" else
      if head != 0 && !stored.contains head then some "c17_head_readable" else none
    match propFail with
    | some c => .prop c s!"readers={readersS} head={head} hs={hs} stored={stored}"
    | none =>
      match (evS.splitOn ";").mapM concEv? with
      | none => .bad "conc events"
      | some evs =>
        let m := run evs
        -- quiesce the model like the harness does: flusher to idle, readers until done or parked
        let m := (List.range 600).foldl (fun s _ => step s .flusher) m
        let m := (List.range m.readers.length).foldl (fun s i => (List.range 8).foldl (fun s _ => step s (.reader i)) s) m
        let mr := m.readers.map fun r => (r.h, rpcTag r.pc)
        let mstored := sortNat (m.stored.eraseDups)
        if mr != implReaders then .corr "readers" (toString mr) (toString implReaders)
        else if m.head.getD 0 != head then .corr "head" (toString (m.head.getD 0)) (toString head)
        else if m.hs != hs then .corr "height" (toString m.hs) (toString hs)
        else if mstored != sortNat stored then .corr "stored" (toString mstored) (toString stored)
        else .ok s!"{prop.take 3}:{if implReaders.any (·.2 == "parked") then "P" else ""}{if implReaders.any (·.2 == "found") then "F" else ""}{if implReaders.any (·.2 == "notFound") then "N" else ""}{if implReaders.any (·.2 == "ctxErr") then "C" else ""}"
  | _, _, _, _, _, _, _ => .bad "conc fields"

end GoHeader.Oracle
