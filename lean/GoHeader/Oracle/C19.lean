import GoHeader.Oracle.Common
import GoHeader.Sync.TailInit
import GoHeader.Sync.Head
import GoHeader.Oracle.Ranges
namespace GoHeader.Oracle
open GoHeader GoHeader.SHead

structure C19St where
  cfg : Cfg := ⟨0, 0, 0⟩
  now : Int := 0
  t1 : Int := 0
  spacing : Int := 0
  n : Nat := 0
  subj : Option H := none
  pending : Option (List String) := none
  lastRes : Nat := 0                -- highest height returned so far in this run
  fail : Option Verdict := none
  heads : Nat := 0
  kinds : List String := []

def C19St.flag (o : C19St) (v : Verdict) : C19St := if o.fail.isSome then o else { o with fail := some v }

def C19St.hdr (o : C19St) (h : Nat) : H := ⟨h, o.t1 + ((h : Int) - 1) * o.spacing⟩

def C19St.ans? (o : C19St) (a : String) : Option PeerAns :=
  match a.splitOn ":" with
  | ["fail"] => some .fail
  | ["ok", h] => h.toNat?.map fun h => .ok (o.hdr h)
  | ["soft", h] => h.toNat?.map fun h => .soft (o.hdr h) true
  | ["fresh", h] => h.toNat?.map fun h => .ok ⟨h, o.now - 2000000000⟩   -- another fork's header at height h, 2 s old
  | ["softbad", h] => h.toNat?.map fun h => .soft (o.hdr h) false
  | ["softnopath", h] => h.toNat?.map fun h => .soft (o.hdr h) false
  | _ => none

def renderReqs (rs : List Req) : String :=
  if rs.isEmpty then "-" else ",".intercalate (rs.map fun r => match r with | .init => "Head" | .trusted h => s!"HeadT:{h}")

def c19Line (o : C19St) (line : String) : C19St :=
  if o.fail.isSome then o else
  let toks := splitWs line
  match toks with
  | "case" :: _ :: _ :: rest =>
    match kvNat? rest "store", kvInt? rest "tp", kvInt? rest "rt", kvInt? rest "bt", kvInt? rest "now", kvInt? rest "t1", kvInt? rest "spacing", kvNat? rest "n" with
    | some store, some tp, some rt, some bt, some now, some t1, some sp, some n =>
      let o := { o with cfg := ⟨tp, bt, rt⟩, now := now, t1 := t1, spacing := sp, n := n }
      { o with subj := if store == 0 then none else some (o.hdr store) }
    | _, _, _, _, _, _, _, _ => o.flag (.bad "C19 case header")
  | ["op", "advance", s] =>
    match s.toInt? with
    | some sec => { o with now := o.now + sec * 1000000000 }
    | none => o.flag (.bad "advance")
  | "op" :: _ => { o with pending := some toks }
  | "ob" :: rest =>
    match o.pending with
    | some ["op", "arrive", hs] =>
      match hs.toNat? with
      | none => o.flag (.bad "arrive")
      | some h =>
        let accept := match o.subj with | some s => decide (h > s.height) | none => false
        let o := { o with pending := none }
        let impl := kv? rest "res" == some "ok"
        if impl != accept then o.flag (.corr "arrive" (toString accept) (toString impl))
        else if accept then { o with subj := some (o.hdr h) } else o
    | some ["op", "head", a1, a2] =>
      let o := { o with pending := none, heads := o.heads + 1 }
      match o.ans? a1, o.ans? a2, kv? rest "res", kv? rest "reqs", kv? rest "subj" with
      | some p1, some p2, some res, some reqs, some subjS =>
        -- property predicate on the implementation's observation
        let need := needInit o.cfg o.now o.subj
        let isRecent := match o.subj with | some s => recent o.cfg o.now s | none => false
        let propFail : Option String :=
          match res.toNat? with
          | some r =>
            if r < o.lastRes then some "c19_monotone" else
            -- whatever Head() hands out is not expired (a header of the chain at that height, or a fresh answer)
            if expired o.cfg o.now (o.hdr r) && !(a1 == s!"fresh:{r}" || a2 == s!"fresh:{r}") then some "c19_never_returns_expired" else
            if !need && isRecent && reqs != "-" then some "c19_recent_no_request" else
            if !need && !isRecent && reqs != s!"HeadT:{(o.subj.map (·.height)).getD 0}" then some "c19_stale_one_request_with_trusted_head" else
            if need then
              (match p1 with
               | .ok h => if expired o.cfg o.now h then some "c19_init_not_expired" else
                          if reqs != "Head" then some "c19_init_from_trusted_peers" else none
               | _ => some "c19_init_error_otherwise")
            else none
          | none =>
            if !need then some "c19_no_error_with_valid_subjective_head" else
            if reqs != "Head" then some "c19_init_from_trusted_peers" else none
        match propFail with
        | some c => o.flag (.prop c s!"{line}")
        | none =>
          let m := headCall o.cfg o.now o.subj p1 p2
          let mres := match m.result with | some h => toString h.height | none => "err"
          let msubj := match m.subj with | some h => toString h.height | none => "-"
          let kind := s!"{if need then "init" else if isRecent then "recent" else "stale"}-{if mres == "err" then "err" else "ok"}"
          let o := { o with kinds := if o.kinds.contains kind then o.kinds else o.kinds ++ [kind] }
          -- a refused soft-failing head may have promoted verified intermediates (C15); Head() then reports the
          -- subjective head as it is afterwards (never an older snapshot): follow the implementation's `subj` there
          let mres := match p2, subjS.toNat?, m.subj with
            | .soft h false, some si, some ms => if !need && !isRecent && ms.height ≤ si && si < h.height then subjS else mres
            | _, _, _ => mres
          if mres != res then o.flag (.corr "head.result" mres res)
          else if renderReqs m.reqs != reqs then o.flag (.corr "head.requests" (renderReqs m.reqs) reqs)
          else if msubj != subjS then
            -- a refused soft-failing head may still have promoted verified intermediates (C15): the subjective
            -- head may end anywhere in [old, candidate): follow the implementation there
            match p2, subjS.toNat?, m.subj with
            | .soft h false, some si, some ms =>
              if !need && !isRecent && ms.height ≤ si && si < h.height then
                { o with subj := some (o.hdr si), lastRes := max o.lastRes si }
              else o.flag (.corr "head.subjective" msubj subjS)
            | _, _, _ => o.flag (.corr "head.subjective" msubj subjS)
          else { o with subj := m.subj, lastRes := match m.result with | some h => max o.lastRes h.height | none => o.lastRes }
      | _, _, _, _, _ => o.flag (.bad "head fields")
    | _ => o.flag (.bad s!"unexpected ob: {line}")
  | ["end"] => o
  | _ => o.flag (.bad s!"line: {line}")

def c19Finish (o : C19St) : Verdict :=
  match o.fail with
  | some v => v
  | none => .ok s!"head:{",".intercalate o.kinds}"

/-- single-flight line -/
def evalC19HeadRace (ins outs : List String) : Verdict :=
  match kvNat? ins "store", kvNat? ins "extra", kv? outs "head", kv? outs "arrive", kvNat? outs "subj", kv? outs "pending", kv? outs "stale" with
  | some st, some extra, some head, some arrive, some subj, some pending, some stale =>
    let before := (kvNat? ins "before").getD 1
    let top := min (st + before + extra) 60
    if arrive != "ok" then .prop "c03_valid_gossip_accepted" s!"arrive={arrive}" else
    -- the in-flight caller gets at least what gossip had already made the subjective head when it was answered
    if !(head.toNat?.any (fun h => st + before ≤ h && h ≤ top)) then .prop "c19_head_result" s!"head={head}, expected {st + before}..{top}" else
    -- (the pending ranges are internal: reported in the line for diagnosis, not judged)
    if subj != top then .prop "c19_subjective_head_is_newest" s!"Head()={subj} newest stored={top} pending={pending}" else
    if stale != "refuse" then .prop "c03_stale_gossip_refused" s!"a stale header below the store head was accepted" else
    .ok "headrace"
  | _, _, _, _, _, _, _ => .bad "C19 headrace"

/-- A's request in flight, B already served the tip: A's (later) result must not be lower -/
def evalC19HeadStale (ins outs : List String) : Verdict :=
  match kvNat? ins "store", kv? ins "answer", kv? outs "arrive", kv? outs "b", kv? outs "a" with
  | some st, some answer, some "ok", some b, some a =>
    match b.toNat?, a.toNat? with
    | some bh, some ah =>
      if ah < bh then .prop "c19_monotone" s!"Head() returned {bh}, and afterwards {ah} to the caller whose request was still in flight" else
      -- correspondence with `headCallInflight` (theorem c19_monotone_inflight)
      let ans : Option PeerAns := match answer.splitOn ":" with
        | ["fail"] => some .fail
        | ["ok", h] => h.toNat?.map fun h => .ok ⟨h, 0⟩
        | _ => none
      match ans with
      | none => .bad "C19 headstale answer"
      | some an =>
        let m := headCallInflight ⟨st, 0⟩ ⟨bh, 0⟩ an
        if m.height != ah then .corr "headstale" (toString m.height) a else .ok "headstale"
    | _, _ => .prop "c19_head_result" s!"b={b} a={a}"
  | _, _, _, _, _ => .bad "C19 headstale"

/-- the real Syncer on the real Exchange: only heads that verify against the subjective head are ever adopted -/
def evalC19Integrated (ins outs : List String) : Verdict :=
  match kvNat? ins "store", kv? ins "answer", kvNat? ins "R", kv? outs "head", kv? outs "storehead" with
  | some st, some answer, some R, some head, some storehead =>
    if head.startsWith "fork" || head.startsWith "?" || storehead.startsWith "fork" then
      .prop "c19_only_verified_heads_adopted" s!"answer={answer} => head={head} storehead={storehead}" else
    match head.splitOn ":" with
    | ["main", hs] =>
      match hs.toNat? with
      | none => .bad "integrated head"
      | some h =>
        if h < st then .prop "c19_monotone" s!"head={head} below the stored head {st}" else
        match answer.splitOn ":" with
        | ["main", a] =>
          match a.toNat? with
          | some ah =>
            if st < ah && ah ≤ st + R && h != ah then .prop "c19_stale_one_request_with_trusted_head" s!"a verifiable newer head {ah} was not adopted: head={head}"
            else if h != st && h != ah then .prop "c19_only_verified_heads_adopted" s!"head={head} is neither the subjective head nor the answer"
            else .ok "integrated"
          | none => .bad "integrated answer"
        | _ => if h != st then .prop "c19_only_verified_heads_adopted" s!"answer={answer} => head={head}" else .ok "integrated"
    | _ => .prop "c19_no_error_with_valid_subjective_head" s!"head={head}"
  | _, _, _, _, _ => .bad "C19 integrated"

/-- a call with a dead context owned the head request; the next, healthy call makes its own single request -/
def evalC19CancelledOwner (ins outs : List String) : Verdict :=
  match kvNat? ins "store", kv? outs "head", kvNat? outs "reqs", kvNat? outs "slow" with
  | some st, some head, some reqs, some slow =>
    let want := if st == 0 then "59" else "40"
    if slow != 0 then .prop "c19_singleflight_one_request" s!"the call after a cancelled one waited for a request that nobody was making (head={head} reqs={reqs})" else
    if reqs != 1 then .prop "c19_stale_one_request_with_trusted_head" s!"reqs={reqs} after a cancelled call" else
    if head != want then .prop "c19_head_result" s!"head={head}, the peers answered {want}" else .ok "cancelledowner"
  | _, _, _, _ => .bad "C19 cancelledowner"

def evalC19Flight (ins outs : List String) : Verdict :=
  if kv? ins "kind" == some "taildown" then
    (match kvNat? ins "hi", kvNat? ins "sfh", kv? outs "h1", kv? outs "tailmove", kvNat? outs "tail", kv? outs "h2", kv? outs "stale", kv? outs "h3" with
     | some hi, some sfh, some h1, some mv, some tail, some h2, some stale, some h3 =>
       match h1.toNat?, h2.toNat?, h3.toNat? with
       | some v1, some v2, some v3 =>
         if v1 != hi then .prop "c19_head_result" s!"h1={h1}, the store head is {hi}" else
         if v2 < v1 || v3 < v2 then .prop "c19_monotone" s!"Head() returned {v1}, then {v2}, {v3} after the tail moved down to {tail} ({mv})" else
         if stale != "refuse" then .prop "c03_invalid_gossip_refused" s!"a stale header below the head was accepted after the tail moved down" else
         if mv != "ok" || tail != sfh then .prop "c16_not_wedged" s!"tail move down: {mv}, tail={tail}, configured {sfh}" else .ok "taildown"
       | _, _, _ => .prop "c19_head_result" s!"h1={h1} h2={h2} h3={h3}"
     | _, _, _, _, _, _, _, _ => .bad "taildown fields") else
  if kv? ins "kind" == some "lagstore" then
    (match kvNat? ins "store", kv? outs "arrive", kv? outs "h1", kv? outs "tailmove", kvNat? outs "tail", kv? outs "h2", kv? outs "h3" with
     | some st, some "ok", some h1, some mv, some tail, some h2, some h3 =>
       match h1.toNat?, h2.toNat?, h3.toNat? with
       | some v1, some v2, some v3 =>
         if v1 != st + 1 then .prop "c19_subjective_head_is_newest" s!"h1={h1} after header {st + 1} was accepted" else
         if v2 < v1 || v3 < v2 then .prop "c19_monotone" s!"Head() returned {v1}, then {v2}, {v3} after the tail moved to {tail} ({mv}) over a store whose Head() lags" else .ok "lagstore"
       | _, _, _ => .prop "c19_head_result" s!"h1={h1} h2={h2} h3={h3}"
     | _, some a, _, _, _, _, _ => .prop "c03_valid_gossip_accepted" s!"arrive={a}"
     | _, _, _, _, _, _, _ => .bad "lagstore fields") else
  if kv? ins "kind" == some "coldstart" then evalColdStart ins outs else
  if kv? ins "kind" == some "stalepending" then evalStalePending ins outs else
  if kv? ins "kind" == some "cancelledowner" then evalC19CancelledOwner ins outs else
  if kv? ins "kind" == some "integrated" then evalC19Integrated ins outs else
  if kv? ins "kind" == some "headrace" then evalC19HeadRace ins outs else
  if kv? ins "kind" == some "headstale" then evalC19HeadStale ins outs else
  match kvNat? ins "n", kvNat? outs "reqs", kv? outs "results" with
  | some n, some reqs, some results =>
    let rs := results.splitOn ","
    -- the slow first tail fetch on an empty store: the model (TailInit, repaired) lets every caller succeed
    let slowTailFail : Option String :=
      if kv? ins "prior" == some "slowtail" then
        let m := TailInit.run true {} ((List.range n).map TailInit.Ev.arrive ++ List.replicate n (TailInit.Ev.finish true))
        if m.results.length != n || !m.results.all (·.2) then some "model" else
        if rs.any (· == "err") then some "impl" else none
      else none
    if slowTailFail == some "model" then .bad "TailInit model: not every caller finished" else
    if slowTailFail == some "impl" then .prop "c19_singleflight_shared_result" s!"empty store, slow first tail fetch: the shared head request succeeded, yet callers failed: {results}" else
    if (kv? ins "answer").any (fun a => a.startsWith "softbad" || a.startsWith "softnopath") && rs.any (· == "44") then .prop "c19_soft_failing_head_not_adopted" results else
    if rs.any (· == "panic") then .prop "c19_singleflight_shared_result" s!"a caller panicked: {results}" else
    if reqs != 1 then .prop "c19_singleflight_one_request" s!"reqs={reqs} n={n}"
    else if rs.length != n || !(rs.all (· == rs.headD "")) then .prop "c19_singleflight_shared_result" results
    else .ok s!"flight{n}"
  | _, _, _ => .bad "C19 flight"

end GoHeader.Oracle
