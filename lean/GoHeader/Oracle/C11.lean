import GoHeader.Oracle.Common
import GoHeader.P2P.Subscriber
import GoHeader.P2P.Lifecycle
namespace GoHeader.Oracle
open GoHeader GoHeader.P2P

/-- what each payload kind of the harness does to `extractHeader` (the model's own reading of the kinds) -/
def extractOf? : String → Option Extract
  | "valid" | "validVD" => some .ok
  | "badValidate" | "badValidateVD" | "height0" | "noChain" => some .validateErr
  | "empty" | "garbage" | "truncated" | "unknownField" => some .decodeErr
  | "wrongTypeVD" | "panicDecode" | "panicValidate" | "panicValidateVD" => some .panics
  | _ => none

def outcomeOf? : String → Option VOutcome
  | "nil" => some .nil_ | "soft" => some .soft | "hard" => some .hard | "wrapSoft" => some .wrapSoft
  | "wrapHard" => some .wrapHard | "plain" => some .plain | "panic" => some .panic | "unset" => some .unset
  | _ => none

def verdictTag : P2P.Verdict → String
  | .accept => "accept" | .ignore => "ignore" | .reject => "reject"

/-- C11 straight from the property text, on the implementation's verdict -/
def c11_ok (e : Extract) (o : VOutcome) (verdict delivered : String) : Option String :=
  if verdict == "CRASH" then some "c11_no_crash" else
  let shouldAccept := e == .ok && o == .nil_
  let shouldIgnore := e == .ok && (o == .soft || o == .wrapSoft || o == .unset)
  if (verdict == "accept") != shouldAccept then some "c11_accept_iff" else
  if (verdict == "ignore") != shouldIgnore then some "c11_ignore_iff" else
  if verdict == "accept" && delivered != "same" then some "c11_delivered_value" else
  if verdict != "accept" && verdict != "ignore" && verdict != "reject" then some "c11_total" else none

/-- two real gossipsub nodes: every valid message that the verifier accepts is shown to it and delivered, also when it
    arrives while the verifier is busy with another one -/
def evalC11Gossip (outs : List String) : Oracle.Verdict :=
  match kv? outs "first", kv? outs "second", kvNat? outs "delivered" with
  | some f, some sd, some d =>
    if f != "seen" || sd != "seen" then .prop "c11_accept_iff" s!"a valid gossiped header never reached the verifier: first={f} second={sd}"
    else if d != 2 then .prop "c11_delivered_valid" s!"delivered {d} of 2 accepted headers"
    else .ok "gossip"
  | _, _, _ => .bad "C11 gossip"

/-- the same gate after the Subscriber was stopped and started again: the rejected header is refused (the verifier having
    been consulted), bytes that are no header are not delivered, the valid header is, and reading it does not crash -/
def evalC11Restart (ins outs : List String) : Oracle.Verdict :=
  match kv? outs "lifecycle", kv? outs "local", kv? outs "verifierasked", kv? outs "delivered", kv? outs "crashed" with
  | some "ok", some l, some a, some d, some c =>
    if c != "0" then .prop "c11_total" "reading the subscription panicked"
    else if l != "refused" || a != "1" then .prop "c11_accept_iff" s!"a header the verifier rejects: broadcast {l}, verifier asked={a}"
    else if d != "1" then .prop "c11_accept_iff" s!"delivered={d} (expected exactly the valid header 1)"
    else .ok s!"restart-{(kv? ins "restarts").getD "?"}"
  | some "stop-succeeded-with-open-subscription", _, _, _, _ => .ok "stop-open-succeeded"   -- nothing left to observe
  | some lc, _, _, _, _ => .prop "c11_total" s!"stop/start failed: {lc}"
  | _, _, _, _, _ => .bad "C11 restart"

/-- one Subscriber, several steps: a refused second registration changes nothing; a rejected message leaves no trace in the next -/
def evalC11Sequence (ins outs : List String) : Oracle.Verdict :=
  match kv? ins "sub", kv? outs "first", kv? outs "second", kv? outs "verdict", kv? outs "delivered" with
  | some "refused", some e1, some e2, some v, _ =>
    if e1 != "ok" || e2 == "ok" then .prop "c11_total" s!"SetVerifier: first={e1} second={e2} (the second registration must be refused)" else
    if v != "reject" then .prop "c11_reject_iff" s!"the registered verifier returns a hard failure, verdict={v} (a refused registration took over)" else .ok "sequence-refused"
  | some "afterreject", some v1, _, some v2, some d =>
    if v1 != "reject" then .prop "c11_reject_iff" s!"first message: {v1}" else
    if v2 != "accept" then .prop "c11_accept_iff" s!"a valid header after a rejected one: {v2}" else
    if d != "same" then .prop "c11_delivered_value" s!"the header delivered after a rejected one is not the header that was sent ({d})" else .ok "sequence-afterreject"
  | _, _, _, _, _ => .bad "C11 sequence"

def lifeOp? : String → Option Lifecycle.Op
  | "start" => some .start | "stop" => some .stop | "subscribe" => some .subscribe | "cancel" => some .cancel
  | _ => none

/-- `kind=lifecycle`: a sequence of Start / Stop / Subscribe / Cancel calls on the real Subscriber; each call's
    error/no-error against `P2P.Lifecycle.step`, and the gate probed at the end (theorem c11_gate_while_joined) -/
def evalC11Lifecycle (ins outs : List String) : Oracle.Verdict :=
  match (kv? ins "ops").bind (fun s => (s.splitOn ",").mapM lifeOp?), kv? outs "results", kv? outs "probe" with
  | some ops, some rs, some probe =>
    if probe == "CRASH" then .prop "c11_total" "reading the subscription panicked" else
    if probe != "refused" then .prop "c11_accept_iff" s!"after {(kv? ins "ops").getD ""}: a header the verifier rejects was {probe}" else
    let walk := ops.foldl (fun (acc : Lifecycle.St × List String) o =>
      let r := Lifecycle.step true acc.1 o
      (r.1, acc.2 ++ [if r.2 then "err" else "ok"])) (({} : Lifecycle.St), [])
    let m := ",".intercalate walk.2
    if m == rs then .ok s!"lifecycle-{ops.length}" else .corr "life-cycle results" m rs
  | _, _, _ => .bad "C11 lifecycle"

def evalC11 (ins outs : List String) : Oracle.Verdict :=
  if kv? ins "kind" == some "lifecycle" then evalC11Lifecycle ins outs else
  if kv? ins "kind" == some "sequence" then evalC11Sequence ins outs else
  if kv? ins "kind" == some "gossip" then evalC11Gossip outs else
  if kv? ins "kind" == some "restart" then evalC11Restart ins outs else
  match (kv? ins "payload").bind extractOf?, (kv? ins "outcome").bind outcomeOf?, kv? outs "verdict", kv? outs "delivered" with
  | some e, some o, some v, some d =>
    match c11_ok e o v d with
    | some c => .prop c s!"impl={v}"
    | none =>
      let m := verdictTag (verifyMessage e o)
      if m == v then .ok s!"{m}" else .corr "verdict" m v
  | _, _, _, _ => .bad "C11 fields"

end GoHeader.Oracle
