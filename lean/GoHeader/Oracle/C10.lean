import GoHeader.Oracle.Common
import GoHeader.P2P.Server
namespace GoHeader.Oracle
open GoHeader GoHeader.P2P

/-- C10 from the property text, on the implementation's observation of a range request. -/
def c10_ok (tail head : Nat) (origin amount : Nat) (end_ reply : String) (reads : Nat) (slow : Bool) : Option String :=
  if slow || end_ == "timeout" then some "c10_no_hang" else
  if reads > amount || reads > 64 then some "c10_bounded_reads" else
  if reply.startsWith "BAD" || (reply.splitOn "BAD").length > 1 then some "c10_only_store_data" else
  if end_ == "reset" || end_ == "err" then (if reply == "-" then none else some "c10_reply_shape") else
  if end_ != "eof" then some "c10_reply_shape" else
  if reply == "NF" then none else
  if reply == "-" then some "c10_reply_shape" else
  match natList? reply with
  | none => some "c10_reply_shape"
  | some hs =>
    if origin == 0 then (if hs == [head] then none else some "c10_head_request")
    else
      -- exactly origin, origin+1, … ; all stored; full length unless the range runs past head
      let k := hs.length
      if hs != List.range' origin k then some "c10_reply_exact" else
      if !hs.all (fun h => tail ≤ h && h ≤ head) then some "c10_only_store_data" else
      if k == amount then none else
      if origin + amount - 1 > head && origin + k - 1 == head then none else some "c10_reply_exact"

/-- a peer that never completes its request: the server ends the stream once the configured read deadline has passed
    (not before half of it, not later than seconds after it) -/
def evalStall (ins outs : List String) : Verdict :=
  match kv? outs "end", kv? outs "bucket" with
  | some e, some "ok" => .ok s!"stall-{(kv? ins "how").getD "?"}-{e}"
  | some e, some b => .prop "c10_no_hang_beyond_timeouts" s!"stalled request: how={(kv? ins "how").getD "?"} deadline={(kv? ins "deadline").getD "?"}ms end={e} {b}"
  | _, _ => .bad "stall fields"

def evalC10 (ins outs : List String) : Verdict :=
  if kv? ins "kind" == some "dataless" then
    (match kvNat? ins "n", kvNat? ins "head", kvNat? outs "refused", kv? outs "headreq", kv? outs "onereq" with
     | some n, some head, some refused, some hr, some one =>
       if hr != s!"eof:{head}" then .prop "c10_no_hang_beyond_timeouts" s!"after {n} requests without data ({refused} of them ended without a reply) a head request got {hr}" else
       if one != "eof:20" then .prop "c10_no_hang_beyond_timeouts" s!"after {n} requests without data a single-height request got {one}" else
       if refused != n then .prop "c10_reply_shape" s!"{n - refused} requests without data were answered or left hanging" else .ok "dataless"
     | _, _, _, _, _ => .bad "dataless fields") else
  if kv? ins "kind" == some "slowstore" then
    (match kvNat? ins "amount", kv? outs "end", kvNat? outs "ok", kvNat? outs "nf", kvNat? outs "n" with
     | some amount, some e, some okN, some nf, some n =>
       if e == "timeout" then .prop "c10_no_hang_beyond_timeouts" "no end of stream within 4 s" else
       if e == "reset" || e == "err" then .ok "slowstore-reset" else
       if nf == 1 && n == 1 then .ok "slowstore-notfound" else
       if okN == amount && n == amount then .ok "slowstore-full" else
       .prop "c10_reply_exact" s!"a store slower than the request timeout: the stream ended cleanly after {okN} of {amount} headers ({n} responses, {nf} NOT_FOUND)"
     | _, _, _, _, _ => .bad "slowstore fields") else
  if kv? ins "kind" == some "stall" then evalStall ins outs else
  match kv? ins "kind", kvNat? ins "tail", kvNat? ins "head", kvNat? ins "origin", kvNat? ins "amount",
        kv? outs "end", kv? outs "reply", kvNat? outs "reads", kvNat? outs "slow" with
  | some kind, some tail, some head, some origin, some amount, some end_, some reply, some reads, some slow =>
    let st : SStore := if head == 0 then none else some (tail, head)
    if kind == "range" then
      match c10_ok tail head origin amount end_ reply reads (slow == 1) with
      | some c => .prop c s!"end={end_} reply={reply} reads={reads}"
      | none =>
        let m := handleRange st (UInt64.ofNat origin) (UInt64.ofNat amount)
        let implTag := if end_ == "reset" then "reset" else reply
        if m.1.tag != implTag then .corr "reply" m.1.tag implTag
        else if m.2 != reads then .corr "reads" (toString m.2) (toString reads)
        else .ok (match m.1 with | .ok hs => if hs.length == amount then "ok-full" else "ok-partial" | .notFound => "NF" | .reset => "reset")
    else if kind == "moving" then
      -- the head moved from head0 to head during the request: the reply must be right for one of the two stores,
      -- and bounded in any case
      match c10_ok tail head origin amount end_ reply reads (slow == 1), (kvNat? ins "head0").map (fun h0 => c10_ok tail h0 origin amount end_ reply reads (slow == 1)) with
      | none, _ => .ok "moving"
      | _, some none => .ok "moving"
      | some c, _ => .prop c s!"moving head: end={end_} reply={reply} reads={reads}"
    else if kind == "hash" then
      if end_ == "eof" && reply == toString origin && reads ≤ 1 then .ok "hash" else .prop "c10_hash" s!"end={end_} reply={reply}"
    else if kind == "noData" || kind == "hashEmpty" then
      -- a request that names neither an origin nor a (non-empty) hash must not be answered with data
      if slow == 1 || end_ == "timeout" then .prop "c10_no_hang" s!"end={end_}"
      else if reply == "-" || reply == "NF" then (if reads ≤ 1 then .ok kind else .prop "c10_bounded_reads" s!"reads={reads}")
      else .prop "c10_hash" s!"kind={kind} end={end_} reply={reply}"
    else if kind == "hashPruned" || kind == "hashUnknown" then
      if end_ == "eof" && reply == "NF" && reads ≤ 1 then .ok "hashNF" else .prop "c10_hash" s!"end={end_} reply={reply}"
    else
      -- arbitrary request bytes: anything but a crash/hang/bogus data; no store reads beyond one request's bound
      if slow == 1 || end_ == "timeout" then .prop "c10_no_hang" s!"end={end_}"
      else if (reply.splitOn "BAD").length > 1 then .prop "c10_only_store_data" reply
      else if reads > 64 then .prop "c10_bounded_reads" s!"reads={reads}"
      else .ok "raw"
  | _, _, _, _, _, _, _, _, _ => .bad "C10 fields"

end GoHeader.Oracle
