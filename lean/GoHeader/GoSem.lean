/-
  GoHeader.GoSem — the meaning the translator (tools/gotolean) gives to the Go constructs it
  accepts.  Part of the trusted base: `uint64` ↦ `UInt64` (wrapping), `int64`/`time.Duration` ↦
  `Int64` (wrapping, `/` truncates toward zero like Go), integer division by zero ↦ `Outcome.panic`
  (never Lean's `x / 0 = 0`), `time.Time` ↦ nanoseconds.
-/
import GoHeader.Prelude
namespace GoHeader

/-- result of a translated function that may hit Go's integer-divide-by-zero panic -/
inductive Outcome (α : Type) where
  | panic
  | val (a : α)
deriving DecidableEq, Repr

/-- what the straight-line part of `findTailHeight` hands to its walk loop -/
inductive TailEst where
  | done (height : UInt64)                          -- early return: the old tail stays
  | walk (newTailHeight : UInt64) (expectedTailTime : Int64)
deriving DecidableEq, Repr

/-- error classes of `convertStatusCodeToError` -/
inductive StatusErr where
  | ErrNotFound
  | other
deriving DecidableEq, Repr

end GoHeader
