/-
  Line-protocol driver.  Reads the harness output on stdin; for every case line runs the model,
  compares (correspondence), evaluates the property predicate on the implementation's own
  observation (violation search) and prints `<lineno> <verdict>` for everything that is not `ok`,
  then a summary with the coverage histogram.
-/
import GoHeader.Oracle.C01
import GoHeader.Oracle.C02
import GoHeader.Oracle.Store
import GoHeader.Oracle.C11
import GoHeader.Oracle.C10
import GoHeader.Oracle.C15
import GoHeader.Oracle.C16
import GoHeader.Oracle.C09
import GoHeader.Oracle.C13
import GoHeader.Oracle.C05
import GoHeader.Oracle.C19
import GoHeader.Oracle.C12
import GoHeader.Oracle.C03
open GoHeader GoHeader.Oracle

def evalLine (line : String) : Option Verdict :=
  match splitArrow line with
  | none => none
  | some (ins, outs) =>
    match ins with
    | "C01" :: rest => some (evalC01 rest outs)
    | "C02" :: rest => some (evalC02 rest outs)
    | "C11" :: rest => some (evalC11 rest outs)
    | "C10" :: rest => some (evalC10 rest outs)
    | "C15" :: rest => some (evalC15 rest outs)
    | "C16" :: rest => some (evalC16 rest outs)
    | "C09" :: rest => some (evalC09 rest outs)
    | "C13" :: rest => some (evalC13 rest outs)
    | "C05" :: rest => some (evalSession "C05" rest outs)
    | "C18" :: rest => some (evalSession "C18" rest outs)
    | "C19" :: rest => some (evalC19Flight rest outs)
    | "C07" :: rest => some (evalBurst rest outs)
    | "C03" :: rest => some (evalBurst rest outs)
    | "C04" :: rest => some (evalParFail "C04" rest outs)
    | "C06" :: rest => some (evalParFail "C06" rest outs)
    | "C08" :: rest => some (evalParFail "C08" rest outs)
    | "C14" :: rest => some (evalParFail "C14" rest outs)
    | "C12" :: rest => some (evalConc "C12" rest outs)
    | "C17" :: rest => some (evalConc "C17" rest outs)
    | _ => some (.bad "unknown property tag")

structure DAcc where
  n : Nat := 0
  ok : Nat := 0
  corr : Nat := 0
  prop : Nat := 0
  bad : Nat := 0
  cov : List (String × Nat) := []

def bump (cov : List (String × Nat)) (k : String) : List (String × Nat) :=
  match cov with
  | [] => [(k, 1)]
  | (k', n) :: rest => if k' = k then (k', n + 1) :: rest else (k', n) :: bump rest k

def storeCov (o : OSt) : String :=
  let m := o.model
  s!"store:{if o.crashes > 0 then s!"crash{min 9 (o.crashes / 10)}x" else ""}{if o.dead.isEmpty then "" else "D"}{if o.nHandlers > 0 then "H" else ""}{if o.mayFail then "F" else ""}{if m.head.isNone then "E" else ""}{if m.pending.isEmpty then "" else "P"}"

/-- the state of the `case … end` block being processed, by property family -/
inductive Block where
  | store (o : OSt)
  | c19 (o : C19St)
  | sync (o : SyncSt)

def Block.feed : Block → String → Block
  | .store o, l => .store (storeLine o l)
  | .c19 o, l => .c19 (c19Line o l)
  | .sync o, l => .sync (syncLine o l)

def Block.done : Block → Verdict
  | .store o => match o.fail with | some v => v | none => .ok (storeCov o)
  | .c19 o => c19Finish o
  | .sync o => syncFinish o

def blockFor (line : String) : Block :=
  match (splitWs line)[2]? with
  | some "C19" => .c19 (c19Line {} line)
  | some "C03" => .sync (syncLine {} line)
  | some "C07" => .sync (syncLine {} line)
  | _ => .store (storeLine {} line)

partial def loop (h : IO.FS.Stream) (lineNo : Nat) (a : DAcc) (cur : Option (Nat × Block)) : IO DAcc := do
  let line ← h.getLine
  if line.isEmpty then
    -- input ended inside a case: the harness died there
    match cur with
    | some (start, _) => IO.println s!"{start} bad truncated case (harness crashed?)"; return { a with n := a.n + 1, bad := a.bad + 1 }
    | none => return a
  let line := line.trimAsciiEnd.toString
  let finish (a : DAcc) (lineNo : Nat) (v : Verdict) : IO DAcc := do
    let a := { a with n := a.n + 1 }
    match v with
    | .ok c => pure { a with ok := a.ok + 1, cov := bump a.cov c }
    | .corr .. => IO.println s!"{lineNo} {v.render}"; pure { a with corr := a.corr + 1 }
    | .prop .. => IO.println s!"{lineNo} {v.render}"; pure { a with prop := a.prop + 1 }
    | .bad .. => IO.println s!"{lineNo} {v.render}"; pure { a with bad := a.bad + 1 }
  if line.startsWith "case " then
    loop h (lineNo + 1) a (some (lineNo, blockFor line))
  else match cur with
  | some (start, o) =>
    if line == "end" then
      let a ← finish a start o.done
      loop h (lineNo + 1) a none
    else loop h (lineNo + 1) a (some (start, o.feed line))
  | none =>
    match evalLine line with
    | none => loop h (lineNo + 1) a none
    | some v =>
      let a ← finish a lineNo v
      loop h (lineNo + 1) a none

def main : IO Unit := do
  let a ← loop (← IO.getStdin) 1 {} none
  IO.println s!"summary cases={a.n} ok={a.ok} corr={a.corr} prop={a.prop} bad={a.bad}"
  for (k, n) in a.cov do
    IO.println s!"cov {k} {n}"
