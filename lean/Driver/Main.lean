/-
  Line-protocol driver.  Reads the harness output on stdin; for every case line runs the model,
  compares (correspondence), evaluates the property predicate on the implementation's own
  observation (violation search) and prints `<lineno> <verdict>` for everything that is not `ok`,
  then a summary with the coverage histogram.
-/
import GoHeader.Oracle.C01
import GoHeader.Oracle.C02
open GoHeader GoHeader.Oracle

def evalLine (line : String) : Option Verdict :=
  match splitArrow line with
  | none => none
  | some (ins, outs) =>
    match ins with
    | "C01" :: rest => some (evalC01 rest outs)
    | "C02" :: rest => some (evalC02 rest outs)
    | _ => some (.bad "unknown property tag")

structure DAcc where
  n : Nat := 0
  ok : Nat := 0
  corr : Nat := 0
  prop : Nat := 0
  bad : Nat := 0
  cov : List (String × Nat) := []

def bump (cov : List (String × Nat)) (k : String) : List (String × Nat) :=
  match cov with
  | [] => [(k, 1)]
  | (k', n) :: rest => if k' = k then (k', n + 1) :: rest else (k', n) :: bump rest k

partial def loop (h : IO.FS.Stream) (lineNo : Nat) (a : DAcc) : IO DAcc := do
  let line ← h.getLine
  if line.isEmpty then return a
  let line := line.trimAsciiEnd.toString
  match evalLine line with
  | none => loop h (lineNo + 1) a
  | some v =>
    let a := { a with n := a.n + 1 }
    match v with
    | .ok c => loop h (lineNo + 1) { a with ok := a.ok + 1, cov := bump a.cov c }
    | .corr .. => IO.println s!"{lineNo} {v.render}"; loop h (lineNo + 1) { a with corr := a.corr + 1 }
    | .prop .. => IO.println s!"{lineNo} {v.render}"; loop h (lineNo + 1) { a with prop := a.prop + 1 }
    | .bad .. => IO.println s!"{lineNo} {v.render}"; loop h (lineNo + 1) { a with bad := a.bad + 1 }

def main : IO Unit := do
  let a ← loop (← IO.getStdin) 1 {}
  IO.println s!"summary cases={a.n} ok={a.ok} corr={a.corr} prop={a.prop} bad={a.bad}"
  for (k, n) in a.cov do
    IO.println s!"cov {k} {n}"
