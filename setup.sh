#!/bin/bash
# MANIFEST.setup_cmd — build the framework from files on disk only (offline).
set -e
cd "$(dirname "$0")"
export PATH=/root/go/pkg/mod/golang.org/toolchain@v0.0.1-go1.25.7.linux-amd64/bin:$PATH
export GOTOOLCHAIN=local GOFLAGS=-mod=mod GOPROXY=off GOSUMDB=off CGO_ENABLED=0
mkdir -p .locks evidence replays
( cd tools/gotolean && go build -o gotolean . )
./tools/gotolean/gotolean /repo lean/GoHeader/Gen >/dev/null
( cd lean && lake build GoHeader driver 2>&1 | tail -5 )
cp /repo/go.sum harness/go.sum
( cd harness && go build -tags verif -o bin/hx ./cmd/hx )
echo "setup ok"
