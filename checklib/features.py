"""Structural facts of a failing case, used to match known findings precisely (DESIGN.md A.3):
a violation is a known finding only if property, clause AND feature match."""
import re


def head_side_crash_inside_delete(case_text, detail):
    """C06/F14: the crash point is a direct (non-batched) delete of a header key strictly between the
    persisted tail and head pointers — i.e. inside a head-side DeleteRange on a datastore without
    context-attached write batches."""
    m = re.search(r"w=D\[del:(?:hdr)?(\d+)\] img: .*? hp=(\d+) tp=(\d+)", detail)
    if not m:
        return False
    n, hp, tp = map(int, m.groups())
    flavour_plain = "flavour=plain" in case_text
    return flavour_plain and tp < n < hp


FEATURES = {f.__name__: f for f in [head_side_crash_inside_delete]}
