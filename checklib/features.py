"""Structural facts of a failing case, used to match known findings precisely (DESIGN.md A.3):
a violation is a known finding only if property, clause AND feature match."""
import re


def head_side_crash_inside_delete(case_text, detail):
    """C06/F14: the crash point is a direct (non-batched) delete of a header key strictly between the
    persisted tail and head pointers — i.e. inside a head-side DeleteRange on a datastore without
    context-attached write batches."""
    m = re.search(r"w=D\[del:(?:hdr)?(\d+)\] img: .*? hp=(\d+) tp=(\d+)", detail)
    if not m:
        return False
    n, hp, tp = map(int, m.groups())
    flavour_plain = "flavour=plain" in case_text
    return flavour_plain and tp < n < hp


def _kv(text):
    return dict(t.split("=", 1) for t in text.split() if "=" in t)


def dense_blocks_estimate(case_text, detail):
    """C16/F7: no gap between header times exceeds the configured block time and at least one is strictly
    smaller (blocks denser than blockTime on average) - the situation in which the head-based estimate,
    which assumes every gap equals blockTime, over-prunes."""
    d = _kv(case_text)
    try:
        return int(d["maxgap"]) <= int(d["bt"]) and 0 < int(d["mingap"]) < int(d["bt"])
    except (KeyError, ValueError):
        return False


def network_head_above_local_head(case_text, detail):
    """C16/F15: the head handed to the tail computation lies above the local store head (the node
    was offline for longer than the pruning window) and no SyncFromHeight is configured."""
    d = _kv(case_text)
    try:
        return int(d["local"]) < int(d["headH"]) and int(d["sfh"]) == 0 and "r1=err r2=err" in detail
    except (KeyError, ValueError):
        return False


def parallel_delete_single_refusal(case_text, detail):
    """C08/C14/F21: a DeleteRange on the PARALLEL path (range >= threshold) in which a handler refuses one height
    only, so that other workers go on deleting above it before the error is noticed."""
    d = _kv(case_text)
    return d.get("kind") == "parfail" and d.get("only") == "1"


def delete_fault_between_the_two_keys(case_text, detail):
    """C08/F23: a datastore Delete fails on the SECOND key (the height-index entry) of a header inside DeleteRange:
    that header is half deleted and the Tail pointer cannot be moved onto it."""
    d = _kv(case_text)
    try:
        return d.get("kind") == "delfault" and int(d["failat"]) % 2 == 0
    except (KeyError, ValueError):
        return False


def range_end_beyond_2_63(case_text, detail):
    """C05/F30: GetRangeByHeight with a `to` of 2^63 or more: the range length is used as a slice capacity."""
    d = _kv(case_text)
    try:
        return int(d["to"]) >= 1 << 63
    except (KeyError, ValueError):
        return False


FEATURES = {f.__name__: f for f in [head_side_crash_inside_delete, dense_blocks_estimate, network_head_above_local_head, parallel_delete_single_refusal, delete_fault_between_the_two_keys, range_end_beyond_2_63]}
