"""Per-property configuration of ./check (which theorem files are the obligations, which regenerated
definitions they rest on, how a case line is canonicalised for the distinct/non-trivial count)."""
import re

KERNEL = "Lean 4.33.0 kernel; axioms per theorem as listed under coverage.axioms (subset of propext, Classical.choice, Quot.sound; no native_decide / bv_decide / sorry)"
HARNESS_TB = "correspondence harness /verif/harness (Go, runs the real code in-process) and Lean driver: canonicalisation and generator reach as reported in this file"
GOTOLEAN = "translator /verif/tools/gotolean: meaning given to the whitelisted Go subset (GoHeader/GoSem.lean)"


def kvs(line):
    return dict(t.split("=", 1) for t in line.split() if "=" in t)


def c01_canon(l):
    d = kvs(l.split(" => ")[0])
    now = int(d["now"])
    return (d["tz"], d["uz"], d["tc"], d["uc"], d["th"], d["uh"], int(d["tt"]) - now, int(d["ut"]) - now, d["tv"])


def c02_canon(l):
    d = kvs(l.split(" => ")[0])
    if "now" not in d:
        return l.split(" => ")[0]
    now = int(d["now"])
    out = []
    for e in d["us"].split(","):
        f = e.split(":")
        out.append(e if len(f) != 4 else (f[0], f[1], int(f[2]) - now, f[3]))
    return tuple(out)


def store_canon(block):
    # a case block: configuration + op lines (observations are outputs, not inputs)
    ls = [l for l in block.split("\n") if l.startswith("op ") or l.startswith("case ")]
    if ls and ls[0].startswith("case "):
        ls[0] = " ".join(ls[0].split()[3:])
    return "\n".join(ls)


def store_nontrivial(block):
    return "op delete" in block or "op restart" in block or block.count("op append") >= 2


STORE_TB = [KERNEL, HARNESS_TB,
            "Store.Seq is a hand model tied by op-sequence correspondence only (model observation = real Store observation on every observe/delete of every generated history)",
            "modelled, not verified: go-datastore (in-memory flavours plain / context-aware with batches + read transactions), golang-lru 2Q caches (model is cache-transparent), hash collision-freeness"]
STORE_ASSUME = ["chain headers only (one header per height)", "no datastore write faults in these histories (faults: C06)",
                "sequential delete path (< 10000 headers per DeleteRange)",
                "cache size 1 cannot be constructed (lru.New2Q rejects it), sizes 2, 3, 512 are used"]

PROPS = {
    "C01": dict(
        props_files=["GoHeader/Props/C01.lean"],
        gen=["verify", "clockDrift"],
        canon=c01_canon,
        nontrivial=lambda l: " tz=0 uz=0 " in l,
        rule="full grid zero^2 x chain x height{<,=,+1,>+1} x time-to-trusted{<,=,>} x trusted-time{past,future} x TV{6 shapes} "
             "+ near-drift pairs + seeded random pairs; distinct = distinct (flags, chains, heights, time offsets to now, TV); "
             "non-trivial = both headers non-zero (reaches past the first guard)",
        exhaustive=True,
        trusted_base=[KERNEL, GOTOLEAN + " for verify() and clockDrift (also differentially tested here against the compiled function)", HARNESS_TB,
                      "exact-nanosecond boundary of the clock-drift check is covered only through the regenerated text (time.Now cannot be pinned)"],
        assumptions=["time.Now() inside verify lies within the margins (>= 2 s) the harness keeps around every threshold",
                     "the concrete header type's Verify is a parameter (all six result shapes scripted)"],
    ),
    "C02": dict(
        props_files=["GoHeader/Props/C02.lean"],
        gen=[],
        canon=c02_canon,
        nontrivial=lambda l: "us=-" not in l,
        rule="all sequences up to length 4 (quick) / 5 (thorough) over 10 header kinds x first element adjacent/non-adjacent, "
             "+ seeded random sequences of length <= 40 with one defect; distinct = distinct sequences (times relative to now); non-trivial = non-empty input",
        exhaustive=True,
        trusted_base=[KERNEL, HARNESS_TB, "VerifyRange is hand-modelled (loop); tied by differential execution only"],
        assumptions=["time.Now() margins as for C01", "type-level Verify scripted per untrusted header"],
    ),
    "C04": dict(
        props_files=["GoHeader/Props/C04.lean"], gen=[], block=True,
        canon=store_canon, nontrivial=store_nontrivial,
        rule="seeded random op histories (append contiguous/gapped/reversed/repeated/arbitrary, sync, observe, DeleteRange aimed at the valid shapes and just off them, restart) "
             "over batch {1,2,3,64} x cache {2,3,512} x datastore {plain, context-aware}; distinct = distinct (config, op list); non-trivial = has a delete, a restart or >= 2 appends",
        trusted_base=STORE_TB, assumptions=STORE_ASSUME,
    ),
    "C08": dict(
        props_files=["GoHeader/Props/C08.lean"], gen=["deleteBudget"], block=True,
        canon=store_canon, nontrivial=lambda b: "op delete" in b,
        rule="as C04 with more deletes (35%), ranges touching unflushed headers (batch 64), whole-chain deletes, and a continuation (append, sync, restart) after every history; "
             "distinct = distinct (config, op list); non-trivial = contains a DeleteRange",
        trusted_base=STORE_TB, assumptions=STORE_ASSUME,
    ),
    "C14": dict(
        props_files=["GoHeader/Props/C14.lean"], gen=[], block=True,
        canon=store_canon, nontrivial=lambda b: "op delete" in b and "op ondelete" in b,
        rule="as C08 with 1-3 scripted OnDelete handlers failing (error or panic) at random call indexes; the harness logs (handler, height, readable-at-call) for every invocation; "
             "distinct = distinct (config, op list); non-trivial = has a handler and a DeleteRange",
        trusted_base=STORE_TB, assumptions=STORE_ASSUME,
    ),
    "C11": dict(
        props_files=["GoHeader/Props/C11.lean"], gen=[],
        canon=lambda l: l.split(" => ")[0], nontrivial=lambda l: True, exhaustive=True,
        rule="complete table: 14 payload kinds (valid, locally published with ValidatorData, failing Validate in 5 ways, undecodable in 4 ways, panics in decode / type assertion / Validate) "
             "x 8 verifier outcomes (nil, bare/wrapped soft/hard *VerifyError, plain error, panic, no verifier before context end); real Subscriber.verifyMessage via the verif export; "
             "distinct = distinct (payload, outcome); all non-trivial",
        trusted_base=[KERNEL, HARNESS_TB, "verifyMessage is hand-modelled (defer/recover/select are outside the translator's subset); tie = the full table executed on the real validator",
                      "modelled, not verified: go-libp2p-pubsub's handling of the returned ValidationResult (Accept=deliver+relay, Ignore=drop without penalty, Reject=drop+penalise)"],
        assumptions=["the harness' reading of what each payload kind does to extractHeader (Oracle/C11.lean extractOf?) is right",
                     "pubsub invokes the validator with a context that ends (the 'unset' outcome uses an already-cancelled one)"],
    ),
    "C10": dict(
        props_files=["GoHeader/Props/C10.lean"], gen=["maxRangeRequestSize"],
        canon=lambda l: l.split(" => ")[0], nontrivial=lambda l: "kind=range" in l and " amount=0 " not in l,
        rule="real ExchangeServer over a recording proxy around real pruned stores (tail 50/head 300, tail 1, tail = head-1, tiny, empty) on a mock network, raw stream client; "
             "grid origin {0,1,2,tail-1,tail,tail+1,head-64,head-63,head-1,head,head+1,head+2,10,2^63,2^64-2,2^64-1} x amount {0,1,2,3,63,64,65,66,1000,2^63,2^64-2,2^64-1}, "
             "seeded random (origin, amount), hash requests (stored, pruned, unknown), arbitrary request bytes; distinct = distinct request per store; non-trivial = range request with amount > 0",
        trusted_base=[KERNEL, HARNESS_TB, GOTOLEAN + " for MaxRangeRequestSize",
                      "handleRangeRequest/requestHandler are hand-modelled (P2P.Server) and tied by executing every generated request against the real server over a libp2p mocknet stream",
                      "modelled, not verified: libp2p mocknet streams, protobuf/serde framing, the Store behind the proxy (C04)"],
        assumptions=["the server's store satisfies C04 (contiguous tail..head)", "stream deadlines are real time: 'no hang' is observed as answering within 2 s",
                     "reads = headers the server asks its store for (GetRange widths, Get, GetByHeight); Head() used for clamping is a pointer read"],
    ),
    "C06": dict(
        props_files=["GoHeader/Props/C06.lean"], gen=[], block=True,
        canon=store_canon, nontrivial=lambda b: "crash k=" in b or "faults=" in b,
        rule="seeded random append/delete/restart histories on a write-logging datastore (plain and context-aware); a fresh real Store is opened on EVERY prefix of the commit log "
             "(each direct write / batch commit atomic), observed, the chain's continuation appended and Head observed again; plus histories with 1..3 consecutive failing flush commits at a random position; "
             "distinct = distinct (config, op list); non-trivial = has crash images or injected faults",
        trusted_base=STORE_TB + ["which prefixes of the commit log can occur (atomicity of a batch commit, ordering of direct writes) is taken from the recording datastore, not from the model"],
        assumptions=["a crash leaves exactly a prefix of the datastore's commit log", "faults are injected into flush commits only (not into DeleteRange's direct writes)"],
        timeout={"quick": 600, "thorough": 3000},
    ),
    "C15": dict(
        props_files=["GoHeader/Props/C15.lean"], gen=[],
        canon=lambda l: l.split(" => ")[0], nontrivial=lambda l: "requests=-" not in l,
        rule="real Syncer.incomingNetworkHead (verif export) over a real Store holding 1..subj, a scripted trusted getter with a request log, a header type whose non-adjacent Verify succeeds up to a trust range R; "
             "grid distance 1..24 (60 thorough) x R 0..d x {genuine, forged candidate}; a getter failure at every intermediate height for sampled (d, R); seeded random distances up to 250; "
             "distinct = distinct (subj, new, R, forged, failing height); non-trivial = the bifurcation loop made at least one getter request",
        trusted_base=[KERNEL, HARNESS_TB, "verifyBifurcating is hand-modelled (loop) and tied by exact comparison of verdict, getter request sequence and promoted heads on every generated case"],
        assumptions=["the trusted getter returns the genuine chain header of the requested height or an error", "header.Verify is reduced to ok/soft/hard as proved in C01 (non-adjacent type-level failures are soft, adjacent ones hard, not-above is hard)"],
    ),
    "C16": dict(
        props_files=["GoHeader/Props/C16.lean"], gen=["estimateTailHeight", "tailEstimate"],
        canon=lambda l: re.sub(r"\b(headT|times|youngestGoneT)=\S+", "", l.split(" => ")[0]), nontrivial=lambda l: "kind=estimate" not in l or " bt=0 " not in l,
        rule="estimateTailHeight on a (trustingPeriod, blockTime incl. 0 and negative, head height incl. 2^64-1) grid; findTailHeight and the end-to-end subjectiveTail (renewTail + moveTail on a real Store and scripted getter) "
             "on chains even / dense / sparse (20 min spacing) / halted (3 h pause) / irregular x windows 10 s..1000 h x block times {0, 1 s, 2 s, 30 s, 10 min} x old tail {1, n/3}; "
             "offline node (network head above local head); SyncFromHeight up and down; seeded random chains; distinct = distinct case up to absolute timestamps; non-trivial = not the blockTime-0 estimate",
        trusted_base=[KERNEL, GOTOLEAN + " for estimateTailHeight and the straight-line part of findTailHeight (Int64/UInt64 semantics, divide-by-zero as explicit panic outcome)", HARNESS_TB,
                      "the walk loop is hand-modelled; renewTail/moveTail are NOT modelled: their clauses (bounds, gap-free, not wedged, retention) are evaluated on the real Store by the harness only"],
        assumptions=["timestamps and durations fit int64 nanoseconds", "SyncFromHash/SyncFromHeight name headers that exist on the network (otherwise an error is the right answer)"],
    ),
    "C09": dict(
        retry=True,
        props_files=["GoHeader/Props/C09.lean"], gen=["minHeadResponses", "maxUntrustedHeadRequests"],
        canon=lambda l: l.split(" => ")[0], nontrivial=lambda l: " n=1 " not in l,
        rule="real p2p.Exchange.Head against 1..6 scripted peers on a libp2p mocknet whose answers (main/fork heads at several heights, NOT_FOUND, garbage, invalid, wrong chain, unknown status, empty, reset, hang) "
             "are RELEASED in a harness-chosen arrival order; trusted-peer path: all answer tuples over a 5-letter alphabet x all arrival orders for 1..2 (quick) / 1..3 (thorough) peers; "
             "both paths (with/without WithTrustedHead incl. heads that verify ok / soft / hard against it): seeded random answers and orders for 1..6 peers; distinct = distinct (n, path, answers, order); non-trivial = more than one peer",
        trusted_base=[KERNEL, GOTOLEAN + " for minHeadResponses", HARNESS_TB,
                      "Exchange.Head's goroutines/channels are hand-modelled as a fold over the arrival order; the arrival order is enforced by releasing scripted answers one at a time (4 ms apart)",
                      "modelled, not verified: libp2p mocknet, serde framing, peer shuffling (irrelevant to the fold)"],
        assumptions=["an answer released 4 ms after the previous one is consumed after it (a disagreement is re-checked by the thorough tier's repeat)", "a peer that never answers makes Head return the context error unless a quorum formed first"],
        timeout={"quick": 900, "thorough": 3000},
    ),
    "C13": dict(
        retry=True,
        props_files=["GoHeader/Props/C13.lean"], gen=["statusToError"],
        canon=lambda l: l.split(" => ")[0], nontrivial=lambda l: " n=1 " not in l,
        rule="real p2p.Exchange.Get / GetByHeight against 1..4 scripted trusted peers on a mocknet; answers: the requested header, a valid header of another height / of a fork, wrong chain, failing Validate, garbage bytes, "
             "truncated frame, more responses than asked, unknown status code, empty body, empty stream, NOT_FOUND, reset, hang; released in a chosen arrival order; every single answer, ordered pairs, seeded random 2..4 peers; "
             "distinct = distinct (operation, answers, order); non-trivial = more than one trusted peer",
        trusted_base=[KERNEL, GOTOLEAN + " for convertStatusCodeToError", HARNESS_TB,
                      "performRequest's goroutines are hand-modelled as 'first valid answer in arrival order'; the harness' reading of which scripted answers are valid (Oracle/C13.lean gansOf?)"],
        assumptions=["answers released 4 ms apart are consumed in that order", "GetByHeight is not read as binding the returned header's height (the property does not say so)"],
        timeout={"quick": 900, "thorough": 3000},
    ),
    "C05": dict(
        retry=True,
        props_files=["GoHeader/Props/C05.lean", "GoHeader/Props/C05Tie.lean"], gen=["rangeDegenerate"],
        canon=lambda l: re.sub(r" trace=.*", "", l).split(" => ")[0], nontrivial=lambda l: "trace=-" not in l,
        rule="real p2p.Exchange.GetRangeByHeight against 1..4 scripted tracked peers on a mocknet; per (peer, request index) one behaviour out of: honest, prefix, shifted origin, previous chunk, reordered, gapped, forged header, wrong chain, "
             "oversized, unknown status, garbage, NOT_FOUND, empty, reset, hang; chunk sizes {1,2,3,4,5,8,64}; degenerate (from,to); every request each peer received is logged with a global sequence number; "
             "distinct = distinct (from, to, chunk, peer scripts); non-trivial = at least one sub-request reached a peer",
        trusted_base=[KERNEL, HARNESS_TB,
                      "the session's goroutines/channels/peer queue are hand-modelled as a multiset of outstanding sub-requests; tie = every recorded (peer, origin, amount) request of the real run is replayed on the model and must be outstanding there, and the final result must agree",
                      "Oracle/C05.lean `outcome`: the model's reading of what the client makes of each scripted behaviour",
                      "modelled, not verified: libp2p mocknet, serde framing, peer scoring (float32 heap: exercised, not modelled), real-time request timeouts (120 ms in the harness)"],
        assumptions=["peers other than the scripted catalogue are not explored", "fork headers that verify non-adjacently against `from` are outside the catalogue (the exchange verifies chunks against `from` only)"],
        timeout={"quick": 900, "thorough": 3400},
    ),
    "C18": dict(
        retry=True,
        props_files=["GoHeader/Props/C18.lean", "GoHeader/Props/C05.lean", "GoHeader/Props/C05Tie.lean"], gen=["rangeDegenerate"],
        canon=lambda l: re.sub(r" trace=.*", "", l).split(" => ")[0], nontrivial=lambda l: "trace=-" not in l,
        rule="honest scripted peers holding the chain up to per-peer heights, benign faults (NOT_FOUND, prefix answers, one timeout, reset, empty) leaving one capable peer; chunk sizes 1..8,16,33,64 x amounts {1, chunk-1, chunk, chunk+1, 2*chunk+1, 3*chunk}, "
             "1..5 peers, seeded random availability; the call must return exactly from+1..to-1; distinct = distinct (from, to, chunk, peer scripts); non-trivial = at least one sub-request reached a peer",
        trusted_base=[KERNEL, HARNESS_TB,
                      "the session's goroutines/channels/peer queue are hand-modelled as a multiset of outstanding sub-requests; tie = every recorded (peer, origin, amount) request of the real run is replayed on the model and must be outstanding there, and the final result must agree",
                      "Oracle/C05.lean `outcome`: the model's reading of what the client makes of each scripted behaviour",
                      "modelled, not verified: libp2p mocknet, serde framing, peer scoring (float32 heap: exercised, not modelled), real-time request timeouts (120 ms in the harness)"],
        assumptions=["termination is observed within the harness timeout (real time), proved only as a decreasing measure per accepted answer"],
        timeout={"quick": 900, "thorough": 3400},
    ),
    "C19": dict(
        props_files=["GoHeader/Props/C19.lean", "GoHeader/Props/C19Subjective.lean"], gen=["isExpired", "isRecent"], block=True,
        canon=lambda b: "\n".join([re.sub(r"\b(now|t1)=\S+", "", l) for l in b.split("\n") if l.startswith(("op ", "case ", "C19"))]),
        nontrivial=lambda b: b.count("op head") >= 2 or "kind=flight" in b,
        rule="real Syncer.Head over a real Store and a scripted getter with a request log; histories of head calls (peers answering fresh / stale / expired / failing / soft-failing heads, with and without TrustedHead), gossip arrivals and "
             "clock advances (virtual: the trusting period and recency threshold are shifted, equivalent for stored timestamps); stores empty / with a recent / stale / expired head; plus 2..5 overlapping callers on a gated getter (single flight); "
             "distinct = distinct history up to absolute timestamps; non-trivial = at least two Head calls or a concurrency case",
        trusted_base=[KERNEL, GOTOLEAN + " for isExpired / isRecent", HARNESS_TB,
                      "Head/networkHead/subjectiveHead are hand-modelled as one function of (subjective head, clock, peers' answers); the single-flight wrapper as a 3-event machine; tie = exact comparison of result, getter Head requests and subjective head after every call"],
        assumptions=["advancing the clock by D is emulated by shifting trustingPeriod and recencyThreshold by -D (sound for stored header times; header times never exceed the real clock)",
                     "tail maintenance inside Head() is made a no-op by SyncFromHeight=1 (C16 covers it)", "overlapping callers are produced with 15 ms staggering on a gated getter"],
    ),
    "C12": dict(
        props_files=["GoHeader/Props/C12.lean"], gen=[],
        canon=lambda l: l.split(" => ")[0], nontrivial=lambda l: "call:" in l and "A:" in l,
        rule="hook-free gated replays of the lost-wake-up window (a datastore read parks the reader between its failed lookup and its subscription) for contiguous and non-contiguous targets x batch sizes; "
             "seeded random schedules of one flusher and up to 4 readers on the real Store under a deterministic scheduler driving the yield hooks: appends contiguous / gapped / out of order, readers for heights below / at / above Height, cancellations; "
             "distinct = distinct executed schedule; non-trivial = at least one reader and one append",
        trusted_base=[KERNEL, HARNESS_TB,
                      "Store.Conc is a hand model at the granularity of the yield hooks (build tag verif) in store.go / heightsub.go; each segment between two hooks is assumed atomic w.r.t. the other actors (single atomic op or one lock, DESIGN.md A.4)",
                      "tie = the schedule the controlled scheduler actually executed on the real Store is replayed on the model; readers' results, Head, Height and the retrievable set must agree",
                      "NOT covered: the Go memory model / data races below hook granularity, real-thread schedules (no -race soak in this revision)"],
        assumptions=["woken readers reach their next yield within 300 us of the waking flusher step", "batches are processed by the single flush goroutine in queue order"],
        timeout={"quick": 300, "thorough": 3000},
    ),
    "C17": dict(
        props_files=["GoHeader/Props/C17.lean"], gen=[],
        canon=lambda l: l.split(" => ")[0], nontrivial=lambda l: "A:" in l,
        rule="the same controlled-scheduler runs as C12; after EVERY flusher segment the harness (as a reader between two segments) snapshots Head()/Height() and checks that the header returned by Head() is retrievable by hash, by height and through Has; "
             "monotonicity over the snapshot sequence; the final state is compared with the model's sequential result; distinct = distinct executed schedule; non-trivial = at least one append",
        trusted_base=[KERNEL, HARNESS_TB,
                      "Store.Conc is a hand model at the granularity of the yield hooks (build tag verif) in store.go / heightsub.go; each segment between two hooks is assumed atomic w.r.t. the other actors (single atomic op or one lock, DESIGN.md A.4)",
                      "tie = the schedule the controlled scheduler actually executed on the real Store is replayed on the model; readers' results, Head, Height and the retrievable set must agree",
                      "NOT covered: the Go memory model / data races below hook granularity, real-thread schedules (no -race soak in this revision)"],
        assumptions=["writers are serialised by the writes channel (Append = enqueue), so 2..4 writer goroutines differ from one only in queue order", "no DeleteRange in these schedules (its interleavings with Append are covered sequentially by C08: DeleteRange drains the queue first)"],
        timeout={"quick": 900, "thorough": 3400},
    ),
    "C03": dict(
        props_files=["GoHeader/Props/C03.lean", "GoHeader/Props/C07.lean"], gen=["rangeAmount"], block=True,
        canon=lambda b: "\n".join(l for l in b.split("\n") if l.startswith(("op ", "case "))),
        nontrivial=lambda b: b.count("op gossip") >= 2,
        rule="real Syncer (Start, sync loop running) over a real Store, a subscriber that captures the verifier, a scripted getter (ok / prefix / error / empty slice / range not starting at from+1); "
             "gossip deliveries through the captured verifier: valid heads (adjacent, skipping, stale, duplicate), forged, other-fork, wrong chain id, future-dated, earlier-than-trusted; trust ranges (bifurcation); "
             "after each delivery the loop runs to quiescence and every height of the Store is classified genuine / foreign / absent; distinct = distinct script; non-trivial = at least two deliveries",
        trusted_base=[KERNEL, HARNESS_TB,
                      "Sync.Machine is a SEQUENTIAL hand model (one event at a time to quiescence); tie = after every gossip delivery the real Syncer's verdict, Store head, sync target and State error are compared with the model",
                      "quiescence of the real sync loop is detected by polling (store head, pending ranges, getter log unchanged for 12 ms)",
                      "when getter faults are scripted AND a bifurcation promotes intermediates, which sync run meets the fault is scheduling-dependent: from there on only verdicts and the property predicates are compared (recorded in DESIGN.md)"],
        assumptions=["interleavings of the gossip handler with a RUNNING sync (syncStore.Append under races) are not explored: events are sequential", "store write errors and Stop races are outside the quantifier"],
        timeout={"quick": 600, "thorough": 3000},
    ),
    "C07": dict(
        props_files=["GoHeader/Props/C07.lean", "GoHeader/Props/C07Ranges.lean"], gen=["rangeAmount", "finished"], block=True,
        canon=lambda b: "\n".join(l for l in b.split("\n") if l.startswith(("op ", "case "))),
        nontrivial=lambda b: b.count("op gossip") >= 2,
        rule="as C03 with valid heads only: adjacent / skipping / bursts, getter cutting ranges into prefixes of every length and finite runs of errors; after each accepted head with an error-free getter the Store head must equal the target, "
             "State() must be finished without error and SyncWait must return; after an error nothing may be lost and the next head must complete the sync; distinct = distinct script; non-trivial = at least two deliveries",
        trusted_base=[KERNEL, HARNESS_TB,
                      "Sync.Machine is a SEQUENTIAL hand model (one event at a time to quiescence); tie = after every gossip delivery the real Syncer's verdict, Store head, sync target and State error are compared with the model",
                      "quiescence of the real sync loop is detected by polling (store head, pending ranges, getter log unchanged for 12 ms)",
                      "when getter faults are scripted AND a bifurcation promotes intermediates, which sync run meets the fault is scheduling-dependent: from there on only verdicts and the property predicates are compared (recorded in DESIGN.md)"],
        assumptions=["'eventually' is observed as quiescence within 0.8 s and proved as a decreasing measure (every honest answer stores >= 1 header) - scheduler fairness is trusted", "heads arriving WHILE a sync runs are delivered sequentially here (the 1-buffered trigger is not modelled)"],
        timeout={"quick": 600, "thorough": 3000},
    ),
}
