#!/usr/bin/env python3
"""Regenerates /verif/MANIFEST.json from checklib/props.py + checklib/manifest_text.py."""
import json, sys
from pathlib import Path
sys.path.insert(0, str(Path(__file__).parent))
from props import PROPS
from manifest_text import TEXT, NOT_YET

VERIF = Path(__file__).resolve().parent.parent
props = [json.loads(l) for l in open(VERIF / "properties.jsonl")]
checks = []
for p in props:
    i = p["id"]
    if i in PROPS and i in TEXT:
        t = TEXT[i]
        checks.append(dict(
            property_id=i, quick_cmd=f"./check {i} quick", thorough_cmd=f"./check {i} thorough",
            evidence_file=f"/verif/evidence/{i}.json", replay_cmd_template=f"./check {i} --replay {{path}}",
            engine="lean-proof+correspondence",
            level_claimed=dict(category="proof", text=t["text"], design_ref=t.get("ref", "DESIGN.md §4 " + i)),
            level_note=t["note"], technique=t["technique"]))
claimed = {c["property_id"] for c in checks}
hooks = json.loads((VERIF / "checklib/hooks.json").read_text()) if (VERIF / "checklib/hooks.json").exists() else []
m = dict(
    version=1, setup_cmd="./setup.sh",
    hooks=dict(guard="verif",
               enable="go build -tags verif (harness module /verif/harness replaces github.com/celestiaorg/go-header with /repo)",
               baseline_off_cmd="cd /repo && GOPROXY=off GOFLAGS=-mod=mod go test -vet=off -count=1 -timeout 25m ./...",
               source_commits=hooks, add_only=True),
    engines=[dict(name="lean-proof+correspondence", path="/verif/check", serves_properties=sorted(claimed),
                  kind_free_text="Lean 4 theorems about an executable model (lean/GoHeader), tied to /repo by a Go->Lean translator for guard chains/arithmetic "
                                 "(tools/gotolean) and by a differential harness (harness/cmd/hx) whose output the Lean driver replays on the model")],
    checks=checks,
    notes="See DESIGN.md. Checks print KNOWN-FINDING lines for entries of known_findings.json and VIOLATION lines otherwise.",
    not_applicable=[dict(property_id=p["id"], reason=NOT_YET.get(p["id"], "not built yet in this revision of /verif (the technique applies, see DESIGN.md §4)"))
                    for p in props if p["id"] not in claimed])
(VERIF / "MANIFEST.json").write_text(json.dumps(m, indent=1))
print("claimed:", sorted(claimed))
