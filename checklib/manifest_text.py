"""level_claimed.text / level_note / technique per property (MANIFEST.json is generated from this)."""
NOT_YET = {}
TEXT = {
 "C01": dict(
  text="Theorems c01_accept / c01_reason / c01_mandatory_hard about the model of header.Verify for ALL pairs and all six type-level result shapes; the guard chain is regenerated from verify.go on every run and proved equal to the model (c01_tie_verify); the real header.Verify is run on the complete grid of the quantifier and compared class-for-class.",
  note="Lean kernel; translator for verify()/clockDrift; harness error classification; time.Now margins; header type's Verify is a parameter.",
  technique="Lean 4 proof (decision logic) + regenerated guard chain + exhaustive differential grid"),
 "C02": dict(
  text="Theorems c02_prefix / c02_chain / c02_nil_iff / c02_empty / c02_first_bad_excluded by list induction over ALL input sequences; the real header.VerifyRange is compared with the model on every sequence up to length 4/5 over 10 header kinds plus random long ones.",
  note="Lean kernel; VerifyRange is hand-modelled and tied by differential execution only.",
  technique="Lean 4 proof (list induction) + exhaustive differential enumeration"),
 "C04": dict(
  text="c04_inv: the store invariant (ends set together, Tail<=Head, every height between stored, Head is the top of the run, Height=Head) holds after EVERY history of Append/Sync/DeleteRange/restart for every batch size, by induction over the op list; the property's clauses (GetByHeight/Get/Has/HasAt on the range, GetRange exactness, head does not pass a gap and advances when filled, appended headers stay readable) are corollaries. Model = implementation is checked on random histories over batch/cache/datastore flavours.",
  note="Lean kernel; Store.Seq hand model tied by op-sequence correspondence; caches are not modelled (cache-transparent model, eviction-sized caches exercised); no write faults here.",
  technique="Lean 4 proof (invariant by induction over operations) + op-sequence correspondence"),
 "C08": dict(
  text="Theorems on DeleteRange for every reachable store state: accepted shapes, rejection without effect, nothing of the range retrievable (flushed or pending, raw keys too), outside untouched on success and on partial failure, invariant (pointers) in every outcome, result nil iff no handler failed, and permanence over EVERY continuation of appends of other heights, syncs, deletes and restarts.",
  note="As C04. Write faults (commit errors) are not in this model.",
  technique="Lean 4 proof (pre/post-conditions + induction over continuations) + op-sequence correspondence"),
 "C14": dict(
  text="Theorems on the OnDelete call log of the sequential delete path: every call is for a height of the range and happens while the header is still readable; on success the log is exactly (stored heights ascending) x (handlers in order), each pair once; a failing handler keeps its header stored and readable, the error is returned, everything below was removed, and a retry calls the handlers again. The harness logs (handler, height, readable) of every real invocation and the driver compares it with the model's log.",
  note="As C04. Handler error and panic are the same to the store (recover wrapper) and are scripted per call index. The parallel delete path (>= 10000 headers) is not modelled.",
  technique="Lean 4 proof (induction over the delete loop) + op-sequence correspondence with scripted handler faults"),
 "C11": dict(
  text="c11_accept_iff / c11_ignore_iff / c11_reject_iff / c11_total: the validator's verdict as a total function of (what the payload does to decoding+Validate) x (verifier outcome), proved over the whole finite table in the kernel; the real verifyMessage is executed on the same complete table (incl. panics in decode, type assertion, Validate and verifier, and the unset-verifier path) and compared; delivered value checked to be the decoded header.",
  note="Lean kernel; hand model tied by exhaustive execution; pubsub's reaction to Accept/Ignore/Reject is go-libp2p-pubsub behaviour (not modelled).",
  technique="Lean 4 proof (decision table, kernel case analysis) + exhaustive differential table"),
 "C10": dict(
  text="c10_bounded (store reads <= min(amount, MaxRangeRequestSize) for ALL uint64 origin/amount incl. wrap-around and every store shape) and c10_reply_exact (every OK reply is exactly the store's headers origin, origin+1, ... - full, or a prefix only when the range runs past head; origin 0 = head; empty store never yields data) about the model of requestHandler+handleRangeRequest; the real ExchangeServer is driven over mocknet streams with a recording Store proxy on boundary grids, random requests, hash requests and arbitrary bytes and compared reply-for-reply and read-for-read with the model.",
  note="Lean kernel; hand model tied by executing requests against the real server; MaxRangeRequestSize regenerated from interface.go; libp2p/serde are runtime; 'no hang' is a real-time observation.",
  technique="Lean 4 proof (UInt64 arithmetic, total function) + differential execution over mocknet"),
 "C06": dict(
  text="Clean restart: c06_clean_restart for every reachable state (same ends and height, exactly the mentioned headers incl. queued/pending ones, invariant) + c06_stop_keeps_head. Crash: c06_reopen_ends_resolve for ARBITRARY images (dangling pointers dropped, remaining ends resolve), c06_reopen_between_partial under the explicit NoHole hypothesis, c06_crash_counterexample proving the unconditional clause false (finding F14), c06_continuation_reaches_tip. Which images a crash can leave is taken from the real Store: the harness reopens a fresh real Store on EVERY prefix of the recorded commit log of random histories (plain and context-aware datastores), checks the property predicate on it and compares it with the model's reopen of the same image; 1..3 consecutive failing flush commits are injected and the final state compared with the fault-free model.",
  note="PARTIAL: the set of crash images (commit-log prefixes) is not derived inside the model, it is enumerated from the real write log; faults only in flush commits. Known finding F14 (head-side delete on a non-atomic datastore) is reported as KNOWN-FINDING.",
  technique="Lean 4 proof (restart refinement, reopen on arbitrary images, proved counter-example) + exhaustive crash-point enumeration on the real store"),
 "C15": dict(
  text="The bifurcation loop is defined by well-founded recursion, so its termination for EVERY verification predicate and getter is a kernel-checked obligation; c15_request_bound bounds the getter requests; c15_sound (acceptance exhibits a chain of successful verifications through the promoted intermediates), c15_promoted_fetched, c15_getter_failure_refuses, c15_only_soft_bifurcates, c15_accept_iff, c15_forged_refused, and c15_complete_trust_range (for predicates 'verifies iff distance <= R', R >= 1, honest getter: every candidate is accepted). The real Syncer is run on distance x trust-range x forged grids with getter failures at every step; verdict, exact request sequence and promoted heads are compared with the model.",
  note="Lean kernel; hand model of the loop tied by exact trace comparison; completeness is proved for trust-range predicates only (an arbitrary predicate can make a path exist that halving does not find - the property's 'iff' is read for range predicates, as in its quantifier).",
  technique="Lean 4 proof (well-founded recursion, fun_induction) + differential execution with recorded getter calls"),
 "C16": dict(
  text="Tail arithmetic regenerated from syncer_tail.go on every run and proved EQUAL to the model (rfl ties); for all 64-bit parameter values: no divide-by-zero panic (c16_no_panic_*), no wrap-around and results within [old tail, head] (c16_estimate_bounds, c16_tailEstimate_bounds), the walk loop only moves up, stays within the store and steps only over headers older than the window (c16_walk_bounds, c16_walk_retention); the head-based estimate's over-pruning is a proved counter-example (F7). The real Syncer's estimate/find/subjectiveTail are run on chain-shape x window x block-time grids; store bounds, gap-freeness, retention and repeated-call success are evaluated on the real Store.",
  note="PARTIAL: renewTail/moveTail (store + getter interaction) are not modelled, their clauses are checked on the implementation only; open known findings F7 (retention with dense blocks) and F15 (node offline longer than the window) are reported as KNOWN-FINDING.",
  technique="Lean 4 proof over regenerated Int64/UInt64 arithmetic + differential execution on chain-shape grids"),
 "C09": dict(
  text="c09_quorum_arith for EVERY peer count (regenerated minHeadResponses tied to the model), c09_first_quorum (returned at the arrival that completes a quorum), c09_fallback_highest, c09_none, c09_trusted (with WithTrustedHead a returned header never failed hard, nil error => it verified, soft error => its own soft verdict) about the model of Head's collection loop as a fold over arrival orders; the real Exchange.Head runs against scripted mocknet peers whose answers are released in chosen orders and is compared with the model and with the order-independent property predicate.",
  note="Lean kernel; hand model of the goroutine/channel loop as a fold over arrivals; arrival order enforced by gated scripted peers with millisecond spacing (runtime assumption); libp2p is runtime.",
  technique="Lean 4 proof (fold over arrival order, arithmetic for all n) + differential execution with gated scripted peers"),
}
