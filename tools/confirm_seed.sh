#!/bin/bash
# usage: tools/confirm_seed.sh <seed-out-dir (with patch.diff, demo_test.go)> — confirms a seeded change in a scratch worktree:
#   applies at /repo HEAD, builds, existing suite passes, demo fails with the change and passes without it.
set -u
d=$(realpath "$1"); name=$(basename "$d")
export PATH=/root/go/pkg/mod/golang.org/toolchain@v0.0.1-go1.25.7.linux-amd64/bin:$PATH GOTOOLCHAIN=local GOFLAGS=-mod=mod GOPROXY=off GOSUMDB=off
wt=/tmp/confirm-$$-$name
git -C /repo worktree add -q --detach "$wt" HEAD || exit 2
cleanup() { git -C /repo worktree remove --force "$wt" >/dev/null 2>&1; }
trap cleanup EXIT
cd "$wt"
pkg=$(grep -m1 -o 'place in: *[A-Za-z0-9_/.]*' "$d/demo_test.go" | sed 's/place in: *//; s#/$##')
[ -z "$pkg" ] && pkg=.
demo="$pkg/zz_seed_demo_test.go"
res() { echo "$name: $1"; }
git apply "$d/patch.diff" || { res "APPLY-FAIL"; exit 1; }
go build ./... >/dev/null 2>&1 || { res "BUILD-FAIL"; exit 1; }
suite=pass
out=$(go test -vet=off -count=1 ./... 2>&1) || { 
  # tolerate the known-flaky Test_syncHead: retry once
  out=$(go test -vet=off -count=1 ./... 2>&1) || suite="FAIL: $(echo "$out" | grep -E '^(--- FAIL|FAIL)' | head -3 | tr '\n' ' ')"; }
cp "$d/demo_test.go" "$demo"
tests=$(grep -o 'func Test[A-Za-z0-9_]*' "$demo" | sed 's/func //' | paste -sd'|')
with=$(go test -vet=off -count=1 -run "^($tests)\$" ./$pkg/ 2>&1 | tail -1)
git checkout -q -- . ; 
without=$(go test -vet=off -count=1 -run "^($tests)\$" ./$pkg/ 2>&1 | tail -1)
rm -f "$demo"
res "suite=$suite | demo-with-patch: $with | demo-without: $without"
