// gotolean: a deliberately tiny translator from a whitelisted subset of Go function bodies in
// /repo to Lean 4 definitions (Tier A of DESIGN.md §2.2).  Pure go/ast, no type checking.
//
// Accepted statements:   x := e | var x T | if c { return e } | if c { x = e } (else-less)
//                        | switch { case c: return e | x = e ... } | return e | calls on log/metrics/span (dropped)
// Accepted expressions:  identifiers, integer literals, + - * / < <= > >= == != && || !, parentheses,
//                        conversions, and the call / selector whitelist given per function spec.
// Anything else makes the translation of that function FAIL CLOSED (non-zero exit for that function,
// recorded in the status file); the generated Lean file then does not define it and every theorem
// that depends on it stops compiling.
package main

import (
	"encoding/json"
	"fmt"
	"go/ast"
	"go/parser"
	"go/token"
	"os"
	"path/filepath"
	"sort"
	"strings"
)

// spec of one translated function
type spec struct {
	File     string            // path under the repo root
	Func     string            // Go function name
	Recv     string            // receiver type name ("" for plain functions)
	Lean     string            // Lean definition name
	Sig      string            // Lean binders + result type, e.g. "(now drift : Int) (t u : Hdr) : Option Sentinel"
	Ret      string            // "err" | "val" | "pair" (how return expressions are rendered)
	Idents   map[string]string // Go identifier -> Lean term
	Methods  map[string]string // method name -> template using $recv and $0,$1 (e.g. "Height": "$recv.height")
	Calls    map[string]string // qualified call "pkg.Fn" -> template with $0,$1…
	Sels     map[string]string // selector "a.b.c" -> Lean term
	UpToLoop bool              // translate only the statements before the first `for`
	Tail     string            // Lean term standing for "the rest" when UpToLoop (gets the live variables)
	Module   string            // generated Lean module (file stem under GoHeader/Gen)
	DivGuard bool              // emit explicit panic outcome for integer division by zero
	RetTpl   string            // template applied to a returned value before wrapping ($0), default "$0"
	Var      string            // when set: translate only the right-hand side of the first `Var := e` inside the function
	FirstIf  bool              // when set: translate only the condition of the first top-level `if` of the function
}

var goTypes = map[string]string{"uint64": "UInt64", "int64": "Int64", "int": "Int", "bool": "Bool"}

type failure struct{ msg string }

func failf(format string, a ...any) { panic(failure{fmt.Sprintf(format, a...)}) }

type tr struct {
	sp   *spec
	fset *token.FileSet
}

func (t *tr) pos(n ast.Node) string { return t.fset.Position(n.Pos()).String() }

func subst(tpl, recv string, args []string) string {
	out := strings.ReplaceAll(tpl, "$recv", recv)
	for i := len(args) - 1; i >= 0; i-- {
		out = strings.ReplaceAll(out, fmt.Sprintf("$%d", i), args[i])
	}
	return out
}

func selString(e ast.Expr) (string, bool) {
	switch x := e.(type) {
	case *ast.Ident:
		return x.Name, true
	case *ast.SelectorExpr:
		s, ok := selString(x.X)
		if !ok {
			return "", false
		}
		return s + "." + x.Sel.Name, true
	}
	return "", false
}

var binops = map[token.Token]string{
	token.ADD: "+", token.SUB: "-", token.MUL: "*", token.QUO: "/",
	token.LSS: "<", token.LEQ: "≤", token.GTR: ">", token.GEQ: "≥",
	token.EQL: "==", token.NEQ: "!=", token.LAND: "&&", token.LOR: "||",
}

func isBoolOp(op token.Token) bool {
	switch op {
	case token.LSS, token.LEQ, token.GTR, token.GEQ, token.EQL, token.NEQ, token.LAND, token.LOR:
		return true
	}
	return false
}

// divisors collects the non-literal divisors of an expression, left to right; fails closed when a
// division sits under a short-circuit operator (evaluation would be conditional).
func (t *tr) divisors(e ast.Expr, underSC bool, out *[]ast.Expr) {
	switch x := e.(type) {
	case *ast.BinaryExpr:
		sc := underSC || x.Op == token.LAND || x.Op == token.LOR
		t.divisors(x.X, sc, out)
		t.divisors(x.Y, sc, out)
		if x.Op == token.QUO || x.Op == token.REM {
			if _, lit := x.Y.(*ast.BasicLit); !lit {
				if underSC {
					failf("%s: division under short-circuit operator", t.pos(e))
				}
				*out = append(*out, x.Y)
			}
		}
	case *ast.ParenExpr:
		t.divisors(x.X, underSC, out)
	case *ast.UnaryExpr:
		t.divisors(x.X, underSC, out)
	case *ast.CallExpr:
		for _, a := range x.Args {
			t.divisors(a, underSC, out)
		}
		if s, ok := x.Fun.(*ast.SelectorExpr); ok {
			t.divisors(s.X, underSC, out)
		}
	}
}

func (t *tr) expr(e ast.Expr) string {
	switch x := e.(type) {
	case *ast.Ident:
		if v, ok := t.sp.Idents[x.Name]; ok {
			return v
		}
		switch x.Name {
		case "true", "false":
			return x.Name
		}
		return x.Name
	case *ast.BasicLit:
		if x.Kind == token.INT {
			return x.Value
		}
		failf("%s: unsupported literal %s", t.pos(e), x.Value)
	case *ast.ParenExpr:
		return "(" + t.expr(x.X) + ")"
	case *ast.UnaryExpr:
		if x.Op == token.NOT {
			return "(!" + t.boolExpr(x.X) + ")"
		}
		if x.Op == token.SUB {
			return "(-" + t.expr(x.X) + ")"
		}
		failf("%s: unsupported unary %s", t.pos(e), x.Op)
	case *ast.BinaryExpr:
		op, ok := binops[x.Op]
		if !ok {
			failf("%s: unsupported operator %s", t.pos(e), x.Op)
		}
		if x.Op == token.LAND || x.Op == token.LOR {
			return "(" + t.boolExpr(x.X) + " " + op + " " + t.boolExpr(x.Y) + ")"
		}
		if isBoolOp(x.Op) {
			if x.Op == token.EQL || x.Op == token.NEQ {
				return "(" + t.expr(x.X) + " " + op + " " + t.expr(x.Y) + ")"
			}
			return "decide (" + t.expr(x.X) + " " + op + " " + t.expr(x.Y) + ")"
		}
		return "(" + t.expr(x.X) + " " + op + " " + t.expr(x.Y) + ")"
	case *ast.SelectorExpr:
		if s, ok := selString(x); ok {
			if v, ok := t.sp.Sels[s]; ok {
				return v
			}
		}
		failf("%s: unsupported selector", t.pos(e))
	case *ast.CallExpr:
		return t.call(x)
	case *ast.IndexExpr: // generic instantiation f[H](…) handled in call
		failf("%s: unsupported index expression", t.pos(e))
	}
	failf("%s: unsupported expression %T", t.pos(e), e)
	return ""
}

func (t *tr) boolExpr(e ast.Expr) string { return t.expr(e) }

func (t *tr) call(c *ast.CallExpr) string {
	args := make([]string, len(c.Args))
	fun := c.Fun
	if ix, ok := fun.(*ast.IndexExpr); ok { // f[H](...)
		fun = ix.X
	}
	// conversion / plain function
	if id, ok := fun.(*ast.Ident); ok {
		for i, a := range c.Args {
			args[i] = t.expr(a)
		}
		if tpl, ok := t.sp.Calls[id.Name]; ok {
			return subst(tpl, "", args)
		}
		failf("%s: call to %s not whitelisted", t.pos(c), id.Name)
	}
	if sel, ok := fun.(*ast.SelectorExpr); ok {
		if q, ok := selString(sel); ok {
			if tpl, ok := t.sp.Calls[q]; ok {
				for i, a := range c.Args {
					args[i] = t.expr(a)
				}
				return subst(tpl, "", args)
			}
		}
		if tpl, ok := t.sp.Methods[sel.Sel.Name]; ok {
			recv := t.expr(sel.X)
			for i, a := range c.Args {
				args[i] = t.expr(a)
			}
			return subst(tpl, recv, args)
		}
		failf("%s: method %s not whitelisted", t.pos(c), sel.Sel.Name)
	}
	failf("%s: unsupported call", t.pos(c))
	return ""
}

// retExpr renders a returned value according to the spec's return kind.
func (t *tr) retExpr(rs *ast.ReturnStmt) string {
	switch t.sp.Ret {
	case "err":
		if len(rs.Results) != 1 {
			failf("%s: expected one result", t.pos(rs))
		}
		return t.errExpr(rs.Results[0])
	case "val":
		if len(rs.Results) != 1 {
			failf("%s: expected one result", t.pos(rs))
		}
		return t.wrapVal(t.expr(rs.Results[0]))
	case "pair":
		if len(rs.Results) != 2 {
			failf("%s: expected two results", t.pos(rs))
		}
		return t.wrapVal("(" + t.expr(rs.Results[0]) + ", " + t.expr(rs.Results[1]) + ")")
	case "valerr": // (value, error) where error is always nil in translated part
		if len(rs.Results) != 2 {
			failf("%s: expected two results", t.pos(rs))
		}
		if id, ok := rs.Results[1].(*ast.Ident); !ok || id.Name != "nil" {
			failf("%s: non-nil error result", t.pos(rs))
		}
		return t.wrapVal(t.expr(rs.Results[0]))
	}
	failf("unknown return kind %q", t.sp.Ret)
	return ""
}

func (t *tr) wrapVal(s string) string {
	if t.sp.RetTpl != "" {
		s = "(" + strings.ReplaceAll(t.sp.RetTpl, "$0", s) + ")"
	}
	if t.sp.DivGuard {
		return "(.val " + s + ")"
	}
	return s
}

func (t *tr) errExpr(e ast.Expr) string {
	switch x := e.(type) {
	case *ast.Ident:
		if x.Name == "nil" {
			return "none"
		}
		if strings.HasPrefix(x.Name, "Err") {
			return "(some ." + x.Name + ")"
		}
	case *ast.SelectorExpr:
		if strings.HasPrefix(x.Sel.Name, "Err") {
			return "(some ." + x.Sel.Name + ")"
		}
	case *ast.CallExpr:
		if q, ok := selString(x.Fun); ok && q == "fmt.Errorf" && len(x.Args) >= 2 {
			if lit, ok := x.Args[0].(*ast.BasicLit); ok && strings.HasPrefix(lit.Value, "\"%w") {
				switch a := x.Args[1].(type) {
				case *ast.Ident:
					if strings.HasPrefix(a.Name, "Err") {
						return "(some ." + a.Name + ")"
					}
				case *ast.SelectorExpr:
					if strings.HasPrefix(a.Sel.Name, "Err") {
						return "(some ." + a.Sel.Name + ")"
					}
				}
			}
			if lit, ok := x.Args[0].(*ast.BasicLit); ok && !strings.Contains(lit.Value, "%w") {
				return "(some .other)"
			}
		}
	}
	failf("%s: unsupported error expression", t.pos(e))
	return ""
}

func (t *tr) droppable(s ast.Stmt) bool {
	es, ok := s.(*ast.ExprStmt)
	if !ok {
		return false
	}
	c, ok := es.X.(*ast.CallExpr)
	if !ok {
		return false
	}
	q, ok := selString(c.Fun)
	if !ok {
		return false
	}
	return strings.HasPrefix(q, "log.") || strings.HasPrefix(q, "s.metrics.") || strings.HasPrefix(q, "span.")
}

func (t *tr) guard(es []ast.Expr, body string, ind string) string {
	if !t.sp.DivGuard {
		for _, e := range es {
			var ds []ast.Expr
			t.divisors(e, false, &ds)
			if len(ds) > 0 {
				failf("%s: division by a non-literal in a function without DivGuard", t.pos(e))
			}
		}
		return body
	}
	var ds []ast.Expr
	for _, e := range es {
		t.divisors(e, false, &ds)
	}
	out := ""
	for _, d := range ds {
		out += "if " + t.expr(d) + " == 0 then .panic else\n" + ind
	}
	return out + body
}

// stmts renders a statement list as one Lean term.
func (t *tr) stmts(ss []ast.Stmt, ind string) string {
	if len(ss) == 0 {
		if t.sp.UpToLoop {
			return t.sp.Tail
		}
		failf("function falls off its end")
	}
	s, rest := ss[0], ss[1:]
	if t.droppable(s) {
		return t.stmts(rest, ind)
	}
	switch x := s.(type) {
	case *ast.ReturnStmt:
		return t.guard(x.Results, t.retExpr(x), ind)
	case *ast.AssignStmt:
		if len(x.Lhs) != 1 || len(x.Rhs) != 1 {
			failf("%s: multi-assignment", t.pos(s))
		}
		id, ok := x.Lhs[0].(*ast.Ident)
		if !ok {
			failf("%s: assignment to non-identifier", t.pos(s))
		}
		if x.Tok != token.DEFINE && x.Tok != token.ASSIGN {
			failf("%s: unsupported assignment %s", t.pos(s), x.Tok)
		}
		return t.guard(x.Rhs, "let "+id.Name+" := "+t.expr(x.Rhs[0])+"\n"+ind+t.stmts(rest, ind), ind)
	case *ast.DeclStmt:
		gd, ok := x.Decl.(*ast.GenDecl)
		if !ok || gd.Tok != token.VAR || len(gd.Specs) != 1 {
			failf("%s: unsupported declaration", t.pos(s))
		}
		vs := gd.Specs[0].(*ast.ValueSpec)
		if len(vs.Names) != 1 || len(vs.Values) != 0 {
			failf("%s: unsupported var", t.pos(s))
		}
		ty := ""
		if id, ok := vs.Type.(*ast.Ident); ok {
			if lt, ok := goTypes[id.Name]; ok {
				ty = " : " + lt
			}
		}
		if ty == "" {
			failf("%s: var of unsupported type", t.pos(s))
		}
		return "let " + vs.Names[0].Name + ty + " := 0\n" + ind + t.stmts(rest, ind)
	case *ast.IfStmt:
		if x.Init != nil || x.Else != nil {
			failf("%s: if with init/else", t.pos(s))
		}
		return t.guard([]ast.Expr{x.Cond}, t.branch(x.Cond, x.Body.List, rest, ind), ind)
	case *ast.SwitchStmt:
		if x.Init != nil {
			failf("%s: switch with init", t.pos(s))
		}
		return t.switchStmt(x, rest, ind)
	case *ast.ForStmt, *ast.RangeStmt:
		if t.sp.UpToLoop {
			return t.sp.Tail
		}
		failf("%s: loop", t.pos(s))
	}
	failf("%s: unsupported statement %T", t.pos(s), s)
	return ""
}

// branch: `if c { body }` followed by rest.
func (t *tr) branch(cond ast.Expr, body, rest []ast.Stmt, ind string) string {
	body = t.strip(body)
	c := t.boolExpr(cond)
	if len(body) > 0 {
		if _, ok := body[len(body)-1].(*ast.ReturnStmt); ok {
			return "if " + c + " then " + t.stmts(body, ind+"  ") + " else\n" + ind + t.stmts(rest, ind)
		}
	}
	// conditional assignment(s) to existing variables
	out := ""
	for _, b := range body {
		as, ok := b.(*ast.AssignStmt)
		if !ok || as.Tok != token.ASSIGN || len(as.Lhs) != 1 {
			failf("%s: unsupported statement in if-body", t.pos(b))
		}
		id, ok := as.Lhs[0].(*ast.Ident)
		if !ok {
			failf("%s: unsupported lhs in if-body", t.pos(b))
		}
		out += t.guard(as.Rhs, "let "+id.Name+" := if "+c+" then "+t.expr(as.Rhs[0])+" else "+id.Name+"\n"+ind, ind)
	}
	return out + t.stmts(rest, ind)
}

func (t *tr) strip(ss []ast.Stmt) []ast.Stmt {
	var out []ast.Stmt
	for _, s := range ss {
		if !t.droppable(s) {
			out = append(out, s)
		}
	}
	return out
}

func (t *tr) switchStmt(sw *ast.SwitchStmt, rest []ast.Stmt, ind string) string {
	// every case either returns or assigns the same set of variables; rendered as an if-chain
	type cs struct {
		cond ast.Expr
		body []ast.Stmt
	}
	var cases []cs
	var def []ast.Stmt
	hasDef := false
	for _, c := range sw.Body.List {
		cc := c.(*ast.CaseClause)
		if cc.List == nil {
			def, hasDef = t.strip(cc.Body), true
			continue
		}
		if len(cc.List) != 1 {
			failf("%s: multi-expression case", t.pos(cc))
		}
		cases = append(cases, cs{cc.List[0], t.strip(cc.Body)})
	}
	_ = hasDef
	// Build: if c1 then B1 else if c2 then B2 … else D, where Bi continues with rest unless it returns.
	var build func(i int) string
	cont := func(body []ast.Stmt) string {
		all := append(append([]ast.Stmt{}, body...), rest...)
		return t.stmts(all, ind+"  ")
	}
	build = func(i int) string {
		if i == len(cases) {
			return cont(def)
		}
		c := t.boolExpr(cases[i].cond)
		if sw.Tag != nil {
			c = "(" + t.expr(sw.Tag) + " == " + t.expr(cases[i].cond) + ")"
		}
		return t.guard([]ast.Expr{cases[i].cond},
			"if "+c+" then\n"+ind+"  "+cont(cases[i].body)+"\n"+ind+"else "+build(i+1), ind)
	}
	return build(0)
}

func translate(root string, sp *spec) (out string, err error) {
	defer func() {
		if r := recover(); r != nil {
			if f, ok := r.(failure); ok {
				err = fmt.Errorf("%s", f.msg)
				return
			}
			panic(r)
		}
	}()
	fset := token.NewFileSet()
	f, perr := parser.ParseFile(fset, filepath.Join(root, sp.File), nil, 0)
	if perr != nil {
		return "", perr
	}
	for _, d := range f.Decls {
		fd, ok := d.(*ast.FuncDecl)
		if !ok || fd.Name.Name != sp.Func {
			continue
		}
		if sp.Recv != "" {
			if fd.Recv == nil || len(fd.Recv.List) != 1 {
				continue
			}
			rt := fd.Recv.List[0].Type
			if st, ok := rt.(*ast.StarExpr); ok {
				rt = st.X
			}
			if ix, ok := rt.(*ast.IndexExpr); ok {
				rt = ix.X
			}
			if id, ok := rt.(*ast.Ident); !ok || id.Name != sp.Recv {
				continue
			}
		} else if fd.Recv != nil {
			continue
		}
		t := &tr{sp: sp, fset: fset}
		if sp.FirstIf {
			for _, st := range fd.Body.List {
				if is, ok := st.(*ast.IfStmt); ok && is.Init == nil {
					return fmt.Sprintf("/-- generated from %s: %s, condition of its first `if` -/\ndef %s %s :=\n  %s\n", sp.File, sp.Func, sp.Lean, sp.Sig, t.boolExpr(is.Cond)), nil
				}
			}
			return "", fmt.Errorf("%s: %s: no top-level `if` found", sp.File, sp.Func)
		}
		if sp.Var != "" {
			var rhs ast.Expr
			ast.Inspect(fd.Body, func(n ast.Node) bool {
				as, ok := n.(*ast.AssignStmt)
				if ok && rhs == nil && as.Tok == token.DEFINE && len(as.Lhs) == 1 && len(as.Rhs) == 1 {
					if id, ok := as.Lhs[0].(*ast.Ident); ok && id.Name == sp.Var {
						rhs = as.Rhs[0]
					}
				}
				return rhs == nil
			})
			if rhs == nil {
				return "", fmt.Errorf("%s: %s: no `%s := …` found", sp.File, sp.Func, sp.Var)
			}
			return fmt.Sprintf("/-- generated from %s: %s, `%s := …` -/\ndef %s %s :=\n  %s\n", sp.File, sp.Func, sp.Var, sp.Lean, sp.Sig, t.expr(rhs)), nil
		}
		body := t.stmts(fd.Body.List, "  ")
		return fmt.Sprintf("/-- generated from %s: %s -/\ndef %s %s :=\n  %s\n", sp.File, sp.Func, sp.Lean, sp.Sig, body), nil
	}
	return "", fmt.Errorf("%s: function %s not found", sp.File, sp.Func)
}

// constant extraction: `name = <int literal or simple product>` at package level
func constant(root, file, name string) (string, error) {
	fset := token.NewFileSet()
	f, err := parser.ParseFile(fset, filepath.Join(root, file), nil, 0)
	if err != nil {
		return "", err
	}
	var found ast.Expr
	ast.Inspect(f, func(n ast.Node) bool {
		vs, ok := n.(*ast.ValueSpec)
		if !ok {
			return true
		}
		for i, nm := range vs.Names {
			if nm.Name == name && i < len(vs.Values) {
				found = vs.Values[i]
			}
		}
		return true
	})
	if found == nil {
		return "", fmt.Errorf("%s: constant %s not found", file, name)
	}
	var ev func(e ast.Expr) (int64, error)
	ev = func(e ast.Expr) (int64, error) {
		switch x := e.(type) {
		case *ast.BasicLit:
			var v int64
			_, err := fmt.Sscan(x.Value, &v)
			return v, err
		case *ast.ParenExpr:
			return ev(x.X)
		case *ast.SelectorExpr:
			if q, ok := selString(x); ok {
				switch q {
				case "time.Nanosecond":
					return 1, nil
				case "time.Microsecond":
					return 1000, nil
				case "time.Millisecond":
					return 1000000, nil
				case "time.Second":
					return 1000000000, nil
				case "time.Minute":
					return 60 * 1000000000, nil
				case "time.Hour":
					return 3600 * 1000000000, nil
				}
			}
		case *ast.BinaryExpr:
			a, err := ev(x.X)
			if err != nil {
				return 0, err
			}
			b, err := ev(x.Y)
			if err != nil {
				return 0, err
			}
			switch x.Op {
			case token.MUL:
				return a * b, nil
			case token.ADD:
				return a + b, nil
			case token.SUB:
				return a - b, nil
			}
		}
		return 0, fmt.Errorf("%s: constant %s has an unsupported initialiser", file, name)
	}
	v, err := ev(found)
	if err != nil {
		return "", err
	}
	return fmt.Sprint(v), nil
}

type constSpec struct {
	File, Name, Lean, Type, Module string
}

func main() {
	if len(os.Args) != 3 {
		fmt.Fprintln(os.Stderr, "usage: gotolean <repo-root> <out-dir (…/GoHeader/Gen)>")
		os.Exit(2)
	}
	root, outDir := os.Args[1], os.Args[2]
	status := map[string]string{}
	mods := map[string][]string{}
	order := []string{}
	add := func(mod, text string) {
		if _, ok := mods[mod]; !ok {
			order = append(order, mod)
		}
		mods[mod] = append(mods[mod], text)
	}
	for _, c := range consts {
		v, err := constant(root, c.File, c.Name)
		if err != nil {
			status[c.Lean] = "failed-closed: " + err.Error()
			add(c.Module, "-- "+c.Lean+": "+err.Error()+"\n")
			continue
		}
		status[c.Lean] = "ok"
		add(c.Module, fmt.Sprintf("/-- generated from %s: %s -/\ndef %s : %s := %s\n", c.File, c.Name, c.Lean, c.Type, v))
	}
	for i := range specs {
		sp := &specs[i]
		text, err := translate(root, sp)
		if err != nil {
			status[sp.Lean] = "failed-closed: " + err.Error()
			add(sp.Module, "-- "+sp.Lean+" NOT TRANSLATED (fail closed): "+err.Error()+"\n")
			continue
		}
		status[sp.Lean] = "ok"
		add(sp.Module, text)
	}
	sort.Strings(order)
	for _, m := range order {
		hdr := "/- GENERATED by /verif/tools/gotolean from /repo — do not edit; rewritten on every run. -/\n" +
			"import GoHeader.Prelude\nimport GoHeader.GoSem\nnamespace GoHeader.Gen\nopen GoHeader\n\n"
		body := strings.Join(mods[m], "\n")
		text := hdr + body + "\nend GoHeader.Gen\n"
		p := filepath.Join(outDir, m+".lean")
		old, _ := os.ReadFile(p)
		if string(old) != text {
			if err := os.WriteFile(p, []byte(text), 0o644); err != nil {
				fmt.Fprintln(os.Stderr, err)
				os.Exit(2)
			}
		}
	}
	js, _ := json.MarshalIndent(status, "", " ")
	os.WriteFile(filepath.Join(outDir, "status.json"), js, 0o644)
	fmt.Println(string(js))
}
