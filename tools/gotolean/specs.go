package main

var hdrMethods = map[string]string{
	"IsZero":  "$recv.zero",
	"ChainID": "$recv.chain",
	"Height":  "$recv.height",
	"Time":    "$recv.time",
	"Before":  "decide ($recv < $0)",
	"After":   "decide ($recv > $0)",
	"Add":     "($recv + $0)",
	"Sub":     "($recv - $0)",
	"UTC":     "$recv",
}

var flatHdrMethods = map[string]string{
	"IsZero": "$recv_zero",
	"Height": "$recv_height",
	"Time":   "$recv_time",
	"Add":    "($recv + $0)",
	"Sub":    "($recv - $0)",
	"UTC":    "$recv",
}

var consts = []constSpec{
	{"verify.go", "clockDrift", "clockDrift", "Int", "Verify"},
	{"interface.go", "MaxRangeRequestSize", "maxRangeRequestSize", "Nat", "Consts"},
	{"p2p/exchange.go", "maxUntrustedHeadRequests", "maxUntrustedHeadRequests", "Nat", "Consts"},
	{"store/store_delete.go", "deleteRangeParallelThreshold", "deleteRangeParallelThreshold", "Nat", "Consts"},
}

var specs = []spec{
	{
		File: "verify.go", Func: "verify", Lean: "verify", Module: "Verify",
		Sig:     "(now clockDrift : Int) (trstd untrstd : Hdr) : Option Sentinel",
		Ret:     "err",
		Methods: hdrMethods,
		Calls:   map[string]string{"time.Now": "now"},
	},
	{
		File: "p2p/exchange.go", Func: "minHeadResponses", Lean: "minHeadResponses", Module: "P2P",
		Sig: "(numPeers : Nat) : Nat", Ret: "val",
	},
	{
		File: "p2p/helpers.go", Func: "convertStatusCodeToError", Lean: "statusToError", Module: "P2P",
		Sig: "(code : Nat) : Option StatusErr", Ret: "err",
		Sels: map[string]string{"p2p_pb.StatusCode_OK": "0", "p2p_pb.StatusCode_NOT_FOUND": "1"},
	},
	{
		File: "sync/ranges.go", Func: "rangeAmount", Recv: "headerRange", Lean: "rangeAmount", Module: "Sync",
		Sig: "(start len end_ : UInt64) : UInt64", Ret: "val",
		Idents: map[string]string{"end": "end_"},
		Sels:   map[string]string{"r.start": "start", "r.headers": "HEADERS"},
		Calls:  map[string]string{"len": "len", "uint64": "$0"},
	},
	{
		File: "sync/syncer.go", Func: "Finished", Recv: "State", Lean: "finished", Module: "Sync",
		Sig: "(ToHeight Height : Nat) : Bool", Ret: "val",
		Sels: map[string]string{"s.ToHeight": "ToHeight", "s.Height": "Height"},
	},
	{
		File: "sync/syncer_head.go", Func: "isExpired", Lean: "isExpired", Module: "Sync",
		Sig: "(now : Int) (header_zero : Bool) (header_time : Int) (period : Int) : Bool × Int", Ret: "pair",
		Methods: flatHdrMethods,
		Calls:   map[string]string{"time.Since": "(now - $0)"},
	},
	{
		File: "sync/syncer_head.go", Func: "isRecent", Lean: "isRecent", Module: "Sync",
		Sig: "(now : Int) (header_time : Int) (blockTime recencyThreshold : Int) : Bool × Int", Ret: "pair",
		Methods: flatHdrMethods,
		Calls:   map[string]string{"time.Since": "(now - $0)"},
	},
	{
		File: "sync/syncer_tail.go", Func: "estimateTailHeight", Recv: "Syncer", Lean: "estimateTailHeight", Module: "Tail",
		Sig: "(trustingPeriod blockTime : Int64) (head_height : UInt64) : Outcome UInt64", Ret: "val", DivGuard: true,
		Methods: flatHdrMethods,
		Sels:    map[string]string{"s.Params.trustingPeriod": "trustingPeriod", "s.Params.blockTime": "blockTime"},
		Calls:   map[string]string{"uint64": "(Int64.toUInt64 $0)"},
	},
	{
		File: "sync/syncer_tail.go", Func: "findTailHeight", Recv: "Syncer", Lean: "tailEstimate", Module: "Tail",
		Sig: "(PruningWindow blockTime : Int64) (oldTail_height : UInt64) (oldTail_time : Int64) " +
			"(head_height : UInt64) (head_time : Int64) : Outcome TailEst",
		Ret: "valerr", DivGuard: true, UpToLoop: true, RetTpl: "TailEst.done $0",
		Tail:    "(.val (TailEst.walk newTailHeight expectedTailTime))",
		Methods: flatHdrMethods,
		Sels:    map[string]string{"s.Params.PruningWindow": "PruningWindow", "s.Params.blockTime": "blockTime"},
		Calls:   map[string]string{"uint64": "(Int64.toUInt64 $0)"},
	},
	{
		// the share of the caller's deadline DeleteRange spends on deleting (the rest is kept for saving progress)
		File: "store/store_delete.go", Func: "deleteRangeRaw", Recv: "Store", Var: "sub", Lean: "deleteBudget", Module: "Store",
		Sig:     "(remaining : Int64) : Int64",
		Methods: map[string]string{"Sub": "remaining"},
	},
	{
		// the guard of GetRangeByHeight that refuses empty and inverted ranges
		File: "p2p/exchange.go", Func: "GetRangeByHeight", Recv: "Exchange", FirstIf: true, Lean: "rangeDegenerate", Module: "P2P",
		Sig:     "(from_height to : UInt64) : Bool",
		Methods: map[string]string{"Height": "from_height"},
	},
}
