module gotolean

go 1.23
