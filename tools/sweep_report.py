#!/usr/bin/env python3
"""tools/sweep_report.py — read seeded/SWEEP.txt (written by tools/seed_sweep.sh), update each seed's meta.json
(check.detected / check.violations as of the last sweep) and print the markdown table used in DESIGN.md §9."""
import json, re, sys
from pathlib import Path
root = Path("/verif/seeded")
rows = {}
for line in (root / "SWEEP.txt").read_text().splitlines():
    m = re.match(r"(\S+) (C\d\d) check exit=(\d+) \[(.*)\]", line)
    if not m:
        continue
    name, prop, rc, clauses = m.groups()
    rows.setdefault(name, []).append((prop, rc == "1", [c for c in clauses.split(";") if c]))
print("| seeded change (seeded/<name>/: patch.diff, demo_test.go, notes.md) | check run | caught by (clauses; `corr` = correspondence with the model broke) |")
print("|---|---|---|")
for name in sorted(rows):
    metap = root / name / "meta.json"
    meta = json.loads(metap.read_text())
    own = name.split("-")[0]
    det = [(p, c) for p, ok, c in rows[name] if ok]
    meta["check"]["detected"] = any(p == own for p, _ in det)
    meta["check"]["violations"] = [x for p, c in det if p == own for x in c]
    meta["check"]["detected_by_other_checks"] = {p: c for p, c in det if p != own}
    metap.write_text(json.dumps(meta, indent=1))
    notes = (root / name / "notes.md")
    need = ""
    if notes.exists():
        t = notes.read_text()
        m = re.search(r"(?is)(?:what (?:is|it) need(?:s|ed)[^\n]*\n+|needs?[^\n]*manifest[^\n]*\n+)(.{20,260}?)(?:\n\n|\n#|\Z)", t)
        if m:
            need = " ".join(m.group(1).split())[:200]
    caught = "; ".join(f"{p}: {', '.join((x.replace('prop ', '').replace('obligation GoHeader.', 'theorem ').strip() if x.strip() != 'corr' else 'corr') for x in c)}" for p, c in det) or "**not caught**"
    print(f"| `{name}` | {'/'.join(p for p, _, _ in rows[name])} | {caught} |")
