#!/bin/bash
# usage: tools/seedtest.sh <patch.diff> <Cxx> [quick|thorough]  — apply a seeded change to /repo, run the check, undo.
set -u
patch=$1; prop=$2; tier=${3:-quick}
cd /repo && git diff --quiet || { echo "/repo dirty"; exit 2; }
git apply "$patch" || { echo "patch does not apply"; exit 2; }
cd /verif && ./check "$prop" "$tier" 2>&1 | grep -E "^VIOLATION|^# |KNOWN" | cut -c1-260 | head -12
rc=${PIPESTATUS[0]}
git -C /repo checkout -- . 
echo "check exit=$rc"
