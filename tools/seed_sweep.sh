#!/bin/bash
# usage: tools/seed_sweep.sh [outfile] — applies every kept seeded change to /repo in turn, runs the property's quick check,
# undoes it, and writes one line per seed: <dir> <applies?> <check exit> <clauses>.  /repo must be clean; nothing else may
# use /repo while this runs.
out=${1:-/verif/seeded/SWEEP.txt}
filter=${2:-.}   # optional regex on the seed directory name
: > "$out"
for d in /verif/seeded/*/; do
  n=$(basename "$d"); p=${n%%-*}
  [ -f "$d/patch.diff" ] || continue
  echo "$n" | grep -Eq "$filter" || continue
  props="$p"
  extra=$(python3 -c "import json;print(' '.join(json.load(open('$d/meta.json')).get('also_check',[])))" 2>/dev/null)
  for q in $props $extra; do
    r=$(timeout 1500 /verif/tools/seedtest.sh "$d/patch.diff" "$q" 2>&1)
    if echo "$r" | grep -q "patch does not apply"; then echo "$n $q APPLY-FAIL" >> "$out"; continue; fi
    ex=$(echo "$r" | grep -o "check exit=[0-9]*")
    cl=$(echo "$r" | grep -o "^# [a-z]* [A-Za-z0-9_.]*" | sed 's/^# //' | sort -u | paste -sd';')
    echo "$n $q $ex [$cl]" >> "$out"
  done
done
git -C /repo status --short | head -3 >> "$out"
echo done >> "$out"
