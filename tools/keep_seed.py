#!/usr/bin/env python3
"""tools/keep_seed.py <seed-out-dir> <Cxx> — confirm (scratch worktree), run the check against it, and store
it under /verif/seeded/<Cxx>-<name>/ with meta.json."""
import json, shutil, subprocess, sys, re
from pathlib import Path
src, prop = Path(sys.argv[1]), sys.argv[2]
name = src.name
dst = Path("/verif/seeded") / f"{prop}-{name}"
conf = subprocess.run(["/verif/tools/confirm_seed.sh", str(src)], capture_output=True, text=True).stdout.strip()
ok = "demo-with-patch: FAIL" in conf and "demo-without: ok" in conf and ("suite=pass" in conf or "Test_syncHead" in conf)
det = subprocess.run(["/verif/tools/seedtest.sh", str(src / "patch.diff"), prop], capture_output=True, text=True).stdout
viol = re.findall(r"^# (\w+) (\S*):", det, re.M)
detected = "check exit=1" in det
if not ok:
    print(f"{prop}-{name}: NOT CONFIRMED: {conf}")
    sys.exit(1)
dst.mkdir(parents=True, exist_ok=True)
for f in ("patch.diff", "demo_test.go", "notes.md"):
    if (src / f).exists():
        shutil.copy(src / f, dst / f)
notes = (src / "notes.md").read_text() if (src / "notes.md").exists() else ""
meta = dict(property=prop, name=name,
            needs_to_manifest="see notes.md (written by the sub-agent that produced the change)",
            confirmed=dict(how="tools/confirm_seed.sh in a scratch worktree of /repo HEAD: patch applies, go build ./..., full existing suite, demo with and without the patch", result=conf),
            check=dict(cmd=f"tools/seedtest.sh seeded/{prop}-{name}/patch.diff {prop} (= git apply; ./check {prop} quick; git checkout)", detected=detected,
                       violations=[f"{k} {c}" for k, c in viol]))
(dst / "meta.json").write_text(json.dumps(meta, indent=1))
print(f"{prop}-{name}: kept; detected={detected} {[c for _, c in viol][:3]}")
