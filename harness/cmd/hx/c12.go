package main

import (
	"context"
	"errors"
	"fmt"
	ds "github.com/ipfs/go-datastore"
	contextds "github.com/ipfs/go-datastore/context"
	"os"
	"sort"
	"strings"
	"sync"
	"sync/atomic"
	"time"

	header "github.com/celestiaorg/go-header"
	"github.com/celestiaorg/go-header/store"

	"verifharness/memds"
	"verifharness/vhdr"
)

func init() {
	cmds["C12"] = func(t string, r *rng) { runConc("C12", t, r) }
	cmds["C17"] = func(t string, r *rng) { runConc("C17", t, r) }
}

type actorKey struct{}

type actor struct {
	id       string
	grant    chan struct{}
	at       string // last reported point ("" = running / not started)
	waiting  bool   // blocked in Yield
	finished bool
	result   string
	cancel   context.CancelFunc
	height   uint64
}

// sched: deterministic scheduler over the yield hooks — exactly one actor runs a segment at a time.
type sched struct {
	mu     sync.Mutex
	actors map[string]*actor
	note   chan string // actor ids that reported something
}

func newSched() *sched {
	s := &sched{actors: map[string]*actor{}, note: make(chan string, 256)}
	s.actors["F"] = &actor{id: "F", grant: make(chan struct{})}
	return s
}

func (s *sched) handler(ctx context.Context, point string) {
	id, _ := ctx.Value(actorKey{}).(string)
	if id == "" {
		if strings.HasPrefix(point, "reader.") {
			return // an unscheduled caller (the harness' own observations)
		}
		id = "F"
	}
	s.mu.Lock()
	a := s.actors[id]
	if a == nil {
		s.mu.Unlock()
		return
	}
	a.at = point
	park := point == "reader.parking"
	a.waiting = !park
	s.mu.Unlock()
	s.note <- id
	if park {
		return
	}
	<-a.grant
}

// settle waits until actor id has reported a new point, finished, or nothing happens for a while.
func (s *sched) settle(id string, max time.Duration) {
	deadline := time.After(max)
	for {
		s.mu.Lock()
		a := s.actors[id]
		ok := a.waiting || a.finished || a.at == "reader.parking"
		s.mu.Unlock()
		if ok {
			return
		}
		select {
		case <-s.note:
		case <-deadline:
			return
		}
	}
}

func (s *sched) drain() {
	for {
		select {
		case <-s.note:
		default:
			return
		}
	}
}

// grant lets a waiting actor run its next segment; false if it is not waiting at a yield.
func (s *sched) grantTo(id string) bool {
	s.mu.Lock()
	a := s.actors[id]
	if a == nil || !a.waiting || a.finished {
		s.mu.Unlock()
		return false
	}
	a.waiting, a.at = false, ""
	s.mu.Unlock()
	a.grant <- struct{}{}
	s.settle(id, 150*time.Millisecond)
	return true
}

func (s *sched) state(id string) (at string, waiting, finished bool, result string) {
	s.mu.Lock()
	defer s.mu.Unlock()
	a := s.actors[id]
	return a.at, a.waiting, a.finished, a.result
}

type concRun struct {
	sc      *sched
	st      *store.Store[*vhdr.Header]
	chain   []*vhdr.Header
	events  []string
	readers []string
	// C17 snapshots
	lastHead, lastHeight uint64
	mono, headOK         bool
	nsnap                int
}

func (c *concRun) snapshot() {
	ctx := context.Background()
	c.nsnap++
	hh := uint64(0)
	if h, err := c.st.Head(ctx); err == nil {
		hh = h.H
		// the header returned by Head() must itself be retrievable by hash and by height
		if _, err := c.st.Get(ctx, h.Hash()); err != nil {
			c.headOK = false
		}
		if x, err := c.st.GetByHeight(cancelled, h.H); err != nil || x.H != h.H {
			c.headOK = false
		}
		if ok, _ := c.st.Has(ctx, h.Hash()); !ok {
			c.headOK = false
		}
	}
	ht := c.st.Height()
	if hh < c.lastHead || (c.lastHead > 0 && ht < c.lastHeight) {
		c.mono = false
	}
	c.lastHead, c.lastHeight = hh, ht
}

// stepFlusher grants the flusher one model step; returns the model events it corresponds to.
func (c *concRun) stepFlusher() bool {
	at, waiting, _, _ := c.sc.state("F")
	if !waiting {
		return false
	}
	if at == "flush.done" { // leaving the closure is not a model step
		c.sc.grantTo("F")
		c.sc.settle("F", 30*time.Millisecond)
		at, waiting, _, _ = c.sc.state("F")
		if !waiting {
			return false
		}
	}
	c.sc.grantTo("F")
	now, _, _, _ := c.sc.state("F")
	ev := "F"
	if at == "flush.notified" && now == "flush.advanced" {
		ev = "F;F" // head unchanged: pointer store and SetHeight are both no-ops
	}
	c.events = append(c.events, ev)
	time.Sleep(300 * time.Microsecond) // woken readers reach their next yield
	c.sc.drain()
	c.snapshot()
	return true
}

func (c *concRun) call(h uint64) {
	id := fmt.Sprintf("R%d", len(c.readers))
	c.readers = append(c.readers, id)
	a := &actor{id: id, grant: make(chan struct{}), height: h}
	c.sc.mu.Lock()
	c.sc.actors[id] = a
	c.sc.mu.Unlock()
	c.events = append(c.events, fmt.Sprintf("call:%d", h))
}

// stepReader runs reader i's next segment (starting its goroutine on the first step).
func (c *concRun) stepReader(i int) bool {
	id := c.readers[i]
	c.sc.mu.Lock()
	a := c.sc.actors[id]
	started := a.at != "" || a.waiting || a.finished || a.result == "started"
	c.sc.mu.Unlock()
	if !started {
		a.result = "started"
		ctx := context.WithValue(context.Background(), actorKey{}, id)
		ctx, cancel := context.WithCancel(ctx)
		a.cancel = cancel
		go func() {
			h, err := c.st.GetByHeight(ctx, a.height)
			res := "err"
			switch {
			case err == nil && h != nil && h.H == a.height:
				res = "found"
			case err == nil:
				res = "wrong"
			case errors.Is(err, header.ErrNotFound):
				res = "notFound"
			case errors.Is(err, context.Canceled):
				res = "ctxErr"
			}
			c.sc.mu.Lock()
			a.finished, a.waiting, a.result = true, false, res
			c.sc.mu.Unlock()
			c.sc.note <- id
		}()
		c.sc.settle(id, 150*time.Millisecond)
		c.events = append(c.events, fmt.Sprintf("R%d", i))
		return true
	}
	if c.sc.grantTo(id) {
		c.events = append(c.events, fmt.Sprintf("R%d", i))
		return true
	}
	return false
}

func (c *concRun) cancelReader(i int) bool {
	id := c.readers[i]
	at, waiting, finished, _ := c.sc.state(id)
	if finished || waiting || at != "reader.parking" {
		return false
	}
	c.sc.actors[id].cancel()
	c.sc.settle(id, 150*time.Millisecond)
	c.events = append(c.events, fmt.Sprintf("C%d", i))
	return true
}

func concCase(prop string, r *rng, tier string) {
	ctx := context.Background()
	n := 12
	chain := vhdr.Chain("A", n, time.Now().Add(-time.Hour).UnixNano(), 1e9, 0)
	sc := newSched()
	store.VerifSetScheduler(sc.handler)
	defer store.VerifSetScheduler(nil)
	st, err := store.NewStore[*vhdr.Header](&memds.Plain{C: memds.NewCore()}, store.WithWriteBatchSize([]int{1, 2, 64}[r.intn(3)]))
	if err != nil {
		panic(err)
	}
	if err := func() error { sc, end := startCtx(); defer end(); return st.Start(sc) }(); err != nil {
		panic(err)
	}
	c := &concRun{sc: sc, st: st, chain: chain, mono: true, headOK: true}
	appendB := func(hs []uint64) {
		hh := make([]*vhdr.Header, len(hs))
		ss := make([]string, len(hs))
		for i, h := range hs {
			hh[i] = chain[h-1]
			ss[i] = utoa(h)
		}
		_ = st.Append(ctx, hh...)
		c.events = append(c.events, "A:"+strings.Join(ss, ","))
		sc.settle("F", 20*time.Millisecond) // the flusher picks it up and stops at flush.begin (if idle)
	}
	// random scenario
	top := uint64(0)
	steps := 25 + r.intn(50)
	for i := 0; i < steps; i++ {
		switch m := r.intn(100); {
		case m < 14 && top < uint64(n):
			var hs []uint64
			switch r.intn(4) {
			case 0: // gapped / out of order
				a := top + 1 + uint64(r.intn(3))
				if a <= uint64(n) {
					hs = append(hs, a)
				}
				if r.chance(1, 2) && a > 1 && a-1 <= uint64(n) {
					hs = append(hs, a-1)
				}
			default:
				for h := top + 1; h <= top+uint64(1+r.intn(3)) && h <= uint64(n); h++ {
					hs = append(hs, h)
				}
			}
			if len(hs) > 0 {
				appendB(hs)
				for _, h := range hs {
					if h > top {
						top = h
					}
				}
			}
		case m < 26 && len(c.readers) < 4:
			c.call(uint64(1 + r.intn(n)))
		case m < 62:
			c.stepFlusher()
		case m < 95 && len(c.readers) > 0:
			c.stepReader(r.intn(len(c.readers)))
		case len(c.readers) > 0:
			c.cancelReader(r.intn(len(c.readers)))
		}
	}
	// quiesce: flusher works off everything, readers run until they finish or park
	for k := 0; k < 400; k++ {
		if !c.stepFlusher() {
			sc.settle("F", 10*time.Millisecond)
			if _, w, _, _ := sc.state("F"); !w {
				break
			}
		}
	}
	for i := range c.readers {
		for k := 0; k < 10; k++ {
			if !c.stepReader(i) {
				break
			}
		}
	}
	// observation
	var rs []string
	for i, id := range c.readers {
		at, _, fin, res := sc.state(id)
		st := res
		if !fin {
			st = "parked"
			if at != "reader.parking" {
				st = "stuck@" + at
			}
		}
		rs = append(rs, fmt.Sprintf("%d:%s", sc.actors[c.readers[i]].height, st))
	}
	c.snapshot()
	var stored []int
	for h := 1; h <= n; h++ {
		if _, err := st.GetByHeight(cancelled, uint64(h)); err == nil {
			stored = append(stored, h)
		}
	}
	sort.Ints(stored)
	rss := strings.Join(rs, ",")
	if rss == "" {
		rss = "-"
	}
	emit("%s events=%s => readers=%s head=%d hs=%d stored=%s mono=%d headok=%d snaps=%d", prop, strings.Join(c.events, ";"), rss,
		c.lastHead, st.Height(), joinInts(stored), b2i(c.mono), b2i(c.headOK), c.nsnap)
	// clean up: release everybody
	store.VerifSetScheduler(nil)
	sc.mu.Lock()
	for _, a := range sc.actors {
		if a.cancel != nil {
			a.cancel()
		}
		if a.waiting {
			a.waiting = false
			go func(a *actor) { a.grant <- struct{}{} }(a)
		}
	}
	sc.mu.Unlock()
	c2, cancel := context.WithTimeout(ctx, time.Second)
	_ = st.Stop(c2)
	cancel()
}

// gatedCase: hook-free replay of the lost wake-up window (finding F11). The reader's first lookup of a
// NON-contiguous height is parked right after its (missing) datastore read; meanwhile the header is appended
// and synced (pending.Append + Notify have happened); then the reader continues: it must still get the header.
func gatedCase(prop string, target, head uint64, batch int) {
	gatedCaseOn(prop, "plain", "after", target, head, batch)
}

// flavour: plain | ctx (context-aware datastore whose read transactions are snapshots); where: the reader is parked
// "before" its first datastore read of the target's height key, or "after" it (holding a not-found answer)
func gatedCaseOn(prop, flavour, where string, target, head uint64, batch int) {
	ctx := context.Background()
	chain := vhdr.Chain("A", 12, time.Now().Add(-time.Hour).UnixNano(), 1e9, 0)
	core := memds.NewCore()
	var dsi ds.Batching = &memds.Plain{C: core}
	if flavour == "ctx" {
		dsi = contextds.WrapDatastore(&memds.Txn{Plain: memds.Plain{C: core}}).(ds.Batching)
	}
	st, err := store.NewStore[*vhdr.Header](dsi, store.WithWriteBatchSize(batch))
	if err != nil {
		panic(err)
	}
	if err := func() error { sc, end := startCtx(); defer end(); return st.Start(sc) }(); err != nil {
		panic(err)
	}
	defer st.Stop(ctx) //nolint:errcheck
	_ = st.Append(ctx, chain[:head]...)
	_ = st.Sync(ctx)
	parked, release := make(chan struct{}), make(chan struct{})
	var once sync.Once
	key := fmt.Sprintf("/headers/%d", target)
	if where == "before" {
		core.GetGate = func(k string) {
			if k == key {
				once.Do(func() { close(parked); <-release })
			}
		}
	} else {
		core.GetGateAfter = func(k string, found bool) {
			if k == key && !found {
				once.Do(func() { close(parked); <-release })
			}
		}
	}
	res := make(chan string, 1)
	go func() {
		c, cancel := context.WithTimeout(ctx, 400*time.Millisecond)
		defer cancel()
		h, err := st.GetByHeight(c, target)
		switch {
		case err == nil && h.H == target:
			res <- "found"
		case errors.Is(err, context.DeadlineExceeded):
			res <- "ctxErr"
		case errors.Is(err, header.ErrNotFound):
			res <- "notFound"
		default:
			res <- "err"
		}
	}()
	select {
	case <-parked:
	case <-time.After(time.Second):
	}
	if flavour == "ctx" && target > head+1 {
		// everything up to and beyond the target arrives and is flushed out of the pending batch while the reader is held
		_ = st.Append(ctx, chain[head:target+1]...)
	} else {
		_ = st.Append(ctx, chain[target-1])
	}
	_ = st.Sync(ctx)
	close(release)
	out := <-res
	core.GetGate, core.GetGateAfter = nil, nil
	emit("%s kind=gated flavour=%s where=%s target=%d head=%d batch=%d => result=%s", prop, flavour, where, target, head, batch, out)
}

// syncDrainCase: several Append batches are queued while the flusher is held at the start of the first;
// a Sync issued after all Appends returned must cover ALL of them ("every header whose Append has been
// followed by Sync is readable").
func syncDrainCase(prop string, nb int) {
	ctx := context.Background()
	chain := vhdr.Chain("A", 3*nb, time.Now().Add(-time.Hour).UnixNano(), 1e9, 0)
	release := make(chan struct{})
	var once sync.Once
	held := make(chan struct{})
	store.VerifSetScheduler(func(ctx context.Context, point string) {
		if point == "flush.begin" {
			first := false
			once.Do(func() { first = true; close(held); <-release })
			if !first {
				time.Sleep(3 * time.Millisecond) // a busy flush loop: later batches take a while
			}
		}
	})
	defer store.VerifSetScheduler(nil)
	st, err := store.NewStore[*vhdr.Header](&memds.Plain{C: memds.NewCore()}, store.WithWriteBatchSize(2))
	if err != nil {
		panic(err)
	}
	if err := func() error { sc, end := startCtx(); defer end(); return st.Start(sc) }(); err != nil {
		panic(err)
	}
	defer st.Stop(ctx) //nolint:errcheck
	for i := 0; i < nb; i++ {
		_ = st.Append(ctx, chain[3*i:3*i+3]...)
	}
	select {
	case <-held:
	case <-time.After(time.Second):
	}
	synced := make(chan error, 1)
	go func() { synced <- st.Sync(ctx) }()
	time.Sleep(5 * time.Millisecond)
	close(release)
	res := "ok"
	select {
	case err := <-synced:
		if err != nil {
			res = "err"
		}
	case <-time.After(3 * time.Second):
		res = "hang"
	}
	hd := uint64(0)
	if h, err := st.Head(ctx); err == nil {
		hd = h.H
	}
	readable := 0
	for h := 1; h <= 3*nb; h++ {
		if _, err := st.GetByHeight(cancelled, uint64(h)); err == nil {
			readable++
		}
	}
	emit("%s kind=syncdrain batches=%d => sync=%s head=%d readable=%d want=%d", prop, nb, res, hd, readable, 3*nb)
}

// a tail-side DeleteRange racing an Append at the head: the flush loop is parked in its look-up below the
// (old) tail while the deleter completes; afterwards the chain [Tail:Head] must be gap-free, with the tail the
// deleter set and the head the appender reached — the outcome of either sequential order.
// after=false parks the flush loop before the Get; after=true parks it holding the (stale) answer.
func tailRaceCase(prop string, t0, to, n int, after bool) {
	ctx := context.Background()
	chain := vhdr.Chain("A", n+1, time.Now().Add(-time.Hour).UnixNano(), 1e9, 0)
	core := memds.NewCore()
	st, err := store.NewStore[*vhdr.Header](&memds.Plain{C: core}, store.WithWriteBatchSize(8))
	if err != nil {
		panic(err)
	}
	if err := func() error { sc, end := startCtx(); defer end(); return st.Start(sc) }(); err != nil {
		panic(err)
	}
	defer st.Stop(ctx) //nolint:errcheck
	_ = st.Append(ctx, chain[t0-1:n]...)
	_ = st.Sync(ctx)
	below := "/" + itoa(t0-1)
	parked, release := make(chan struct{}), make(chan struct{})
	var fired, once sync.Once
	gate := func(key string) {
		if strings.HasSuffix(key, below) {
			fired.Do(func() { close(parked); <-release })
		}
	}
	mid := uint64((t0 + to) / 2)
	reached := "yes"
	st.OnDelete(func(ctx context.Context, h uint64) error {
		if h != mid {
			return nil
		}
		once.Do(func() {
			if after {
				core.GetGateAfter = func(k string, _ bool) { gate(k) }
			} else {
				core.GetGate = gate
			}
			_ = st.Append(ctx, chain[n])
			select {
			case <-parked:
			case <-time.After(2 * time.Second):
				reached = "no"
			}
		})
		return nil
	})
	dctx, cancel := context.WithTimeout(ctx, 5*time.Second)
	derr := st.DeleteRange(dctx, uint64(t0), uint64(to))
	cancel()
	close(release)
	sctx, cancel2 := context.WithTimeout(ctx, 3*time.Second)
	serr := st.Sync(sctx)
	cancel2()
	core.GetGate, core.GetGateAfter = nil, nil
	hd, tl := uint64(0), uint64(0)
	if h, err := st.Head(ctx); err == nil {
		hd = h.H
	}
	if h, err := st.Tail(ctx); err == nil {
		tl = h.H
	}
	var stored []string
	for h := 1; h <= n+1; h++ {
		if x, err := st.GetByHeight(cancelled, uint64(h)); err == nil && x.H == uint64(h) {
			if ok, _ := st.Has(ctx, x.Hash()); ok {
				stored = append(stored, itoa(h))
			}
		}
	}
	emit("%s kind=tailrace t0=%d to=%d n=%d after=%v => parked=%s delete=%s sync=%s head=%d tail=%d stored=%s", prop, t0, to, n, after,
		reached, errs(derr), errs(serr), hd, tl, strings.Join(stored, ","))
}

// headMonitor polls Head()/Height() from its own goroutine and remembers the first decrease it sees.
type headMonitor struct {
	stop    atomic.Bool
	done    chan struct{}
	regress atomic.Value
}

func watchHead(st *store.Store[*vhdr.Header]) *headMonitor {
	m := &headMonitor{done: make(chan struct{})}
	go func() {
		defer close(m.done)
		ctx := context.Background()
		var maxHead, maxHeight uint64
		for !m.stop.Load() {
			if h, err := st.Head(ctx); err == nil {
				if h.H < maxHead && m.regress.Load() == nil {
					m.regress.Store(fmt.Sprintf("Head:%d->%d", maxHead, h.H))
				}
				if h.H > maxHead {
					maxHead = h.H
				}
			}
			hh := st.Height()
			if hh < maxHeight && m.regress.Load() == nil {
				m.regress.Store(fmt.Sprintf("Height:%d->%d", maxHeight, hh))
			}
			if hh > maxHeight {
				maxHeight = hh
			}
		}
	}()
	return m
}

func (m *headMonitor) finish() string {
	m.stop.Store(true)
	<-m.done
	if v := m.regress.Load(); v != nil {
		return v.(string)
	}
	return "-"
}

// boundaryCase: a tail-side DeleteRange(1, n) right up to the head (the head becomes the tail as well) while
// appends race at the head. The deleter is parked at its first DIRECT datastore write after the deletes (if it
// makes one), appends n+1..n+k land, then it goes on. Head()/Height() never decrease, and the end state is the
// one of a sequential execution. pendingOnly: nothing was flushed before (big batch).
func boundaryCase(prop string, n, k int, pendingOnly bool, gateKey string) {
	ctx := context.Background()
	chain := vhdr.Chain("A", n+k, time.Now().Add(-time.Hour).UnixNano(), 1e9, 0)
	core := memds.NewCore()
	batch := 2
	if pendingOnly {
		batch = 64
	}
	st, err := store.NewStore[*vhdr.Header](&memds.Plain{C: core}, store.WithWriteBatchSize(batch))
	if err != nil {
		panic(err)
	}
	if err := func() error { sc, end := startCtx(); defer end(); return st.Start(sc) }(); err != nil {
		panic(err)
	}
	defer st.Stop(ctx) //nolint:errcheck
	_ = st.Append(ctx, chain[:n]...)
	_ = st.Sync(ctx)
	mon := watchHead(st)
	parked, release := make(chan struct{}), make(chan struct{})
	var fired sync.Once
	var deleting atomic.Bool
	core.WriteGate = func(w memds.Write) {
		// a direct (non-batch) write of a pointer key by the deleter, after it removed the headers
		if !deleting.Load() || w.Batch {
			return
		}
		for _, o := range w.Ops {
			// the head pointer (if the deleter rewrites it: between its read of Head and the publication); in a
			// second variant the tail pointer (before it reads Head)
			if o.Val != nil && strings.HasSuffix(o.Key, gateKey) {
				fired.Do(func() { close(parked); <-release })
			}
		}
	}
	derr := make(chan error, 1)
	deleting.Store(true)
	go func() {
		c, cancel := context.WithTimeout(ctx, 5*time.Second)
		defer cancel()
		derr <- st.DeleteRange(c, 1, uint64(n))
	}()
	was := "no"
	var de error
	finished := false
	select {
	case <-parked:
		was = "yes"
	case de = <-derr:
		finished = true
	case <-time.After(3 * time.Second):
	}
	deleting.Store(false)
	// racing appends at the head
	_ = st.Append(ctx, chain[n:]...)
	sctx, cancel := context.WithTimeout(ctx, 2*time.Second)
	_ = st.Sync(sctx)
	cancel()
	midHead := uint64(0)
	if h, err := st.Head(ctx); err == nil {
		midHead = h.H
	}
	close(release)
	if !finished {
		select {
		case de = <-derr:
		case <-time.After(5 * time.Second):
			de = errors.New("hang")
		}
	}
	core.WriteGate = nil
	time.Sleep(2 * time.Millisecond)
	hd, tl := uint64(0), uint64(0)
	if h, err := st.Head(ctx); err == nil {
		hd = h.H
	}
	if h, err := st.Tail(ctx); err == nil {
		tl = h.H
	}
	reg := mon.finish()
	var stored []string
	for h := 1; h <= n+k; h++ {
		if x, err := st.GetByHeight(cancelled, uint64(h)); err == nil && x.H == uint64(h) {
			stored = append(stored, itoa(h))
		}
	}
	emit("%s kind=boundary n=%d k=%d pendingonly=%v gate=%s => parked=%s delete=%s midhead=%d head=%d tail=%d regress=%s stored=%s", prop, n, k, pendingOnly, gateKey,
		was, errs(de), midHead, hd, tl, reg, strings.Join(stored, ","))
}

// wipeRaceCase: a DeleteRange over the WHOLE chain [1, n+1) racing appends of n+1 .. n+more at the head (issued, and synced,
// while the deletion is under way). Whatever the order, a sequential execution ends with exactly n+1 .. n+more.
func wipeRaceCase(prop string, n, more, batch int) {
	ctx := context.Background()
	chain := vhdr.Chain("A", n+more, time.Now().Add(-time.Hour).UnixNano(), 1e9, 0)
	core := memds.NewCore()
	st, err := store.NewStore[*vhdr.Header](&memds.Plain{C: core}, store.WithWriteBatchSize(batch))
	if err != nil {
		panic(err)
	}
	if err := func() error { sc, end := startCtx(); defer end(); return st.Start(sc) }(); err != nil {
		panic(err)
	}
	defer st.Stop(ctx) //nolint:errcheck
	_ = st.Append(ctx, chain[:n]...)
	_ = st.Sync(ctx)
	mon := watchHead(st)
	var once sync.Once
	st.OnDelete(func(ctx context.Context, h uint64) error {
		if h == uint64(n/2) {
			once.Do(func() {
				_ = st.Append(ctx, chain[n:]...)
				c, cancel := context.WithTimeout(context.Background(), 2*time.Second)
				_ = st.Sync(c)
				cancel()
			})
		}
		return nil
	})
	c, cancel := context.WithTimeout(ctx, 5*time.Second)
	de := st.DeleteRange(c, 1, uint64(n+1))
	cancel()
	_ = st.Sync(ctx)
	hd, tl := uint64(0), uint64(0)
	if h, err := st.Head(ctx); err == nil {
		hd = h.H
	}
	if h, err := st.Tail(ctx); err == nil {
		tl = h.H
	}
	reg := mon.finish()
	var stored []string
	for h := 1; h <= n+more; h++ {
		if x, err := st.GetByHeight(cancelled, uint64(h)); err == nil && x.H == uint64(h) {
			stored = append(stored, itoa(h))
		}
	}
	emit("%s kind=boundary n=%d k=%d pendingonly=false gate=wholechain => parked=- delete=%s midhead=0 head=%d tail=%d regress=%s stored=%s", prop, n+1, more-1,
		errs(de), hd, tl, reg, strings.Join(stored, ","))
}

// tornCase: DeleteRange(1,to) over headers that are still only pending; the deleter's look-up of the new tail is
// parked holding its datastore answer while appends fill the batch and the flush loop commits and resets pending.
func tornCase(prop string, n, to, more, batch int) {
	ctx := context.Background()
	chain := vhdr.Chain("A", n+more, time.Now().Add(-time.Hour).UnixNano(), 1e9, 0)
	core := memds.NewCore()
	st, err := store.NewStore[*vhdr.Header](&memds.Plain{C: core}, store.WithWriteBatchSize(batch))
	if err != nil {
		panic(err)
	}
	if err := func() error { sc, end := startCtx(); defer end(); return st.Start(sc) }(); err != nil {
		panic(err)
	}
	defer st.Stop(ctx) //nolint:errcheck
	_ = st.Append(ctx, chain[:n]...)
	_ = st.Sync(ctx)
	parked, release := make(chan struct{}), make(chan struct{})
	var fired sync.Once
	key := "/" + itoa(to)
	core.GetGateAfter = func(k string, _ bool) {
		if strings.HasSuffix(k, key) {
			fired.Do(func() { close(parked); <-release })
		}
	}
	derr := make(chan error, 1)
	go func() {
		c, cancel := context.WithTimeout(ctx, 5*time.Second)
		defer cancel()
		derr <- st.DeleteRange(c, 1, uint64(to))
	}()
	was := "no"
	var de error
	finished := false
	select {
	case <-parked:
		was = "yes"
	case de = <-derr:
		finished = true
	case <-time.After(3 * time.Second):
	}
	_ = st.Append(ctx, chain[n:]...)
	sctx, cancel := context.WithTimeout(ctx, 2*time.Second)
	_ = st.Sync(sctx)
	cancel()
	close(release)
	if !finished {
		select {
		case de = <-derr:
		case <-time.After(5 * time.Second):
			de = errors.New("hang")
		}
	}
	core.GetGateAfter = nil
	hd, tl := uint64(0), uint64(0)
	if h, err := st.Head(ctx); err == nil {
		hd = h.H
	}
	if h, err := st.Tail(ctx); err == nil {
		tl = h.H
	}
	var stored []string
	for h := 1; h <= n+more; h++ {
		if x, err := st.GetByHeight(cancelled, uint64(h)); err == nil && x.H == uint64(h) {
			stored = append(stored, itoa(h))
		}
	}
	emit("%s kind=torn n=%d to=%d more=%d batch=%d => parked=%s delete=%s head=%d tail=%d stored=%s", prop, n, to, more, batch,
		was, errs(de), hd, tl, strings.Join(stored, ","))
}

func errs(err error) string {
	if err != nil {
		return "err"
	}
	return "ok"
}

func runConc(prop, tier string, r *rng) {
	if prop == "C17" {
		for _, c := range [][3]int{{1, 10, 20}, {1, 3, 8}, {4, 12, 15}, {2, 7, 7}} {
			tailRaceCase(prop, c[0], c[1], c[2], false)
			tailRaceCase(prop, c[0], c[1], c[2], true)
		}
		for _, pend := range []bool{true, false} {
			boundaryCase(prop, 6, 3, pend, "/head")
			boundaryCase(prop, 6, 3, pend, "/tail")
			boundaryCase(prop, 9, 1, pend, "/head")
		}
		wipeRaceCase(prop, 10, 5, 2)
		wipeRaceCase(prop, 6, 3, 64)
		tornCase(prop, 6, 4, 5, 8)
		tornCase(prop, 5, 3, 6, 8)
		tornCase(prop, 10, 7, 3, 12)
		for _, nb := range []int{2, 3, 5, 9} {
			syncDrainCase(prop, nb)
		}
		for _, fault := range []bool{false, true} {
			resumeWalkCase(prop, fault)
		}
	}
	if prop == "C17" {
		for _, cache := range []int{2, 512} {
			stalledReaderCase(prop, 12, 6, cache)
			stalledReaderCase(prop, 10, 9, cache)
		}
	}
	if prop == "C12" {
		slowLookupCase(prop)
		for _, b := range []int{1, 2, 64} {
			gatedCase(prop, 9, 5, b) // not contiguous with Head
			gatedCase(prop, 6, 5, b) // contiguous
			for _, wipe := range []bool{false, true} {
				emptyWaitCase(prop, wipe, 8, b)
				emptyWaitCase(prop, wipe, 1, b)
			}
			for _, where := range []string{"before", "after"} {
				gatedCaseOn(prop, "ctx", where, 9, 5, b)
				gatedCaseOn(prop, "ctx", where, 6, 5, b)
				gatedCaseOn(prop, "ctx", where, 3, 1, b)
				gatedCaseOn(prop, "plain", where, 3, 1, b)
			}
		}
	}
	if os.Getenv("VERIF_NO_HOOKS") != "" {
		return
	}
	k := 120
	if tier == "thorough" {
		k = 3000
	}
	for i := 0; i < k; i++ {
		done := make(chan struct{})
		go func() { concCase(prop, r, tier); close(done) }()
		select {
		case <-done:
		case <-time.After(20 * time.Second):
			// a wedged schedule (an actor neither yields, parks nor finishes): report and stop
			emit("%s events=wedged => readers=0:stuck@wedged head=0 hs=0 stored=- mono=1 headok=1 snaps=0", prop)
			out.Flush()
			os.Exit(0)
		}
	}
}

// resumeWalkCase: writers append chunks out of order (1..3, then 7..10, then 4..6, then 11..12), each followed by Sync; the
// upper chunk is on disk and out of the pending batch when the lower one arrives. With fault=true exactly one datastore read
// of the height index fails (transiently) while Head is walked forward into the flushed chunk. After all writers have
// finished, Head is the top of the chain either way.
func resumeWalkCase(prop string, fault bool) {
	ctx := context.Background()
	chain := vhdr.Chain("A", 12, time.Now().Add(-time.Hour).UnixNano(), 1e9, 0)
	core := memds.NewCore()
	st, err := store.NewStore[*vhdr.Header](&memds.Plain{C: core}, store.WithWriteBatchSize(2), store.WithStoreCacheSize(2), store.WithIndexCacheSize(2))
	if err != nil {
		panic(err)
	}
	if err := func() error { sc, end := startCtx(); defer end(); return st.Start(sc) }(); err != nil {
		panic(err)
	}
	defer st.Stop(ctx) //nolint:errcheck
	mon := watchHead(st)
	_ = st.Append(ctx, chain[0:3]...)
	_ = st.Sync(ctx)
	_ = st.Append(ctx, chain[6:10]...)
	_ = st.Sync(ctx)
	if fault {
		var once sync.Once
		core.GetFault = func(k string) (f bool) {
			if k == "/headers/7" {
				once.Do(func() { f = true })
			}
			return f
		}
	}
	_ = st.Append(ctx, chain[3:6]...)
	_ = st.Sync(ctx)
	mid := st.Height()
	_ = st.Append(ctx, chain[10:12]...)
	_ = st.Sync(ctx)
	core.GetFault = nil
	hd := st.Height()
	readable := 0
	for h := 1; h <= 12; h++ {
		if x, err := st.GetByHeight(cancelled, uint64(h)); err == nil && x.H == uint64(h) {
			readable++
		}
	}
	emit("%s kind=resumewalk fault=%d => mid=%d head=%d readable=%d monitor=%s", prop, b2i(fault), mid, hd, readable, mon.finish())
}

// emptyWaitCase: a reader is parked on height `target` while the store has NO head - a fresh store over an empty datastore,
// or (wipe) a store emptied by a whole-chain DeleteRange while the reader was already waiting. The first header appended
// afterwards is exactly the awaited one: the reader gets it.
func emptyWaitCase(prop string, wipe bool, target uint64, batch int) {
	ctx := context.Background()
	chain := vhdr.Chain("A", 12, time.Now().Add(-time.Hour).UnixNano(), 1e9, 0)
	core := memds.NewCore()
	st, err := store.NewStore[*vhdr.Header](&memds.Plain{C: core}, store.WithWriteBatchSize(batch))
	if err != nil {
		panic(err)
	}
	if err := func() error { sc, end := startCtx(); defer end(); return st.Start(sc) }(); err != nil {
		panic(err)
	}
	defer st.Stop(ctx) //nolint:errcheck
	if wipe {
		if target <= 5 {
			target = 9
		}
		_ = st.Append(ctx, chain[:5]...)
		_ = st.Sync(ctx)
	}
	res := make(chan string, 1)
	go func() {
		c, cancel := context.WithTimeout(ctx, 1200*time.Millisecond)
		defer cancel()
		h, err := st.GetByHeight(c, target)
		switch {
		case err == nil && h.H == target:
			res <- "found"
		case errors.Is(err, context.DeadlineExceeded):
			res <- "ctxErr"
		case errors.Is(err, header.ErrNotFound):
			res <- "notFound"
		default:
			res <- "err"
		}
	}()
	time.Sleep(40 * time.Millisecond) // the reader is parked by now
	del := "-"
	if wipe {
		c, cancel := context.WithTimeout(ctx, 2*time.Second)
		del = errs(st.DeleteRange(c, 1, 6))
		cancel()
	}
	_ = st.Append(ctx, chain[target-1])
	_ = st.Sync(ctx)
	out := <-res
	emit("%s kind=gated flavour=plain where=%s target=%d head=0 batch=%d => result=%s wipe=%s", prop, map[bool]string{true: "parked-then-wiped", false: "empty-store"}[wipe], target, batch, out, del)
}

// slowLookupCase: readers B and C are parked on two future heights; reader A asks for a third future height and its
// SECOND datastore lookup (the re-check made once it is registered) is stuck in the datastore. B's context is cancelled:
// B returns; C's header is appended (not adjacent to the head): C returns it. Neither depends on A's lookup.
func slowLookupCase(prop string) {
	ctx := context.Background()
	chain := vhdr.Chain("A", 12, time.Now().Add(-time.Hour).UnixNano(), 1e9, 0)
	core := memds.NewCore()
	st, err := store.NewStore[*vhdr.Header](&memds.Plain{C: core}, store.WithWriteBatchSize(4))
	if err != nil {
		panic(err)
	}
	if err := func() error { sc, end := startCtx(); defer end(); return st.Start(sc) }(); err != nil {
		panic(err)
	}
	defer bounded(func() { st.Stop(ctx) }) //nolint:errcheck
	_ = st.Append(ctx, chain[:3]...)
	_ = st.Sync(ctx)
	read := func(c context.Context, h uint64, out chan string) {
		hd, err := st.GetByHeight(c, h)
		switch {
		case err == nil && hd.H == h:
			out <- "found"
		case errors.Is(err, context.Canceled), errors.Is(err, context.DeadlineExceeded):
			out <- "cancelled"
		default:
			out <- "err"
		}
	}
	ctxB, cancelB := context.WithCancel(ctx)
	resB, resC, resA := make(chan string, 1), make(chan string, 1), make(chan string, 1)
	go read(ctxB, 6, resB)
	ctxC, cancelC := context.WithTimeout(ctx, 6*time.Second)
	defer cancelC()
	go read(ctxC, 7, resC)
	time.Sleep(100 * time.Millisecond) // B and C are parked
	parked, release := make(chan struct{}), make(chan struct{})
	var n atomic.Int32
	var once sync.Once
	core.GetGate = func(k string) {
		if k == "/headers/10" && n.Add(1) == 2 {
			once.Do(func() { close(parked); <-release })
		}
	}
	ctxA, cancelA := context.WithTimeout(ctx, 5*time.Second)
	defer cancelA()
	go read(ctxA, 10, resA)
	pa := "yes"
	select {
	case <-parked:
	case <-time.After(2 * time.Second):
		pa = "no"
	}
	within := func(ch chan string) string {
		select {
		case r := <-ch:
			return r
		case <-time.After(1500 * time.Millisecond):
			return "stuck"
		}
	}
	cancelB()
	b := within(resB)
	_ = st.Append(ctx, chain[6])
	c := within(resC)
	close(release)
	core.GetGate = nil
	emit("%s kind=slowlookup => parkedA=%s b=%s c=%s", prop, pa, b, c)
}

// stalledReaderCase: a reader of height to-1 is stalled inside the Store right after its datastore read of the header;
// DeleteRange(1, to) runs to completion meanwhile; the reader goes on; a writer appends at the head. The tail stays at
// `to` and nothing below it is served any more.
func stalledReaderCase(prop string, n, to, cache int) {
	ctx := context.Background()
	chain := vhdr.Chain("A", n+2, time.Now().Add(-time.Hour).UnixNano(), 1e9, 0)
	core := memds.NewCore()
	st, err := store.NewStore[*vhdr.Header](&memds.Plain{C: core}, store.WithWriteBatchSize(1),
		store.WithStoreCacheSize(cache), store.WithIndexCacheSize(cache))
	if err != nil {
		panic(err)
	}
	if err := func() error { sc, end := startCtx(); defer end(); return st.Start(sc) }(); err != nil {
		panic(err)
	}
	defer bounded(func() { st.Stop(ctx) }) //nolint:errcheck
	_ = st.Append(ctx, chain[:n]...)
	_ = st.Sync(ctx)
	// a fresh Store object over the same datastore: nothing is cached, the reader has to go to the datastore
	_ = st.Stop(ctx)
	st, err = store.NewStore[*vhdr.Header](&memds.Plain{C: core}, store.WithWriteBatchSize(1),
		store.WithStoreCacheSize(cache), store.WithIndexCacheSize(cache))
	if err != nil {
		panic(err)
	}
	if err := func() error { sc, end := startCtx(); defer end(); return st.Start(sc) }(); err != nil {
		panic(err)
	}
	heightKey := "/headers/" + itoa(to-1)
	parked, release := make(chan struct{}), make(chan struct{})
	var once sync.Once
	var sawIndex atomic.Bool
	core.GetGateAfter = func(k string, found bool) {
		if k == heightKey && found {
			sawIndex.Store(true)
			return
		}
		// the next datastore read of this reader is the header itself
		if sawIndex.Load() && found && k != heightKey {
			once.Do(func() { close(parked); <-release })
		}
	}
	res := make(chan string, 1)
	go func() {
		c, cancel := context.WithTimeout(ctx, 5*time.Second)
		defer cancel()
		if h, err := st.GetByHeight(c, uint64(to-1)); err == nil && h != nil && h.H == uint64(to-1) {
			res <- "found"
		} else {
			res <- "err"
		}
	}()
	pk := "yes"
	select {
	case <-parked:
	case <-time.After(2 * time.Second):
		pk = "no"
	}
	core.GetGateAfter = nil
	del := "ok"
	dctx, cancelD := context.WithTimeout(ctx, 5*time.Second)
	if err := st.DeleteRange(dctx, 1, uint64(to)); err != nil {
		del = "err"
	}
	cancelD()
	close(release)
	rd := "hang"
	select {
	case rd = <-res:
	case <-time.After(3 * time.Second):
	}
	_ = st.Append(ctx, chain[n])
	_ = st.Sync(ctx)
	_ = st.Append(ctx, chain[n+1])
	_ = st.Sync(ctx)
	tl := uint64(0)
	if t, err := st.Tail(ctx); err == nil && t != nil {
		tl = t.H
	}
	below := "absent"
	if h, err := st.GetByHeight(cancelled, uint64(to-1)); err == nil && h != nil {
		below = "served"
	}
	hd := uint64(0)
	if h, err := st.Head(ctx); err == nil && h != nil {
		hd = h.H
	}
	emit("%s kind=stalledreader n=%d to=%d cache=%d => parked=%s delete=%s reader=%s head=%d tail=%d below=%s", prop, n, to, cache, pk, del, rd, hd, tl, below)
	bounded(func() { st.Stop(ctx) })
}
