package main

import (
	"context"
	"errors"
	"fmt"
	"github.com/libp2p/go-libp2p/core/host"
	"strings"
	"sync"
	"time"

	header "github.com/celestiaorg/go-header"
	"github.com/celestiaorg/go-header/p2p"
	p2p_pb "github.com/celestiaorg/go-header/p2p/pb"
	"github.com/celestiaorg/go-header/store"

	"verifharness/memds"
	"verifharness/peers"
	"verifharness/vhdr"
)

func init() { cmds["C10"] = runC10 }

// a real pruned store: heights tail..head of an n-chain
func prunedStore(n, tail int) (*store.Store[*vhdr.Header], []*vhdr.Header) {
	return prunedStoreOf(n, n, tail)
}

// prunedStoreOf builds a chain of `total` headers and a store holding tail..n of it.
func prunedStoreOf(total, n, tail int) (*store.Store[*vhdr.Header], []*vhdr.Header) {
	chain := vhdr.Chain("A", total, time.Now().Add(-time.Hour).UnixNano(), 1e9, 0)
	st, err := store.NewStore[*vhdr.Header](&memds.Plain{C: memds.NewCore()}, store.WithWriteBatchSize(16))
	if err != nil {
		panic(err)
	}
	ctx := context.Background()
	if err := func() error { sc, end := startCtx(); defer end(); return st.Start(sc) }(); err != nil {
		panic(err)
	}
	if n > 0 {
		if err := st.Append(ctx, chain[:n]...); err != nil {
			panic(err)
		}
		if err := st.Sync(ctx); err != nil {
			panic(err)
		}
		if tail > 1 {
			if err := st.DeleteRange(ctx, 1, uint64(tail)); err != nil {
				panic(err)
			}
		}
	}
	return st, chain
}

func runC10(tier string, r *rng) {
	// first of all: a server that stops answering after a number of malformed requests would make every later case of this
	// run wait for its time-outs; the case is reported and the run ends there
	if !c10Dataless(40) {
		return
	}
	type cfg struct{ n, tail int }
	cfgs := []cfg{{300, 50}, {80, 1}, {70, 69}, {5, 3}, {0, 0}}
	if tier == "thorough" {
		cfgs = append(cfgs, cfg{200, 120}, cfg{64, 2}, cfg{65, 1}, cfg{1, 1})
	}
	for _, c := range cfgs {
		c10Store(c.n, c.tail, tier, r)
	}
	// the same server with its metrics switched on (a configuration, not another behaviour)
	c10LatePrune = true
	c10Store(80, 30, tier, r)
	c10Store(40, 39, tier, r)
	c10LatePrune = false
	c10Metrics = true
	c10Store(70, 69, tier, r)
	c10Store(5, 3, tier, r)
	c10Metrics = false
	// a peer that opens a stream and never completes its request, on a transport that honours deadlines: the server gives up
	// after the read deadline it was CONFIGURED with, however that configuration was expressed
	for _, how := range []string{"option", "params"} {
		for _, sent := range [][]byte{nil, {0x0a, 0x08, 0x80}} {
			c10Stall(how, sent, 250*time.Millisecond)
		}
	}
	// a store whose reads stall (a hung disk) but honour their context: every kind of request is bounded by the server's
	// request timeout when it comes in through the real stream handler
	c10Stalled()
	c10SlowStore(6)
	c10SlowStore(1)
	for _, m := range [][5]uint64{{30, 10, 100, 30, 3}, {30, 10, 100, 28, 5}, {30, 10, 1, 30, 2}, {30, 1, 100, 31, 4}, {30, 10, 40, 5, 64}, {30, 10, 100, 25, 64}} {
		c10Moving(int(m[0]), int(m[1]), int(m[2]), m[3], m[4])
	}
}

// the store's head advances between the server's HasAt check and its Head() read: the reply must still be
// bounded by the request and exact
func c10Moving(n, tail, grow int, origin, amount uint64) {
	ctx := context.Background()
	mn, hosts, err := peers.NewNet(2)
	if err != nil {
		panic(err)
	}
	defer mn.Close()
	st, chain := prunedStoreOf(n+grow, n, tail)
	defer st.Stop(ctx) //nolint:errcheck
	rec := &peers.Recorder{Store: st}
	var once sync.Once
	rec.OnHasAt = func(uint64) {
		once.Do(func() {
			_ = st.Append(ctx, chain[n:]...)
			_ = st.Sync(ctx)
		})
	}
	srv, err := p2p.NewExchangeServer[*vhdr.Header](hosts[1], rec,
		p2p.WithNetworkID[p2p.ServerParameters](peers.NetworkID),
		p2p.WithRequestTimeout[p2p.ServerParameters](400*time.Millisecond))
	if err != nil {
		panic(err)
	}
	if err := func() error { sc, end := startCtx(); defer end(); return srv.Start(sc) }(); err != nil {
		panic(err)
	}
	defer srv.Stop(ctx) //nolint:errcheck
	rec.Take()
	t0 := time.Now()
	frame := peers.Frame(&p2p_pb.HeaderRequest{Data: &p2p_pb.HeaderRequest_Origin{Origin: origin}, Amount: amount})
	resps, end := peers.RawRequest(ctx, hosts[0], hosts[1].ID(), frame, 3*time.Second)
	took := time.Since(t0)
	_, reads := rec.Take()
	var parts []string
	for _, rp := range resps {
		switch {
		case rp.Status == int32(p2p_pb.StatusCode_NOT_FOUND):
			parts = append(parts, "NF")
		case rp.Status == int32(p2p_pb.StatusCode_OK) && rp.BodyOK && int(rp.H) >= 1 && int(rp.H) <= len(chain) && chain[rp.H-1].Hash().String() == rp.Hash:
			parts = append(parts, utoa(rp.H))
		default:
			parts = append(parts, fmt.Sprintf("BAD(%d)", rp.Status))
		}
	}
	reply := strings.Join(parts, ",")
	if reply == "" {
		reply = "-"
	}
	slow := 0
	if took > 2*time.Second {
		slow = 1
	}
	emit("C10 kind=moving tail=%d head=%d head0=%d origin=%d amount=%d => end=%s reply=%s reads=%d slow=%d calls=-",
		tail, n+grow, n, origin, amount, end, reply, reads, slow)
}

var c10Metrics bool // the next c10Store builds its server WithMetrics

// c10LatePrune: the next c10Store first SERVES the whole chain (every header is read through the store's caches),
// and only then prunes [1, tail): what was pruned must be gone for the server, whatever is still cached.
var c10LatePrune bool

func c10Store(n, tail int, tier string, r *rng) {
	ctx := context.Background()
	mn, hosts, err := peers.NewNet(2)
	if err != nil {
		panic(err)
	}
	defer mn.Close()
	buildTail := tail
	if c10LatePrune {
		buildTail = 1
	}
	st, chain := prunedStore(n, buildTail)
	defer st.Stop(ctx) //nolint:errcheck
	rec := &peers.Recorder{Store: st}
	sopts := []p2p.Option[p2p.ServerParameters]{p2p.WithNetworkID[p2p.ServerParameters](peers.NetworkID),
		p2p.WithRequestTimeout[p2p.ServerParameters](400 * time.Millisecond)}
	if c10Metrics {
		sopts = append(sopts, p2p.WithMetrics[p2p.ServerParameters]())
	}
	srv, err := p2p.NewExchangeServer[*vhdr.Header](hosts[1], rec, sopts...)
	if err != nil {
		panic(err)
	}
	if err := func() error { sc, end := startCtx(); defer end(); return srv.Start(sc) }(); err != nil {
		panic(err)
	}
	defer srv.Stop(ctx) //nolint:errcheck

	if c10LatePrune && n > 0 {
		for o := 1; o <= n; o += 50 {
			_, _ = peers.RawRequest(ctx, hosts[0], hosts[1].ID(), peers.Frame(&p2p_pb.HeaderRequest{Data: &p2p_pb.HeaderRequest_Origin{Origin: uint64(o)}, Amount: 50}), 3*time.Second)
		}
		for _, hh := range []int{1, tail - 1, tail, n} {
			if hh >= 1 && hh <= n {
				_, _ = peers.RawRequest(ctx, hosts[0], hosts[1].ID(), peers.Frame(&p2p_pb.HeaderRequest{Data: &p2p_pb.HeaderRequest_Hash{Hash: chain[hh-1].Hash()}, Amount: 1}), 3*time.Second)
			}
		}
		if tail > 1 {
			if err := st.DeleteRange(ctx, 1, uint64(tail)); err != nil {
				panic(err)
			}
		}
		rec.Take()
	}
	one := func(kind string, frame []byte, origin, amount uint64) {
		rec.Take()
		t0 := time.Now()
		resps, end := peers.RawRequest(ctx, hosts[0], hosts[1].ID(), frame, 3*time.Second)
		took := time.Since(t0)
		calls, reads := rec.Take()
		// render the reply
		var parts []string
		for _, rp := range resps {
			switch {
			case rp.Status == int32(p2p_pb.StatusCode_NOT_FOUND):
				parts = append(parts, "NF")
			case rp.Status == int32(p2p_pb.StatusCode_OK) && rp.BodyOK && int(rp.H) >= 1 && int(rp.H) <= len(chain) && chain[rp.H-1].Hash().String() == rp.Hash:
				parts = append(parts, utoa(rp.H))
			default:
				parts = append(parts, fmt.Sprintf("BAD(%d)", rp.Status))
			}
		}
		reply := strings.Join(parts, ",")
		if reply == "" {
			reply = "-"
		}
		slow := 0
		if took > 2*time.Second {
			slow = 1
		}
		cs := strings.Join(calls, ",")
		if cs == "" {
			cs = "-"
		}
		emit("C10 kind=%s tail=%d head=%d origin=%d amount=%d => end=%s reply=%s reads=%d slow=%d calls=%s",
			kind, tail, n, origin, amount, end, reply, reads, slow, cs)
	}
	rangeReq := func(origin, amount uint64) {
		one("range", peers.Frame(&p2p_pb.HeaderRequest{Data: &p2p_pb.HeaderRequest_Origin{Origin: origin}, Amount: amount}), origin, amount)
	}
	t, h := uint64(tail), uint64(n)
	max := ^uint64(0)
	origins := []uint64{0, 1, 2, t - 1, t, t + 1, h - 64, h - 63, h - 1, h, h + 1, h + 2, 10, max - 1, max, 1 << 63}
	amounts := []uint64{0, 1, 2, 3, 63, 64, 65, 66, 1000, max, max - 1, 1 << 63}
	seen := map[[2]uint64]bool{}
	for _, o := range origins {
		for _, a := range amounts {
			if !seen[[2]uint64{o, a}] {
				seen[[2]uint64{o, a}] = true
				rangeReq(o, a)
			}
		}
	}
	k := 150
	if tier == "thorough" {
		k = 1500
	}
	for i := 0; i < k; i++ {
		o := uint64(r.intn(n + 70))
		a := uint64(r.intn(70))
		if r.chance(1, 10) {
			o = max - uint64(r.intn(70))
		}
		if r.chance(1, 10) {
			a = max - uint64(r.intn(70))
		}
		rangeReq(o, a)
	}
	// hash requests: existing, pruned, unknown
	if n > 0 {
		for _, hh := range []int{tail, n, (tail + n) / 2, 1} {
			kind := "hash"
			if hh < tail {
				kind = "hashPruned"
			}
			hdr := chain[hh-1]
			one(kind, peers.Frame(&p2p_pb.HeaderRequest{Data: &p2p_pb.HeaderRequest_Hash{Hash: hdr.Hash()}, Amount: 1}), uint64(hh), 1)
		}
	}
	one("hashUnknown", peers.Frame(&p2p_pb.HeaderRequest{Data: &p2p_pb.HeaderRequest_Hash{Hash: []byte("nope")}, Amount: 1}), 0, 1)
	// malformed-but-decodable requests: no oneof at all, empty / nil hash
	for _, am := range []uint64{0, 1, 5} {
		one("noData", peers.Frame(&p2p_pb.HeaderRequest{Amount: am}), 0, am)
		one("hashEmpty", peers.Frame(&p2p_pb.HeaderRequest{Data: &p2p_pb.HeaderRequest_Hash{Hash: []byte{}}, Amount: am}), 0, am)
		one("hashEmpty", peers.Frame(&p2p_pb.HeaderRequest{Data: &p2p_pb.HeaderRequest_Hash{Hash: nil}, Amount: am}), 0, am)
	}
	// arbitrary request bytes
	for i, b := range [][]byte{{}, {0x00}, {0xff, 0xff, 0xff, 0xff, 0x0f}, {0x03, 0x08, 0x01}, []byte("garbage-garbage-garbage"), {0x02, 0x18, 0x01}} {
		one(fmt.Sprintf("raw%d", i), b, 0, 0)
	}
	for i := 0; i < 20; i++ {
		b := make([]byte, 1+r.intn(24))
		for j := range b {
			b[j] = byte(r.next())
		}
		one("rawRand", b, 0, 0)
	}
}

// c10Stall: real loopback transport; the server is configured with read deadline d (through the functional option or through
// WithParams); the client opens a stream, writes `sent` (nothing, or a truncated request) and waits for the server to end it.
func c10Stall(how string, sent []byte, d time.Duration) {
	ctx := context.Background()
	hosts, closeAll, err := peers.NewRealHosts(2)
	if err != nil {
		emit("C10 kind=stall how=%s sent=%d deadline=%d => end=unavailable bucket=ok", how, len(sent), d.Milliseconds())
		return
	}
	defer closeAll()
	st, _ := prunedStore(30, 11)
	defer st.Stop(ctx) //nolint:errcheck
	sopts := []p2p.Option[p2p.ServerParameters]{p2p.WithNetworkID[p2p.ServerParameters](peers.NetworkID)}
	if how == "option" {
		sopts = append(sopts, p2p.WithReadDeadline[p2p.ServerParameters](d))
	} else {
		prm := p2p.DefaultServerParameters()
		prm.ReadDeadline = d
		sopts = append([]p2p.Option[p2p.ServerParameters]{p2p.WithParams(prm)}, sopts...)
	}
	srv, err := p2p.NewExchangeServer[*vhdr.Header](hosts[1], st, sopts...)
	if err != nil {
		panic(err)
	}
	if err := func() error { sc, end := startCtx(); defer end(); return srv.Start(sc) }(); err != nil {
		panic(err)
	}
	defer srv.Stop(ctx) //nolint:errcheck
	sctx, cancel := context.WithTimeout(ctx, 5*time.Second)
	defer cancel()
	s, err := hosts[0].NewStream(sctx, hosts[1].ID(), peers.ProtocolID())
	if err != nil {
		emit("C10 kind=stall how=%s sent=%d deadline=%d => end=nostream bucket=ok", how, len(sent), d.Milliseconds())
		return
	}
	if len(sent) > 0 {
		_, _ = s.Write(sent)
	}
	t0 := time.Now()
	_ = s.SetReadDeadline(t0.Add(4 * time.Second))
	buf := make([]byte, 16)
	_, rerr := s.Read(buf)
	took := time.Since(t0)
	_ = s.Reset()
	end := "eof"
	if rerr != nil && rerr.Error() != "EOF" {
		end = "reset"
	}
	bucket := "ok"
	switch {
	case took > 3*time.Second:
		bucket, end = "late", "timeout"
	case took < d/2:
		bucket = "early"
	}
	emit("C10 kind=stall how=%s sent=%d deadline=%d => end=%s bucket=%s", how, len(sent), d.Milliseconds(), end, bucket)
}

// stalledStore: every read blocks until its context ends.
type stalledStore struct {
	header.Store[*vhdr.Header]
}

func stall[T any](ctx context.Context) (T, error) {
	var zero T
	select {
	case <-ctx.Done():
		return zero, ctx.Err()
	case <-time.After(6 * time.Second):
		return zero, errors.New("stalled store: gave up")
	}
}

func (s stalledStore) Get(ctx context.Context, _ header.Hash) (*vhdr.Header, error) {
	return stall[*vhdr.Header](ctx)
}

func (s stalledStore) GetByHeight(ctx context.Context, _ uint64) (*vhdr.Header, error) {
	return stall[*vhdr.Header](ctx)
}

func (s stalledStore) GetRange(ctx context.Context, _, _ uint64) ([]*vhdr.Header, error) {
	return stall[[]*vhdr.Header](ctx)
}

func (s stalledStore) GetRangeByHeight(ctx context.Context, _ *vhdr.Header, _ uint64) ([]*vhdr.Header, error) {
	return stall[[]*vhdr.Header](ctx)
}

func c10Stalled() {
	ctx := context.Background()
	mn, hosts, err := peers.NewNet(2)
	if err != nil {
		panic(err)
	}
	defer mn.Close()
	st, chain := prunedStore(30, 11)
	defer st.Stop(ctx) //nolint:errcheck
	srv, err := p2p.NewExchangeServer[*vhdr.Header](hosts[1], stalledStore{st},
		p2p.WithNetworkID[p2p.ServerParameters](peers.NetworkID), p2p.WithRequestTimeout[p2p.ServerParameters](300*time.Millisecond))
	if err != nil {
		panic(err)
	}
	if err := func() error { sc, end := startCtx(); defer end(); return srv.Start(sc) }(); err != nil {
		panic(err)
	}
	defer srv.Stop(ctx) //nolint:errcheck
	reqs := map[string]*p2p_pb.HeaderRequest{
		"range":       {Data: &p2p_pb.HeaderRequest_Origin{Origin: 15}, Amount: 5},
		"hash":        {Data: &p2p_pb.HeaderRequest_Hash{Hash: chain[19].Hash()}, Amount: 1},
		"hashUnknown": {Data: &p2p_pb.HeaderRequest_Hash{Hash: []byte("nope-nope-nope-nope")}, Amount: 1},
	}
	for _, k := range []string{"range", "hash", "hashUnknown"} {
		t0 := time.Now()
		_, end := peers.RawRequest(ctx, hosts[0], hosts[1].ID(), peers.Frame(reqs[k]), 3*time.Second)
		took := time.Since(t0)
		bucket := "ok"
		if took > 1500*time.Millisecond {
			bucket = "late"
		}
		emit("C10 kind=stall how=stalledstore-%s sent=0 deadline=300 => end=%s bucket=%s", k, end, bucket)
	}
}

// c10Dataless: `n` decodable requests that carry neither an origin nor a hash (only an amount), one after the other, then a
// head request and a single-height request: the malformed ones are reset, and the server keeps answering afterwards.
// rawBounded is peers.RawRequest that gives up waiting after the timeout even on a transport that ignores deadlines
// (mocknet): the request goroutine is then left behind.
func rawBounded(ctx context.Context, from, to host.Host, frame []byte, d time.Duration) ([]peers.Resp, string) {
	type res struct {
		r []peers.Resp
		e string
	}
	ch := make(chan res, 1)
	go func() { r, e := peers.RawRequest(ctx, from, to.ID(), frame, d); ch <- res{r, e} }()
	select {
	case x := <-ch:
		return x.r, x.e
	case <-time.After(d + 300*time.Millisecond):
		return nil, "timeout"
	}
}

// bounded runs a clean-up step but does not wait for it longer than 3 s (a server wedged by the change under test must not
// wedge the harness: what the case observed has been printed by then).
func bounded(f func()) {
	done := make(chan struct{})
	go func() { defer close(done); f() }()
	select {
	case <-done:
	case <-time.After(3 * time.Second):
	}
}

func c10Dataless(n int) bool {
	ctx := context.Background()
	mn, hosts, err := peers.NewNet(2)
	if err != nil {
		panic(err)
	}
	defer bounded(func() { mn.Close() })
	st, _ := prunedStore(30, 11)
	defer bounded(func() { st.Stop(ctx) }) //nolint:errcheck
	srv, err := p2p.NewExchangeServer[*vhdr.Header](hosts[1], st,
		p2p.WithNetworkID[p2p.ServerParameters](peers.NetworkID), p2p.WithRequestTimeout[p2p.ServerParameters](300*time.Millisecond))
	if err != nil {
		panic(err)
	}
	if err := func() error { sc, end := startCtx(); defer end(); return srv.Start(sc) }(); err != nil {
		panic(err)
	}
	defer bounded(func() { srv.Stop(ctx) }) //nolint:errcheck
	answered := 0
	for i := 0; i < n; i++ {
		resps, end := rawBounded(ctx, hosts[0], hosts[1], peers.Frame(&p2p_pb.HeaderRequest{Amount: 1}), 700*time.Millisecond)
		if end != "timeout" && len(resps) == 0 {
			answered++ // reset / closed without data: what a request without data deserves
		}
	}
	show := func(resps []peers.Resp, end string) string {
		hs := "-"
		if len(resps) > 0 {
			var xs []string
			for _, r := range resps {
				if r.Status == 1 && r.BodyOK {
					xs = append(xs, utoa(r.H))
				} else {
					xs = append(xs, fmt.Sprintf("S%d", r.Status))
				}
			}
			hs = strings.Join(xs, ",")
		}
		return end + ":" + hs
	}
	r1, e1 := rawBounded(ctx, hosts[0], hosts[1], peers.Frame(&p2p_pb.HeaderRequest{Data: &p2p_pb.HeaderRequest_Origin{Origin: 0}, Amount: 1}), 2*time.Second)
	r2, e2 := rawBounded(ctx, hosts[0], hosts[1], peers.Frame(&p2p_pb.HeaderRequest{Data: &p2p_pb.HeaderRequest_Origin{Origin: 20}, Amount: 1}), 2*time.Second)
	emit("C10 kind=dataless n=%d head=30 => refused=%d headreq=%s onereq=%s", n, answered, show(r1, e1), show(r2, e2))
	return e1 == "eof" && e2 == "eof"
}

// slowRangeStore: GetRange / GetRangeByHeight take `d` (ignoring the context, like a store stuck in a disk read) and then
// return the correct data.
type slowRangeStore struct {
	header.Store[*vhdr.Header]
	d time.Duration
}

func (s slowRangeStore) GetRange(ctx context.Context, from, to uint64) ([]*vhdr.Header, error) {
	time.Sleep(s.d)
	return s.Store.GetRange(context.Background(), from, to)
}

func (s slowRangeStore) GetRangeByHeight(ctx context.Context, from *vhdr.Header, to uint64) ([]*vhdr.Header, error) {
	time.Sleep(s.d)
	return s.Store.GetRangeByHeight(context.Background(), from, to)
}

// c10SlowStore: the store answers a range request correctly but only after the server's request timeout has passed. The
// client must see NOT_FOUND, a reset, or exactly the requested headers - never a cleanly closed shorter (or empty) reply.
func c10SlowStore(amount uint64) {
	ctx := context.Background()
	mn, hosts, err := peers.NewNet(2)
	if err != nil {
		panic(err)
	}
	defer mn.Close()
	st, _ := prunedStore(30, 11)
	defer st.Stop(ctx) //nolint:errcheck
	srv, err := p2p.NewExchangeServer[*vhdr.Header](hosts[1], slowRangeStore{st, 600 * time.Millisecond},
		p2p.WithNetworkID[p2p.ServerParameters](peers.NetworkID), p2p.WithRequestTimeout[p2p.ServerParameters](200*time.Millisecond))
	if err != nil {
		panic(err)
	}
	if err := func() error { sc, end := startCtx(); defer end(); return srv.Start(sc) }(); err != nil {
		panic(err)
	}
	defer srv.Stop(ctx) //nolint:errcheck
	resps, end := peers.RawRequest(ctx, hosts[0], hosts[1].ID(), peers.Frame(&p2p_pb.HeaderRequest{Data: &p2p_pb.HeaderRequest_Origin{Origin: 15}, Amount: amount}), 4*time.Second)
	okN, nf := 0, 0
	for _, r := range resps {
		if r.Status == 1 && r.BodyOK {
			okN++
		} else if r.Status == 2 {
			nf++
		}
	}
	emit("C10 kind=slowstore origin=15 amount=%d => end=%s ok=%d nf=%d n=%d", amount, end, okN, nf, len(resps))
}
