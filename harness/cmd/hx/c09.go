package main

import (
	"context"
	"errors"
	"fmt"
	"os"
	"strconv"
	"strings"
	"time"

	ds "github.com/ipfs/go-datastore"
	dssync "github.com/ipfs/go-datastore/sync"
	"github.com/libp2p/go-libp2p/core/host"
	"github.com/libp2p/go-libp2p/core/peer"
	"github.com/libp2p/go-libp2p/p2p/net/conngater"

	header "github.com/celestiaorg/go-header"
	"github.com/celestiaorg/go-header/p2p"
	p2p_pb "github.com/celestiaorg/go-header/p2p/pb"

	"verifharness/peers"
	"verifharness/vhdr"
)

func init() { cmds["C09"] = runC09 }

type p2pEnv struct {
	hosts  []host.Host
	peers  []*peers.Scripted // peers[i] lives on hosts[i+1]
	chain  []*vhdr.Header
	fork   []*vhdr.Header
	closer func()

	lastGater    *conngater.BasicConnectionGater // the gater of the most recently built client
	nilGater     bool // the Exchange is built without a connection gater
	emptyTracker bool // C09: WithTrustedHead cases run with an empty peer tracker (fallback to the trusted peers)
}

func newP2PEnv(npeers int) *p2pEnv {
	mn, hosts, err := peers.NewNet(npeers + 1)
	if err != nil {
		panic(err)
	}
	e := &p2pEnv{hosts: hosts, closer: func() { mn.Close() }}
	for i := 1; i <= npeers; i++ {
		e.peers = append(e.peers, peers.NewScripted(hosts[i]))
	}
	t0 := time.Now().Add(-time.Hour).UnixNano()
	e.chain = vhdr.Chain("A", 120, t0, 1e9, 0)
	e.fork = vhdr.Chain("A", 120, t0, 1e9, 7) // same heights, other hashes
	return e
}

func (e *p2pEnv) client(trusted []peer.ID, chunk uint64, timeout time.Duration) *p2p.Exchange[*vhdr.Header] {
	gater, err := conngater.NewBasicConnectionGater(dssync.MutexWrap(ds.NewMapDatastore()))
	if err != nil {
		panic(err)
	}
	opts := []p2p.Option[p2p.ClientParameters]{
		p2p.WithNetworkID[p2p.ClientParameters](peers.NetworkID),
		p2p.WithChainID("A"),
		p2p.WithRequestTimeout[p2p.ClientParameters](timeout),
	}
	if chunk > 0 {
		opts = append(opts, p2p.WithMaxHeadersPerRangeRequest(chunk))
	}
	e.lastGater = gater
	if e.nilGater {
		gater = nil // a configuration the constructor accepts (the library's own tests use it)
		e.lastGater = nil
	}
	ex, err := p2p.NewExchange[*vhdr.Header](e.hosts[0], trusted, gater, opts...)
	if err != nil {
		panic(err)
	}
	if err := func() error { sc, end := startCtx(); defer end(); return ex.Start(sc) }(); err != nil {
		panic(err)
	}
	// Start spawns peerTracker.track(), which adds every connected mocknet host asynchronously: wait for
	// that initial population so that a later VerifSetTrackedPeers is not overwritten by it
	for i := 0; i < 200 && len(ex.VerifTrackedPeers()) < len(e.hosts)-1; i++ {
		time.Sleep(500 * time.Microsecond)
	}
	return ex
}

// one peer's scripted head answer
type headAns struct {
	kind string // fail:<how> | main:<h> | fork:<h> | hang
}

func (e *p2pEnv) headReply(a string) peers.Reply {
	parts := strings.SplitN(a, ":", 2)
	switch parts[0] {
	case "main", "fork":
		var h int
		fmt.Sscanf(parts[1], "%d", &h)
		c := e.chain
		if parts[0] == "fork" {
			c = e.fork
		}
		return peers.Reply{Kind: "ok", Headers: []*vhdr.Header{c[h-1]}}
	case "big": // a head in the upper half of the uint64 range, on the main chain's fork id
		var k uint64
		fmt.Sscanf(parts[1], "%d", &k)
		last := e.chain[len(e.chain)-1]
		return peers.Reply{Kind: "ok", Headers: []*vhdr.Header{{Chain: last.Chain, H: 1<<63 + k, T: last.T + int64(k)*int64(time.Second), Salt: last.Salt}}}
	case "fail":
		switch parts[1] {
		case "notfound":
			return peers.Reply{Kind: "notfound"}
		case "empty":
			return peers.Reply{Kind: "empty"}
		case "reset":
			return peers.Reply{Kind: "reset"}
		case "garbage":
			return peers.Reply{Kind: "garbage", Raw: []byte{0x05, 0xff, 0xfe, 0xfd, 0xfc, 0xfb}}
		case "invalid":
			return peers.Reply{Kind: "ok", Headers: []*vhdr.Header{{Chain: "A", H: 50, T: 1, Bad: true}}}
		case "wrongchain":
			return peers.Reply{Kind: "ok", Headers: []*vhdr.Header{{Chain: "B", H: 50, T: e.chain[49].T}}}
		case "status":
			return peers.Reply{Kind: "status", Status: 9, Headers: []*vhdr.Header{e.chain[49]}}
		}
	}
	return peers.Reply{Kind: "hang"}
}

// c09Case: n asked peers with the given answers, released in `order`; trusted != 0 ⇒ WithTrustedHead(chain[trusted-1]).
func (e *p2pEnv) c09Case(answers []string, order []int, trusted int, R uint64) {
	n := len(answers)
	vhdr.TrustRange.Store(R)
	defer vhdr.TrustRange.Store(0)
	ids := make([]peer.ID, n)
	for i := 0; i < n; i++ {
		a := answers[i]
		e.peers[i].Reset(true, func(int, *p2p_pb.HeaderRequest) peers.Reply { return e.headReply(a) })
		ids[i] = e.hosts[i+1].ID()
	}
	var ex *p2p.Exchange[*vhdr.Header]
	var opts []header.HeadOption[*vhdr.Header]
	if trusted > 0 && e.emptyTracker {
		// WithTrustedHead while the peer tracker is (still) empty: the trusted peers are asked instead, and their
		// answers are verified against the trusted head all the same
		ex = e.client(ids, 0, 2*time.Second)
		ex.VerifSetTrackedPeers()
		opts = append(opts, header.WithTrustedHead[*vhdr.Header](e.chain[trusted-1]))
	} else if trusted > 0 {
		ex = e.client(nil, 0, 2*time.Second)
		ex.VerifSetTrackedPeers(ids...)
		opts = append(opts, header.WithTrustedHead[*vhdr.Header](e.chain[trusted-1]))
	} else {
		ex = e.client(ids, 0, 2*time.Second)
		ex.VerifSetTrackedPeers()
	}
	ctx, cancel := context.WithTimeout(context.Background(), 150*time.Millisecond)
	type res struct {
		h   *vhdr.Header
		err error
	}
	ch := make(chan res, 1)
	go func() {
		h, err := ex.Head(ctx, opts...)
		ch <- res{h, err}
	}()
	var out res
	got := false
	released := 0
	for _, i := range order {
		if answers[i] == "hang" {
			continue
		}
		select {
		case out = <-ch:
			got = true
		default:
		}
		if got {
			break
		}
		if e.peers[i].Release(0, 300*time.Millisecond) {
			released++
		}
		time.Sleep(4 * time.Millisecond) // let the client consume this answer before the next is released
	}
	if !got {
		out = <-ch
	}
	cancel()
	for i := 0; i < n; i++ {
		e.peers[i].Reset(false, nil)
	}
	_ = ex.Stop(context.Background())
	r := "zero"
	if out.h != nil {
		which := "?"
		if out.h.H >= 1<<63 {
			r = fmt.Sprintf("big:%d", out.h.H-1<<63)
		} else if int(out.h.H) <= len(e.chain) && sameHeader(out.h, e.chain[out.h.H-1]) {
			which = "main"
		} else if int(out.h.H) <= len(e.fork) && sameHeader(out.h, e.fork[out.h.H-1]) {
			which = "fork"
		}
		if out.h.H < 1<<63 {
			r = fmt.Sprintf("%s:%d", which, out.h.H)
		}
	}
	ec := "nil"
	if out.err != nil {
		var ve *header.VerifyError
		switch {
		case errors.Is(out.err, header.ErrNotFound):
			ec = "notfound"
		case errors.Is(out.err, context.DeadlineExceeded) || errors.Is(out.err, context.Canceled):
			ec = "ctx"
		case errors.As(out.err, &ve) && ve.SoftFailure:
			ec = "soft"
		case errors.As(out.err, &ve):
			ec = "hard"
		default:
			ec = "other"
		}
	}
	os := make([]string, len(order))
	for i, o := range order {
		os[i] = itoa(o)
	}
	emit("C09 n=%d trusted=%d fallback=%d R=%d answers=%s order=%s => head=%s err=%s", n, trusted, b2i(e.emptyTracker && trusted > 0), R, strings.Join(answers, ","), strings.Join(os, ","), r, ec)
}

func perms(n int) [][]int {
	if n == 0 {
		return [][]int{{}}
	}
	var out [][]int
	for _, p := range perms(n - 1) {
		for i := 0; i <= len(p); i++ {
			q := append(append(append([]int{}, p[:i]...), n-1), p[i:]...)
			out = append(out, q)
		}
	}
	return out
}

func runC09(tier string, r *rng) {
	e := newP2PEnv(6)
	defer e.closer()
	if line := os.Getenv("VERIF_REPLAY_CASE"); line != "" {
		kv := kvOf(line)
		trusted, _ := strconv.Atoi(kv["trusted"])
		R, _ := strconv.ParseUint(kv["R"], 10, 64)
		e.emptyTracker = kv["fallback"] == "1"
		e.c09Case(strings.Split(kv["answers"], ","), atoiList(kv["order"]), trusted, R)
		return
	}
	alphabetT := []string{"main:60", "main:60", "fork:60", "main:61", "main:58", "fail:notfound", "fail:garbage", "fail:invalid", "fail:wrongchain", "fail:empty", "fail:reset", "fail:status", "hang"}
	// trusted-peers path: 1..3 peers exhaustive over a reduced alphabet and all arrival orders
	small := []string{"main:60", "fork:60", "main:61", "fail:notfound", "hang"}
	var rec func(n int, cur []string)
	rec = func(n int, cur []string) {
		if len(cur) == n {
			for _, o := range perms(n) {
				e.c09Case(append([]string{}, cur...), o, 0, 0)
			}
			return
		}
		for _, a := range small {
			rec(n, append(cur, a))
		}
	}
	maxN := 2
	if tier == "thorough" {
		maxN = 3
	}
	for n := 1; n <= maxN; n++ {
		rec(n, nil)
	}
	// quorum boundary for every peer count: q-1 and q agreeing (lower) heads arrive first, higher distinct heads later
	for n := 3; n <= 6; n++ {
		q := p2p.VerifMinHeadResponses(n)
		for _, k := range []int{q - 1, q} {
			ans := make([]string, n)
			ord := make([]int, n)
			for i := range ans {
				ord[i] = i
				if i < k {
					ans[i] = "main:58"
				} else {
					ans[i] = fmt.Sprintf("main:%d", 60+i)
				}
			}
			e.c09Case(ans, ord, 0, 0)
			if n <= 4 {
				e.c09Case(ans, ord, 55, 0)
			}
		}
	}
	// no quorum: distinct heads that COLLIDE IN HEIGHT (forks) next to a higher one, and heads in the upper half of uint64
	for _, ans := range [][]string{{"main:60", "fork:60", "main:61"}, {"main:60", "fork:60", "main:61", "hang"}, {"main:58", "fork:58", "main:59"},
		{"main:60", "big:10"}, {"main:60", "big:1000"}, {"big:1000", "main:60", "fork:61"}, {"big:3", "big:1000", "main:60"}, {"main:60", "fork:60", "big:1", "main:61"}} {
		for _, o := range perms(len(ans)) {
			e.c09Case(ans, o, 0, 0)
			if len(ans) <= 4 {
				e.c09Case(ans, o, 55, 0)
			}
		}
	}
	// sampled: 3..6 peers, random answers and orders, both paths
	k := 60
	if tier == "thorough" {
		k = 1500
	}
	for i := 0; i < k; i++ {
		n := 1 + r.intn(6)
		trusted := 0
		if r.chance(1, 2) {
			trusted = 55
			if n > 4 {
				n = 1 + r.intn(4) // at most maxUntrustedHeadRequests tracked peers are asked
			}
		}
		ans := make([]string, n)
		for j := range ans {
			ans[j] = alphabetT[r.intn(len(alphabetT))]
			if trusted > 0 && r.chance(1, 3) {
				// heads with every verdict against the trusted head 55: adjacent ok (56), in range (57..60),
				// beyond the trust range = soft (61+), known = hard (50), adjacent fork = hard (fork:56)
				ans[j] = []string{"main:56", "main:58", "main:70", "main:70", "main:50", "fork:56", "fork:70"}[r.intn(7)]
			}
		}
		ps := perms(n)
		e.emptyTracker = trusted > 0 && r.chance(1, 3)
		e.c09Case(ans, ps[r.intn(len(ps))], trusted, 5)
		e.emptyTracker = false
	}
	// fixed: empty tracker + trusted head 55, trusted peers answering known / adjacent fork / too-far / good heads
	e.emptyTracker = true
	for _, ans := range [][]string{{"main:50"}, {"fork:56"}, {"main:70"}, {"main:58"}, {"main:50", "main:58"}, {"fork:56", "main:70", "main:58"}} {
		ord := make([]int, len(ans))
		for i := range ord {
			ord[i] = i
		}
		e.c09Case(ans, ord, 55, 5)
	}
	e.emptyTracker = false
}
