package main

import (
	"context"
	"errors"
	"fmt"
	"os"
	"strings"
	"sync"
	"sync/atomic"
	"time"

	header "github.com/celestiaorg/go-header"
	"github.com/celestiaorg/go-header/store"
	hsync "github.com/celestiaorg/go-header/sync"

	"verifharness/vhdr"
)

func init() {
	cmds["C03"] = func(t string, r *rng) { runSyncer("C03", t, r) }
	cmds["C07"] = func(t string, r *rng) { runSyncer("C07", t, r) }
}

const sN = 70 // chain length

type syncRun struct {
	chain, fork []*vhdr.Header
	st          *store.Store[*vhdr.Header]
	g           *scriptGetter
	s           *hsync.Syncer[*vhdr.Header]
	sub         *nopSub
	// getter script: per range request (in order): "ok" | "prefix:k" | "err" | "empty" | "shift" ; then honest
	script []string
	nreq   atomic.Int64
	holdCh chan struct{}
	tokCh  chan struct{}
}

func newSyncRun(storeTo int) *syncRun {
	now := time.Now().UnixNano()
	t0 := now - int64(5*time.Second) - int64(sN-1)*int64(time.Second)
	r := &syncRun{holdCh: make(chan struct{}), tokCh: make(chan struct{}, 8)}
	r.chain = vhdr.Chain("A", sN, t0, int64(time.Second), 0)
	r.fork = vhdr.Chain("A", sN, t0, int64(time.Second), 9)
	r.st = newStoreWith(r.chain, 1, storeTo)
	r.g = &scriptGetter{chain: r.chain}
	r.g.rangeFn = func(from *vhdr.Header, to uint64) ([]*vhdr.Header, error) {
		b := "ok"
		k := int(r.nreq.Add(1)) - 1
		if k < len(r.script) {
			b = r.script[k]
		}
		if to > sN+1 {
			to = sN + 1
		}
		full := r.chain[from.H : to-1]
		switch {
		case b == "err":
			return nil, errGetter
		case b == "errcanceled": // an error of the getter that happens to wrap context.Canceled (the Syncer itself is alive)
			return nil, fmt.Errorf("scripted getter: upstream gave up: %w", context.Canceled)
		case b == "hold": // a slow getter: blocks until the harness releases it, then serves the range
			<-r.holdCh
		case b == "holdtok": // the same, one token per request (several held requests in one case)
			<-r.tokCh
		case b == "empty":
			return nil, nil
		case b == "shift": // contract violation: does not start at from+1
			if len(full) > 1 {
				return full[1:], nil
			}
			return nil, errGetter
		case strings.HasPrefix(b, "prefix:"):
			var k int
			fmt.Sscanf(b[7:], "%d", &k)
			if k >= 1 && k < len(full) {
				return full[:k], nil
			}
		}
		return full, nil
	}
	// the store head is recent (chain ends 5 s ago) only when storeTo = sN; keep Head() quiet: big recency threshold
	r.s, r.sub = newSyncer(r.g, r.st, hsync.WithSyncFromHeight(1), hsync.WithBlockTime(time.Second),
		hsync.WithRecencyThreshold(10*time.Hour), hsync.WithTrustingPeriod(100*time.Hour))
	return r
}

// quiesce waits until the sync loop is idle: store head and pending stop changing.
func (r *syncRun) quiesce() {
	ctx := context.Background()
	last, stable := "", 0
	for i := 0; i < 400 && stable < 6; i++ {
		time.Sleep(2 * time.Millisecond)
		_ = r.st.Sync(ctx)
		hd := uint64(0)
		if h, err := r.st.Head(ctx); err == nil {
			hd = h.H
		}
		cur := fmt.Sprintf("%d/%v/%d", hd, r.s.VerifPendingHeights(), r.g.logLen())
		if cur == last {
			stable++
		} else {
			stable, last = 0, cur
		}
	}
}

func (r *syncRun) observe() string {
	ctx := context.Background()
	hd, tl := uint64(0), uint64(0)
	if h, err := r.st.Head(ctx); err == nil {
		hd = h.H
	}
	if t, err := r.st.Tail(ctx); err == nil {
		tl = t.H
	}
	// every height: G = genuine chain header, X = anything else stored, N = not stored
	b := make([]byte, sN+2)
	for h := 0; h <= sN+1; h++ {
		b[h] = 'N'
		if x, err := r.st.GetByHeight(cancelled, uint64(h)); err == nil && x != nil {
			if h >= 1 && h <= sN && sameHeader(x, r.chain[h-1]) {
				b[h] = 'G'
			} else {
				b[h] = 'X'
			}
		}
	}
	local := uint64(0)
	if h, err := r.s.VerifLocalHead(ctx); err == nil {
		local = h.H
	}
	var pend []uint64
	for _, p := range r.s.VerifPendingHeights() {
		pend = append(pend, p...)
	}
	stt := r.s.State()
	return fmt.Sprintf("head=%d tail=%d stored=%s target=%d pending=%s state=%d-%d err=%d finished=%d",
		hd, tl, b, local, joinU(pend), stt.FromHeight, stt.ToHeight, b2i(stt.Error != ""), b2i(stt.Finished()))
}

func (r *syncRun) gossip(kind string, h int) string {
	var hd *vhdr.Header
	c := r.chain[h-1]
	switch kind {
	case "valid":
		hd = c
	case "forged": // right place in the chain, invalid "signature"
		hd = &vhdr.Header{Chain: c.Chain, H: c.H, T: c.T, Prev: c.Prev, Salt: 5, Forged: true}
	case "forgedfault": // a forged head whose bifurcation cannot fetch any intermediate
		hd = &vhdr.Header{Chain: c.Chain, H: c.H, T: c.T, Prev: c.Prev, Salt: 5, Forged: true}
		r.g.mu.Lock()
		r.g.failH = map[uint64]bool{}
		for i := uint64(1); i <= sN; i++ {
			r.g.failH[i] = true
		}
		r.g.mu.Unlock()
		defer func() { r.g.mu.Lock(); r.g.failH = nil; r.g.mu.Unlock() }()
	case "fork": // another chain's header at that height (broken hash link if adjacent)
		hd = r.fork[h-1]
	case "wrongchain":
		hd = &vhdr.Header{Chain: "B", H: c.H, T: c.T, Prev: c.Prev}
	case "future":
		hd = &vhdr.Header{Chain: c.Chain, H: c.H, T: time.Now().Add(time.Hour).UnixNano(), Prev: c.Prev}
	case "pasttime":
		hd = &vhdr.Header{Chain: c.Chain, H: c.H, T: r.chain[0].T - 1e9, Prev: c.Prev}
	}
	ctx, cancel := context.WithTimeout(context.Background(), 2*time.Second)
	defer cancel()
	err := r.sub.verifier(ctx, hd)
	if err == nil {
		return "accept"
	}
	var ve *header.VerifyError
	if errors.As(err, &ve) && ve.SoftFailure {
		return "soft"
	}
	return "refuse"
}

func syncerCase(prop string, storeTo int, R uint64, script []string, events []string) {
	ctx := context.Background()
	vhdr.TrustRange.Store(R)
	defer vhdr.TrustRange.Store(0)
	run := newSyncRun(storeTo)
	run.script = script
	emit("case %d %s store=%d R=%d script=%s n=%d", nextCase(), prop, storeTo, R, strings.Join(append([]string{"-"}, script...), "/"), sN)
	sctx, cancel := context.WithTimeout(ctx, 3*time.Second)
	err := run.s.Start(sctx)
	cancel()
	if err != nil {
		emit("ob start=err")
		emit("end")
		return
	}
	run.quiesce()
	emit("op start")
	emit("ob %s", run.observe())
	for _, ev := range events {
		f := strings.Fields(ev)
		switch f[0] {
		case "gossip":
			var h int
			fmt.Sscanf(f[2], "%d", &h)
			res := run.gossip(f[1], h)
			run.quiesce()
			emit("op gossip %s %d", f[1], h)
			emit("ob verdict=%s %s", res, run.observe())
		case "wait": // SyncWait must return once the sync is done
			c, cancel := context.WithTimeout(ctx, time.Second)
			err := run.s.SyncWait(c)
			cancel()
			emit("op wait")
			emit("ob syncwait=%s", map[bool]string{true: "ok", false: "timeout"}[err == nil])
		}
	}
	_ = run.s.Stop(ctx)
	c2, cancel2 := context.WithTimeout(ctx, time.Second)
	_ = run.st.Stop(c2)
	cancel2()
	emit("end")
}

func runSyncer(prop, tier string, r *rng) {
	bad := []string{"forged", "forgedfault", "fork", "wrongchain", "future", "pasttime"}
	if prop == "C07" {
		for _, heads := range [][]int{{20, 21, 25}, {30, 31}, {15, 40, 41, 42}} {
			burstCase(prop, heads)
		}
		appendRaceCase(prop, 20, 30)
		if os.Getenv("VERIF_NO_EMPTIEDWINDOW") == "" {
			emptiedWindowCase(prop, 20, 23, 24)
			emptiedWindowCase(prop, 10, 30, 31)
			emptiedWindowCase(prop, 20, 24, 24) // the same head learned twice: the late one equals the store head
			emptiedWindowCase(prop, 20, 22, 25)
		}
		if os.Getenv("VERIF_NO_ADDRACE") == "" {
			addRaceCase(prop)
		}
		rangesCases(prop, tier, r)
		// several pending ranges, later heads extending the last one beyond the running sync's target, on a store whose
		// flush loop is busy (slow commits): what the sync loop hands to the store must not change under its feet
		for _, b := range []int{1, 2, 3} {
			slowStoreDelay, slowStoreBatch = 4*time.Millisecond, b
			prefixOfRangeCase(prop, 10, 20, 3)
		}
		prefixOfRangeCase(prop, 12, 30, 2)
		dupHeadCase(prop, 20, 30, 35)
		dupHeadCase(prop, 20, 21, 40)
	}
	if prop == "C03" {
		// what the sync loop hands to the store must be what ends up stored (several pending ranges, a busy flush loop)
		burstCase(prop, []int{15, 40, 41, 42})
		burstCase(prop, nil) // the tail-above-head scenarios
		startWindowCase(prop)
		forkRaceCase(prop, 11)
		forkRaceCase(prop, 8)
	}
	if prop == "C07" || prop == "C03" {
		restartSyncCase(prop)
		for _, b := range []int{1, 2} {
			slowStoreDelay, slowStoreBatch = 4*time.Millisecond, b
			prefixOfRangeCase(prop, 10, 20, 3)
		}
	}
	// fixed scenarios
	syncerCase(prop, 10, 0, nil, []string{"gossip valid 11", "gossip valid 12", "gossip valid 20", "wait", "gossip valid 15", "gossip forged 25", "gossip valid 30", "wait"})
	syncerCase(prop, 10, 0, []string{"prefix:3", "prefix:1", "ok"}, []string{"gossip valid 40", "wait"})
	syncerCase(prop, 10, 0, []string{"err"}, []string{"gossip valid 30", "gossip valid 31", "wait"})
	// an error AFTER part of the range was fetched in the same attempt: the fetched part stays, the next head resumes from it
	syncerCase(prop, 10, 0, []string{"prefix:3", "err"}, []string{"gossip valid 40", "wait", "gossip valid 41", "wait"})
	syncerCase(prop, 10, 0, []string{"prefix:2", "prefix:1", "errcanceled", "prefix:4", "err"}, []string{"gossip valid 30", "wait", "gossip valid 35", "wait", "gossip valid 36", "wait"})
	syncerCase(prop, 10, 0, []string{"empty"}, []string{"gossip valid 30", "gossip valid 33", "wait"})
	syncerCase(prop, 10, 0, []string{"shift"}, []string{"gossip valid 30", "gossip valid 34", "wait"})
	syncerCase(prop, 10, 3, nil, []string{"gossip valid 30", "gossip forged 50", "gossip valid 60", "wait"}) // bifurcation (trust range 3)
	k := 40
	if tier == "thorough" {
		k = 800
	}
	for i := 0; i < k; i++ {
		storeTo := 5 + r.intn(20)
		R := uint64(0)
		if r.chance(1, 4) {
			R = uint64(2 + r.intn(6))
		}
		var script []string
		for j := 0; j < r.intn(4); j++ {
			switch m := r.intn(10); {
			case m < 4:
				script = append(script, fmt.Sprintf("prefix:%d", 1+r.intn(5)))
			case m < 6 && prop == "C07":
				script = append(script, []string{"err", "errcanceled"}[r.intn(2)])
			case m < 7 && prop == "C03":
				script = append(script, []string{"err", "empty", "shift"}[r.intn(3)])
			default:
				script = append(script, "ok")
			}
		}
		var evs []string
		top := storeTo
		for j := 0; j < 3+r.intn(6); j++ {
			switch m := r.intn(10); {
			case m < 6:
				h := top + 1 + r.intn(8)
				if r.chance(1, 5) {
					h = 1 + r.intn(top) // stale / duplicate
				}
				if h > sN {
					h = sN
				}
				evs = append(evs, fmt.Sprintf("gossip valid %d", h))
				if h > top {
					top = h
				}
			case m < 9 && prop == "C03":
				h := top + 1 + r.intn(6)
				if h > sN {
					h = sN
				}
				evs = append(evs, fmt.Sprintf("gossip %s %d", bad[r.intn(len(bad))], h))
			default:
				evs = append(evs, "wait")
			}
		}
		evs = append(evs, "wait")
		syncerCase(prop, storeTo, R, script, evs)
	}
}

// burstCase: heads learned WHILE a sync is running on a slow getter (adjacent ones and ones leaving a gap)
// must be synced as well once the getter answers.
func burstCase(prop string, heads []int) {
	if len(heads) == 0 {
		tailAboveCase(prop, 10, 30, 50, 51)
		tailAboveCase(prop, 10, 12, 40, 45)
		return
	}
	ctx := context.Background()
	run := newSyncRun(10)
	run.script = []string{"hold"}
	sctx, cancel := context.WithTimeout(ctx, 3*time.Second)
	err := run.s.Start(sctx)
	cancel()
	if err != nil {
		emit("%s kind=burst heads=%v => start=err", prop, heads)
		return
	}
	var verdicts []string
	for i, h := range heads {
		verdicts = append(verdicts, run.gossip("valid", h))
		if i == 0 {
			// wait until the sync loop sits in the held range request
			for k := 0; k < 200 && run.nreq.Load() == 0; k++ {
				time.Sleep(time.Millisecond)
			}
		}
	}
	close(run.holdCh)
	run.quiesce()
	hs := make([]string, len(heads))
	for i, h := range heads {
		hs[i] = itoa(h)
	}
	c, cancel2 := context.WithTimeout(ctx, time.Second)
	werr := run.s.SyncWait(c)
	cancel2()
	emit("%s kind=burst heads=%s => verdicts=%s %s syncwait=%s", prop, strings.Join(hs, ","), strings.Join(verdicts, ","), run.observe(),
		map[bool]string{true: "ok", false: "timeout"}[werr == nil])
	_ = run.s.Stop(ctx)
	c2, cancel3 := context.WithTimeout(ctx, time.Second)
	_ = run.st.Stop(c2)
	cancel3()
}

// appendRaceCase: the gossip handler is stopped inside syncStore.Append for header storeTo+1 (after it loaded the
// store head, before it publishes the new one) while a newer head learned through Head() lets the sync loop run
// ahead; then the handler goes on.  Nothing may move backwards and the target must still be reached.
func appendRaceCase(prop string, storeTo, target int) {
	ctx := context.Background()
	run := newSyncRun(storeTo)
	run.s.VerifSetPolicy(100*time.Hour, time.Second, time.Millisecond) // the stored head is never "recent": Head() asks the network
	netHead := storeTo                                                 // what the trusted peers report as the network head
	run.g.headFn = func(*vhdr.Header) (*vhdr.Header, error) { return run.chain[netHead-1], nil }
	sctx, cancel := context.WithTimeout(ctx, 3*time.Second)
	err := run.s.Start(sctx)
	cancel()
	if err != nil {
		emit("%s kind=appendrace store=%d target=%d => start=err", prop, storeTo, target)
		return
	}
	run.quiesce()
	c := run.chain[storeTo]
	gated := &vhdr.Header{Chain: c.Chain, H: c.H, T: c.T, Prev: c.Prev, Salt: c.Salt, VK: c.VK, ParkIn: "syncStore", Parked: make(chan struct{}), Release: make(chan struct{})}
	gdone := make(chan string, 1)
	go func() {
		if err := run.sub.verifier(ctx, gated); err != nil {
			if os.Getenv("VERIF_DEBUG") != "" {
				fmt.Fprintln(os.Stderr, "appendrace gossip error:", err)
			}
			gdone <- "refuse"
		} else {
			gdone <- "accept"
		}
	}()
	parked := "yes"
	select {
	case <-gated.Parked:
	case <-time.After(2 * time.Second):
		parked = "no"
	}
	// a newer head arrives through Head() (not serialised with the gossip handler)
	netHead = target
	hdone := make(chan string, 1)
	go func() {
		// (Head() itself ends in incomingNetworkHead, which waits for the parked gossip handler's lock)
		hctx, cancelH := context.WithTimeout(ctx, 10*time.Second)
		defer cancelH()
		if h, err := run.s.Head(hctx); err == nil && h != nil {
			hdone <- utoa(h.H)
		} else {
			hdone <- "err"
		}
	}()
	run.quiesce()
	mid := uint64(0)
	if h, err := run.st.Head(ctx); err == nil {
		mid = h.H
	}
	close(gated.Release)
	gres := "hang"
	select {
	case gres = <-gdone:
	case <-time.After(3 * time.Second):
	}
	hres := "hang"
	select {
	case hres = <-hdone:
	case <-time.After(5 * time.Second):
	}
	run.quiesce()
	// public view afterwards
	h2 := "err"
	hctx2, cancelH2 := context.WithTimeout(ctx, 3*time.Second)
	if h, err := run.s.Head(hctx2); err == nil && h != nil {
		h2 = utoa(h.H)
	}
	cancelH2()
	run.quiesce()
	emit("%s kind=appendrace store=%d target=%d => start=ok parked=%s head1=%s mid=%d gossip=%s head2=%s %s", prop, storeTo, target, parked, hres, mid, gres, h2, run.observe())
	_ = run.s.Stop(ctx)
	c2, cancel3 := context.WithTimeout(ctx, time.Second)
	_ = run.st.Stop(c2)
	cancel3()
}

// dupHeadCase: the same head N is learned twice while its sync is running - once by gossip (which starts the sync) and
// once as the answer of a Head() request that was in flight - then a later head leaving a gap arrives. The Syncer must end
// at the newest head with a finished, error-free state.
func dupHeadCase(prop string, storeTo, n1, n2 int) {
	ctx := context.Background()
	run := newSyncRun(storeTo)
	netHead := storeTo
	run.g.headFn = func(*vhdr.Header) (*vhdr.Header, error) { return run.chain[netHead-1], nil }
	sctx, cancel := context.WithTimeout(ctx, 3*time.Second)
	err := run.s.Start(sctx)
	cancel()
	if err != nil {
		emit("%s kind=duphead store=%d n1=%d n2=%d => start=err", prop, storeTo, n1, n2)
		return
	}
	run.quiesce()
	run.s.VerifSetPolicy(100*time.Hour, time.Second, time.Millisecond) // never "recent": Head() asks the network
	netHead = n1
	run.g.headGate = make(chan struct{})
	run.script = append(run.script, make([]string, int(run.nreq.Load()))...) // keep earlier requests as they were
	run.script = append(run.script[:int(run.nreq.Load())], "hold")
	hdone := make(chan string, 1)
	go func() {
		hctx, cancelH := context.WithTimeout(ctx, 10*time.Second)
		defer cancelH()
		if h, err := run.s.Head(hctx); err == nil && h != nil {
			hdone <- utoa(h.H)
		} else {
			hdone <- "err"
		}
	}()
	time.Sleep(20 * time.Millisecond) // the head request is in flight
	g1 := run.gossip("valid", n1)     // starts the sync (its range request is held)
	for k := 0; k < 200 && run.nreq.Load() == 0; k++ {
		time.Sleep(time.Millisecond)
	}
	close(run.g.headGate) // Head() is answered with the same n1 while the sync is running
	time.Sleep(20 * time.Millisecond)
	close(run.holdCh)
	hres := "hang"
	select {
	case hres = <-hdone:
	case <-time.After(5 * time.Second):
	}
	run.quiesce()
	g2 := run.gossip("valid", n2)
	run.quiesce()
	c, cancel2 := context.WithTimeout(ctx, time.Second)
	werr := run.s.SyncWait(c)
	cancel2()
	emit("%s kind=duphead store=%d n1=%d n2=%d => start=ok gossip1=%s head1=%s gossip2=%s %s syncwait=%s", prop, storeTo, n1, n2, g1, hres, g2, run.observe(),
		map[bool]string{true: "ok", false: "timeout"}[werr == nil])
	_ = run.s.Stop(ctx)
	c2, cancel3 := context.WithTimeout(ctx, time.Second)
	_ = run.st.Stop(c2)
	cancel3()
}

// prefixOfRangeCase: a sync with target `to` is parked in its getter call while gossip extends the pending range that
// starts at `to` by `more` further heads: the loop then hands a PREFIX of that range to the store. Everything up to the
// newest head must end up stored, each height with its own header.
func prefixOfRangeCase(prop string, first, to, more int) {
	ctx := context.Background()
	run := newSyncRun(5)
	run.script = []string{"holdtok", "holdtok"}
	sctx, cancel := context.WithTimeout(ctx, 3*time.Second)
	err := run.s.Start(sctx)
	cancel()
	if err != nil {
		emit("%s kind=burst heads=%d => start=err", prop, to)
		return
	}
	waitReq := func(n int64) {
		for k := 0; k < 300 && run.nreq.Load() < n; k++ {
			time.Sleep(time.Millisecond)
		}
	}
	heads := []int{first - 2, first, to}
	var verdicts []string
	verdicts = append(verdicts, run.gossip("valid", first-2)) // sync 1, parked in its range request
	waitReq(1)
	verdicts = append(verdicts, run.gossip("valid", first)) // two separate pending ranges [first] [to] ...
	verdicts = append(verdicts, run.gossip("valid", to))
	run.tokCh <- struct{}{} // sync 1 finishes; sync 2 (target `to`) starts and parks filling the gap below [first]
	waitReq(2)
	for h := to + 1; h <= to+more; h++ { // ... and the last range grows beyond the running sync's target
		verdicts = append(verdicts, run.gossip("valid", h))
		heads = append(heads, h)
	}
	run.tokCh <- struct{}{}
	run.quiesce()
	hs := make([]string, len(heads))
	for i, h := range heads {
		hs[i] = itoa(h)
	}
	c, cancel2 := context.WithTimeout(ctx, time.Second)
	werr := run.s.SyncWait(c)
	cancel2()
	emit("%s kind=burst heads=%s => verdicts=%s %s syncwait=%s", prop, strings.Join(hs, ","), strings.Join(verdicts, ","), run.observe(),
		map[bool]string{true: "ok", false: "timeout"}[werr == nil])
	_ = run.s.Stop(ctx)
	c2, cancel3 := context.WithTimeout(ctx, time.Second)
	_ = run.st.Stop(c2)
	cancel3()
}

// tailAboveCase: the node is restarted with SyncFromHeight above its stored head (the same happens after being offline for
// longer than the pruning window). The first catch-up attempt meets a getter fault; a later head triggers another one.
// At quiescence the store is one gap-free run Tail..Head ending at the newest head.
func tailAboveCase(prop string, storeTo, sfh, first, second int) {
	ctx := context.Background()
	run := newSyncRun(storeTo)
	run.s.Params.SyncFromHeight = uint64(sfh)
	run.script = []string{"err"}
	sctx, cancel := context.WithTimeout(ctx, 3*time.Second)
	err := run.s.Start(sctx)
	cancel()
	if err != nil {
		emit("%s kind=tailabove store=%d sfh=%d heads=%d,%d => start=err", prop, storeTo, sfh, first, second)
		return
	}
	v1 := run.gossip("valid", first)
	for k := 0; k < 500 && run.s.State().Error == ""; k++ {
		time.Sleep(time.Millisecond)
	}
	run.quiesce()
	mid := run.observe()
	v2 := run.gossip("valid", second)
	run.quiesce()
	c, cancel2 := context.WithTimeout(ctx, time.Second)
	werr := run.s.SyncWait(c)
	cancel2()
	_ = mid
	emit("%s kind=tailabove store=%d sfh=%d heads=%d,%d => start=ok verdicts=%s,%s %s syncwait=%s", prop, storeTo, sfh, first, second, v1, v2, run.observe(),
		map[bool]string{true: "ok", false: "timeout"}[werr == nil])
	_ = run.s.Stop(ctx)
	c2, cancel3 := context.WithTimeout(ctx, time.Second)
	_ = run.st.Stop(c2)
	cancel3()
}

// startWindowCase: gossip that arrives while Start has not finished (the verifier is registered, the Syncer is not started
// yet) and whose validation context ends in that window; and gossip after a Start that FAILED. Nothing has looked at such a
// header: it must be refused with an error, never accepted.
func startWindowCase(prop string) {
	ctx := context.Background()
	// (a) slow Start: the head request of Start hangs
	run := newSyncRun(10)
	run.s.VerifSetPolicy(100*time.Hour, time.Second, time.Millisecond) // the stored head is not recent: Start asks the network
	run.g.headGate = make(chan struct{})
	started := make(chan error, 1)
	go func() {
		sctx, cancel := context.WithTimeout(ctx, 5*time.Second)
		defer cancel()
		started <- run.s.Start(sctx)
	}()
	for i := 0; i < 500 && run.sub.verifier == nil; i++ {
		time.Sleep(time.Millisecond)
	}
	slow := "noverifier"
	if run.sub.verifier != nil {
		c := run.chain[29]
		forged := &vhdr.Header{Chain: c.Chain, H: c.H, T: c.T, Prev: c.Prev, Salt: 5, Forged: true}
		vctx, vcancel := context.WithTimeout(ctx, 100*time.Millisecond)
		slow = map[bool]string{true: "accept", false: "refuse"}[run.sub.verifier(vctx, forged) == nil]
		vcancel()
	}
	close(run.g.headGate)
	<-started
	_ = run.s.Stop(ctx)
	c2, cancel2 := context.WithTimeout(ctx, time.Second)
	_ = run.st.Stop(c2)
	cancel2()
	// (b) failed Start: empty store, the trusted peers do not answer the head request
	run2 := newSyncRun(0)
	run2.g.headFn = func(*vhdr.Header) (*vhdr.Header, error) { return nil, errGetter }
	sctx, cancel := context.WithTimeout(ctx, 3*time.Second)
	serr := run2.s.Start(sctx)
	cancel()
	after := "noverifier"
	if run2.sub.verifier != nil {
		vctx, vcancel := context.WithTimeout(ctx, 100*time.Millisecond)
		after = map[bool]string{true: "accept", false: "refuse"}[run2.sub.verifier(vctx, run2.chain[4]) == nil]
		vcancel()
	}
	emit("%s kind=startwindow => duringstart=%s start2=%s afterfailedstart=%s", prop, slow, map[bool]string{true: "ok", false: "err"}[serr == nil], after)
	if serr == nil {
		_ = run2.s.Stop(ctx)
	}
	c3, cancel3 := context.WithTimeout(ctx, time.Second)
	_ = run2.st.Stop(c3)
	cancel3()
}

// restartSyncCase: the SAME Syncer object is stopped and started again (as a node does on a soft restart); a head learned
// afterwards that is not adjacent to the Store head has to be synced like before the restart.
func restartSyncCase(prop string) {
	ctx := context.Background()
	run := newSyncRun(10)
	start := func() string {
		sctx, cancel := context.WithTimeout(ctx, 3*time.Second)
		defer cancel()
		if err := run.s.Start(sctx); err != nil {
			return "err"
		}
		return "ok"
	}
	s1 := start()
	v1 := run.gossip("valid", 20)
	run.quiesce()
	stop := "ok"
	if err := run.s.Stop(ctx); err != nil {
		stop = "err"
	}
	s2 := start()
	v2 := run.gossip("valid", 35)
	run.quiesce()
	c, cancel := context.WithTimeout(ctx, time.Second)
	werr := run.s.SyncWait(c)
	cancel()
	emit("%s kind=restartsync heads=20,35 => start=%s stop=%s start2=%s verdicts=%s,%s %s syncwait=%s", prop, s1, stop, s2, v1, v2, run.observe(),
		map[bool]string{true: "ok", false: "timeout"}[werr == nil])
	_ = run.s.Stop(ctx)
	c2, cancel2 := context.WithTimeout(ctx, time.Second)
	_ = run.st.Stop(c2)
	cancel2()
}

// emptiedWindowCase: head `a` was verified by the gossip handler while the store head was still below it; the handler
// is stopped after it read the store head. Head() learns a+1, the sync loop stores everything up to a+1 and cleans its
// pending range; it is stopped right there (hook `sync.removed`), before it looks at the pending set again. The handler
// goes on and puts `a` into the - now empty - pending set; then the loop goes on. Nothing may crash, and the end
// state is the target, finished, error-free.
func emptiedWindowCase(prop string, storeTo, a, b int) {
	ctx := context.Background()
	run := newSyncRun(storeTo)
	run.s.VerifSetPolicy(100*time.Hour, time.Second, time.Millisecond) // the stored head is never "recent": Head() asks the network
	var cur atomic.Pointer[vhdr.Header]
	cur.Store(run.chain[storeTo-1])
	run.g.headFn = func(*vhdr.Header) (*vhdr.Header, error) { return cur.Load(), nil }
	sctx, cancel := context.WithTimeout(ctx, 3*time.Second)
	err := run.s.Start(sctx)
	cancel()
	if err != nil {
		emit("%s kind=emptiedwindow store=%d a=%d b=%d => start=err", prop, storeTo, a, b)
		return
	}
	run.quiesce()
	var armed atomic.Bool
	loopParked, loopGo := make(chan struct{}), make(chan struct{})
	var once sync.Once
	store.VerifSetScheduler(func(_ context.Context, point string) {
		if point == "sync.removed" && armed.Load() {
			once.Do(func() { close(loopParked); <-loopGo })
		}
	})
	defer store.VerifSetScheduler(nil)
	c := run.chain[a-1]
	gated := &vhdr.Header{Chain: c.Chain, H: c.H, T: c.T, Prev: c.Prev, Salt: c.Salt, VK: c.VK,
		ParkIn: "setLocalHead", ParkDirect: true, ParkSkip: 1, Parked: make(chan struct{}), Release: make(chan struct{})}
	gdone := make(chan string, 1)
	go func() {
		if err := run.sub.verifier(ctx, gated); err != nil {
			gdone <- "refuse"
		} else {
			gdone <- "accept"
		}
	}()
	parked := "yes"
	select {
	case <-gated.Parked:
	case <-time.After(2 * time.Second):
		parked = "no"
	}
	armed.Store(true)
	cur.Store(run.chain[b-1]) // the network head is b (a+1, or a itself: the same head learned twice)
	hdone := make(chan string, 1)
	go func() {
		hctx, cancelH := context.WithTimeout(ctx, 10*time.Second)
		defer cancelH()
		if h, err := run.s.Head(hctx); err == nil && h != nil {
			hdone <- utoa(h.H)
		} else {
			hdone <- "err"
		}
	}()
	lp := "yes"
	select {
	case <-loopParked:
	case <-time.After(3 * time.Second):
		lp = "no"
	}
	close(gated.Release)
	gres := "hang"
	select {
	case gres = <-gdone:
	case <-time.After(3 * time.Second):
	}
	hres := "hang"
	select {
	case hres = <-hdone:
	case <-time.After(5 * time.Second):
	}
	armed.Store(false)
	// a later head leaving a gap is learned while the loop still sits there (before it consumes the late wake-up)
	later := "refuse"
	if err := run.sub.verifier(ctx, run.chain[b+2]); err == nil {
		later = "accept"
	}
	close(loopGo)
	run.quiesce()
	emit("%s kind=emptiedwindow store=%d a=%d b=%d => start=ok parked=%s loop=%s gossip=%s head1=%s later=%s %s", prop, storeTo, a, b, parked, lp, gres, hres, later, run.observe())
	_ = run.s.Stop(ctx)
	c2, cancel3 := context.WithTimeout(ctx, time.Second)
	_ = run.st.Stop(c2)
	cancel3()
}

// addRaceCase: `ranges.Add(12)` has read the head of the last pending range (11) and is stopped there (hook
// `ranges.add.read`); the sync loop, which was fetching the gap below that range, stores 10..11 and drains the range
// (hook `sync.removed`); Add goes on and appends 12 to the drained range; the loop looks at the pending set again and
// is stopped while it holds what `Get` returned (header 12 parks its Height() call in processHeaders); head 13 arrives;
// the loop goes on. Every accepted head must end up in the Store.
func addRaceCase(prop string) {
	ctx := context.Background()
	run := newSyncRun(5)
	sctx, cancel := context.WithTimeout(ctx, 3*time.Second)
	err := run.s.Start(sctx)
	cancel()
	if err != nil {
		emit("%s kind=addrace => start=err", prop)
		return
	}
	run.quiesce()
	run.script = []string{"holdtok", "holdtok"}
	waitReq := func(n int64) bool {
		for k := 0; k < 1500 && run.nreq.Load() < n; k++ {
			time.Sleep(time.Millisecond)
		}
		return run.nreq.Load() >= n
	}
	verdict := func(h *vhdr.Header) string {
		if err := run.sub.verifier(ctx, h); err != nil {
			return "refuse"
		}
		return "accept"
	}
	var armedA, armedB atomic.Bool
	parkedA, goA, parkedB, goB := make(chan struct{}), make(chan struct{}), make(chan struct{}), make(chan struct{})
	var onceA, onceB sync.Once
	store.VerifSetScheduler(func(_ context.Context, point string) {
		switch {
		case point == "ranges.add.read" && armedA.Load():
			onceA.Do(func() { close(parkedA); <-goA })
		case point == "sync.removed" && armedB.Load():
			onceB.Do(func() { close(parkedB); <-goB })
		}
	})
	defer store.VerifSetScheduler(nil)
	steps := ""
	ok := func(name string, b bool) {
		if !b {
			steps += name + ","
		}
	}
	v7 := verdict(run.chain[6])
	ok("req1", waitReq(1))
	v10, v11 := verdict(run.chain[9]), verdict(run.chain[10])
	run.tokCh <- struct{}{}
	ok("req2", waitReq(2))
	c := run.chain[11]
	gated := &vhdr.Header{Chain: c.Chain, H: c.H, T: c.T, Prev: c.Prev, Salt: c.Salt, VK: c.VK,
		ParkIn: "processHeaders", ParkDirect: true, Parked: make(chan struct{}), Release: make(chan struct{})}
	armedA.Store(true)
	g12 := make(chan string, 1)
	go func() { g12 <- verdict(gated) }()
	wait := func(ch chan struct{}) bool {
		select {
		case <-ch:
			return true
		case <-time.After(3 * time.Second):
			return false
		}
	}
	ok("parkA", wait(parkedA))
	armedB.Store(true)
	run.tokCh <- struct{}{}
	ok("parkB", wait(parkedB))
	close(goA)
	v12 := "hang"
	select {
	case v12 = <-g12:
	case <-time.After(3 * time.Second):
	}
	close(goB)
	ok("parkC", wait(gated.Parked))
	v13 := verdict(run.chain[12])
	close(gated.Release)
	run.quiesce()
	if steps == "" {
		steps = "-"
	}
	emit("%s kind=addrace => start=ok missed=%s verdicts=%s,%s,%s,%s,%s newest=13 %s", prop, steps, v7, v10, v11, v12, v13, run.observe())
	_ = run.s.Stop(ctx)
	c2, cancel3 := context.WithTimeout(ctx, time.Second)
	_ = run.st.Stop(c2)
	cancel3()
}

// forkRaceCase: an equivocating header F(h) - a second valid child of the real header h-1 - arrives over gossip while the
// store is far below it: it soft-fails and goes into bifurcation, whose first getter request is held. Meanwhile the real
// headers 2..h+1 arrive over gossip. Then the getter answers. Whatever wins, at quiescence the Store is ONE chain: every
// stored header names the stored header below it as its parent.
func forkRaceCase(prop string, h int) {
	ctx := context.Background()
	vhdr.TrustRange.Store(4)
	defer vhdr.TrustRange.Store(0)
	run := newSyncRun(1)
	sctx, cancel := context.WithTimeout(ctx, 3*time.Second)
	err := run.s.Start(sctx)
	cancel()
	if err != nil {
		emit("%s kind=forkrace h=%d => start=err", prop, h)
		return
	}
	run.quiesce()
	c := run.chain[h-1]
	fork := &vhdr.Header{Chain: c.Chain, H: c.H, T: c.T + 1, Prev: c.Prev, Salt: c.Salt, VK: c.VK}
	gate := make(chan struct{})
	run.g.hGate = gate
	l0 := run.g.logLen()
	fres := make(chan string, 1)
	verdict := func(hd *vhdr.Header) string {
		vctx, cancelV := context.WithTimeout(ctx, 8*time.Second)
		defer cancelV()
		if err := run.sub.verifier(vctx, hd); err != nil {
			return "refuse"
		}
		return "accept"
	}
	go func() { fres <- verdict(fork) }()
	inBif := false
	for k := 0; k < 1500 && !inBif; k++ {
		time.Sleep(time.Millisecond)
		inBif = run.g.logLen() > l0
	}
	var wg sync.WaitGroup
	for x := 2; x <= h+1; x++ {
		wg.Add(1)
		go func(hd *vhdr.Header) { defer wg.Done(); _ = verdict(hd) }(run.chain[x-1])
		time.Sleep(3 * time.Millisecond) // keep the arrival order
	}
	time.Sleep(100 * time.Millisecond)
	close(gate)
	fv := "hang"
	select {
	case fv = <-fres:
	case <-time.After(9 * time.Second):
	}
	wg.Wait()
	run.quiesce()
	// one chain?
	linked, forkStored := 1, "absent"
	hd, _ := run.st.Head(ctx)
	tl, _ := run.st.Tail(ctx)
	if hd != nil && tl != nil {
		var below *vhdr.Header
		for x := tl.H; x <= hd.H; x++ {
			cur, err := run.st.GetByHeight(cancelled, x)
			if err != nil || cur == nil {
				linked = 0
				break
			}
			if below != nil && string(cur.Prev) != string(below.Hash()) {
				linked = 0
			}
			if x == uint64(h) && sameHeader(cur, fork) {
				forkStored = "stored"
			}
			below = cur
		}
	}
	emit("%s kind=forkrace h=%d => start=ok inbif=%d fork=%s forkstored=%s linked=%d %s", prop, h, b2i(inBif), fv, forkStored, linked, run.observe())
	_ = run.s.Stop(ctx)
	c2, cancel3 := context.WithTimeout(ctx, time.Second)
	_ = run.st.Stop(c2)
	cancel3()
}
