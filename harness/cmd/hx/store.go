package main

import (
	"context"
	"errors"
	"fmt"
	"sort"
	"strconv"
	"strings"
	"sync"
	"time"

	ds "github.com/ipfs/go-datastore"
	contextds "github.com/ipfs/go-datastore/context"

	header "github.com/celestiaorg/go-header"
	"github.com/celestiaorg/go-header/store"

	"verifharness/memds"
	"verifharness/vhdr"
)

// ---- configuration and operations of one store case ----------------------------------------

type storeCfg struct {
	batch, cache int
	flavour      string // plain | ctx
	n            int    // chain length; observations cover heights 0..n+1
	par          int    // > 0: DeleteRange takes the parallel path for ranges of at least this size
}

type storeOp struct {
	kind   string   // append | sync | observe | delete | restart | ondelete | stop | start
	hs     []uint64 // append
	a, b   uint64   // delete
	script string   // ondelete: comma separated "<callIndex><e|p>" e.g. "2e,5p"; "-" = never fails
}

func (o storeOp) String() string {
	switch o.kind {
	case "append":
		s := make([]string, len(o.hs))
		for i, h := range o.hs {
			s[i] = utoa(h)
		}
		return "op append " + strings.Join(s, ",")
	case "delete":
		return fmt.Sprintf("op delete %d %d", o.a, o.b)
	case "ondelete":
		return "op ondelete " + o.script
	}
	return "op " + o.kind
}

type hcall struct {
	handler  int
	height   uint64
	readable bool
	failed   bool // the handler returned an error or panicked on this call
}

type storeRun struct {
	cfg     storeCfg
	hmu     sync.Mutex
	core    *memds.Core
	dsi     ds.Batching
	st      *store.Store[*vhdr.Header]
	chain   []*vhdr.Header
	byHash  map[string]uint64
	calls   []hcall
	scripts []map[int]byte // per handler: call index -> 'e' | 'p' | 'n'
	counts  []int
	stopped bool
}

var storeT0 = time.Now().Add(-24 * time.Hour).UnixNano()

func newStoreRun(cfg storeCfg, core *memds.Core) *storeRun {
	r := &storeRun{cfg: cfg, core: core, byHash: map[string]uint64{}}
	if cfg.par > 0 {
		store.VerifSetDeleteRangeParallelThreshold(uint64(cfg.par))
	}
	r.chain = vhdr.Chain("A", cfg.n+2, storeT0, int64(time.Second), 0)
	for _, h := range r.chain {
		r.byHash[h.Hash().String()] = h.H
	}
	if cfg.flavour == "ctx" {
		r.dsi = contextds.WrapDatastore(&memds.Txn{Plain: memds.Plain{C: core}}).(ds.Batching)
	} else {
		r.dsi = &memds.Plain{C: core}
	}
	return r
}

func (r *storeRun) open() error {
	st, err := store.NewStore[*vhdr.Header](r.dsi,
		r.storeOpts()...)
	if err != nil {
		return err
	}
	if err := func() error { sc, end := startCtx(); defer end(); return st.Start(sc) }(); err != nil {
		return err
	}
	r.st = st
	r.stopped = false
	// handlers are per Store object: re-register the scripted ones
	for i := range r.scripts {
		r.register(i)
	}
	return nil
}

// storeOpts: batch and cache sizes of the case; every third configuration also switches the store's metrics on
func (r *storeRun) storeOpts() []store.Option {
	o := []store.Option{store.WithWriteBatchSize(r.cfg.batch), store.WithStoreCacheSize(r.cfg.cache), store.WithIndexCacheSize(r.cfg.cache)}
	if r.cfg.cache == 3 {
		o = append(o, store.WithMetrics())
	}
	return o
}

func (r *storeRun) register(i int) {
	r.st.OnDelete(func(ctx context.Context, height uint64) error {
		r.hmu.Lock() // the parallel delete path calls handlers from several workers
		defer r.hmu.Unlock()
		idx := r.counts[i]
		r.counts[i]++
		// same context values (read transaction, write batch) but already cancelled: never parks
		cctx, cancel := context.WithCancel(ctx)
		cancel()
		h, err := r.st.GetByHeight(cctx, height)
		r.calls = append(r.calls, hcall{i, height, err == nil && h != nil && h.H == height, r.scripts[i][idx] != 0})
		switch r.scripts[i][idx] {
		case 'e':
			return errors.New("scripted handler error")
		case 'p':
			panic("scripted handler panic")
		case 'n': // the handler's own bookkeeping lives in a datastore too: its error wraps datastore.ErrNotFound
			return fmt.Errorf("scripted handler: my record for %d: %w", height, ds.ErrNotFound)
		}
		return nil
	})
}

func parseScript(s string) map[int]byte {
	m := map[int]byte{}
	if s == "-" || s == "" {
		return m
	}
	for _, f := range strings.Split(s, ",") {
		k, _ := strconv.Atoi(f[:len(f)-1])
		m[k] = f[len(f)-1]
	}
	return m
}

func errClass(err error) string {
	switch {
	case err == nil:
		return "ok"
	case errors.Is(err, header.ErrNotFound):
		return "notfound"
	case errors.Is(err, header.ErrEmptyStore):
		return "empty"
	case errors.Is(err, context.Canceled), errors.Is(err, context.DeadlineExceeded):
		return "ctx"
	case errors.Is(err, memds.ErrInjected):
		return "fault"
	}
	return "err"
}

var cancelled = func() context.Context {
	c, cancel := context.WithCancel(context.Background())
	cancel()
	return c
}()

// observe renders the public view of the store plus the raw datastore keys.
func (r *storeRun) observe(withRanges bool) string {
	ctx := context.Background()
	n := r.cfg.n
	hd, tl := "-", "-"
	var headH, tailH uint64
	if h, err := r.st.Head(ctx); err == nil {
		hd, headH = utoa(h.H), h.H
		if !sameHeader(h, r.hdr(h.H)) {
			hd = "?" + hd
		}
	}
	if t, err := r.st.Tail(ctx); err == nil {
		tl, tailH = utoa(t.H), t.H
		if !sameHeader(t, r.hdr(t.H)) {
			tl = "?" + tl
		}
	}
	_, _ = headH, tailH
	byh, get, has, hasat := make([]byte, n+2), make([]byte, n+2), make([]byte, n+2), make([]byte, n+2)
	for h := 0; h <= n+1; h++ {
		// GetByHeight with an already-cancelled context: a call that would park on heightSub returns
		// the context error at once ("B" = would block), everything else is unaffected by the context.
		x, err := r.st.GetByHeight(cancelled, uint64(h))
		switch {
		case err == nil && x != nil && x.H == uint64(h) && sameHeader(x, r.hdr(uint64(h))):
			byh[h] = 'F'
		case err == nil:
			byh[h] = 'W'
		case errors.Is(err, header.ErrNotFound):
			byh[h] = 'N'
		case errors.Is(err, context.Canceled):
			byh[h] = 'B'
		default:
			byh[h] = 'E'
		}
		get[h], has[h], hasat[h] = 'N', 'N', 'N'
		if h >= 1 {
			want := r.hdr(uint64(h))
			y, err := r.st.Get(ctx, want.Hash())
			switch {
			case err == nil && sameHeader(y, want):
				get[h] = 'F'
			case err == nil:
				get[h] = 'W'
			case errors.Is(err, header.ErrNotFound):
				get[h] = 'N'
			default:
				get[h] = 'E'
			}
			ok, err := r.st.Has(ctx, want.Hash())
			if err != nil && !errors.Is(err, header.ErrNotFound) {
				has[h] = 'E'
			} else if ok {
				has[h] = 'F'
			}
		}
		if r.st.HasAt(ctx, uint64(h)) {
			hasat[h] = 'F'
		}
	}
	out := fmt.Sprintf("ob head=%s tail=%s height=%d byh=%s get=%s has=%s hasat=%s %s",
		hd, tl, r.st.Height(), byh, get, has, hasat, r.rawKeys())
	if withRanges {
		var rs []string
		for a := 0; a <= n+1; a++ {
			for b := a; b <= n+2; b++ {
				if (a+b)%3 != 0 && b-a > 2 { // thin out long ranges
					continue
				}
				rs = append(rs, fmt.Sprintf("%d-%d:%s", a, b, r.rangeClass(uint64(a), uint64(b))))
			}
		}
		out += " rng=" + strings.Join(rs, ",")
	}
	return out
}

func (r *storeRun) rangeClass(a, b uint64) string {
	hs, err := r.st.GetRange(cancelled, a, b)
	if err != nil {
		return "e"
	}
	if uint64(len(hs)) != b-a {
		return "bad"
	}
	for i, h := range hs {
		if h == nil || h.H != a+uint64(i) || !sameHeader(h, r.hdr(h.H)) {
			return "bad"
		}
	}
	return "k"
}

func (r *storeRun) hdr(h uint64) *vhdr.Header {
	if h >= 1 && int(h) <= len(r.chain) {
		return r.chain[h-1]
	}
	return nil
}

func sameHeader(a, b *vhdr.Header) bool {
	if a == nil || b == nil {
		return a == b
	}
	return string(a.Hash()) == string(b.Hash())
}

// rawKeys: hdr=<heights with a hash key> idx=<heights with a height key> hp=<h|-> tp=<h|->
func (r *storeRun) rawKeys() string {
	return rawKeysOf(r.core.Snapshot(), r.byHash)
}

func rawKeysOf(snap map[string][]byte, byHash map[string]uint64) string {
	var hdr, idx []int
	hp, tp := "-", "-"
	ptr := func(v []byte) string {
		var hs header.Hash
		if err := hs.UnmarshalJSON(v); err != nil {
			return "?"
		}
		if h, ok := byHash[hs.String()]; ok {
			return utoa(h)
		}
		return "?"
	}
	for k, v := range snap {
		k = strings.TrimPrefix(k, "/headers/")
		switch {
		case k == "head":
			hp = ptr(v)
		case k == "tail":
			tp = ptr(v)
		default:
			if h, ok := byHash[k]; ok {
				hdr = append(hdr, int(h))
			} else if n, err := strconv.Atoi(k); err == nil {
				idx = append(idx, n)
			} else {
				hdr = append(hdr, -1)
			}
		}
	}
	sort.Ints(hdr)
	sort.Ints(idx)
	return "hdr=" + joinInts(hdr) + " idx=" + joinInts(idx) + " hp=" + hp + " tp=" + tp
}

func joinInts(xs []int) string {
	if len(xs) == 0 {
		return "-"
	}
	s := make([]string, len(xs))
	for i, x := range xs {
		s[i] = strconv.Itoa(x)
	}
	return strings.Join(s, ",")
}

func (r *storeRun) callsString() string {
	if len(r.calls) == 0 {
		return "-"
	}
	if r.cfg.par > 0 {
		// parallel path: the order across heights is not defined; per height the handlers still run in order
		sort.SliceStable(r.calls, func(i, j int) bool { return r.calls[i].height < r.calls[j].height })
	}
	s := make([]string, len(r.calls))
	for i, c := range r.calls {
		s[i] = fmt.Sprintf("%d@%d:%d", c.handler, c.height, b2i(c.readable))
		if c.failed {
			s[i] += ":e"
		}
	}
	return strings.Join(s, ",")
}

// do executes one op on the real store and prints the op and its observation.
func (r *storeRun) do(op storeOp, withRanges bool) {
	ctx := context.Background()
	emit("%s", op.String())
	out.Flush()
	switch op.kind {
	case "append":
		hs := make([]*vhdr.Header, len(op.hs))
		for i, h := range op.hs {
			hs[i] = r.hdr(h)
		}
		if err := r.st.Append(ctx, hs...); err != nil {
			emit("ob res=%s", errClass(err))
		}
	case "sync":
		if err := r.st.Sync(ctx); err != nil {
			emit("ob res=%s", errClass(err))
		}
	case "observe":
		emit("%s", r.observe(withRanges))
	case "delete":
		r.calls = r.calls[:0]
		err := r.st.DeleteRange(ctx, op.a, op.b)
		res := "ok"
		if err != nil {
			res = "err"
		}
		emit("ob res=%s calls=%s", res, r.callsString())
	case "ondelete":
		r.scripts = append(r.scripts, parseScript(op.script))
		r.counts = append(r.counts, 0)
		r.register(len(r.scripts) - 1)
	case "restart":
		res := "ok"
		if err := r.st.Stop(ctx); err != nil {
			res = "stoperr"
		}
		if err := r.open(); err != nil {
			res = "starterr"
		}
		emit("ob res=%s", res)
	}
	out.Flush()
}

func (r *storeRun) close() {
	if r.cfg.par > 0 {
		store.VerifSetDeleteRangeParallelThreshold(10000)
	}
	if r.st != nil {
		c, cancel := context.WithTimeout(context.Background(), 2*time.Second)
		_ = r.st.Stop(c)
		cancel()
	}
}

var caseNo int

func runStoreCase(prop string, cfg storeCfg, ops []storeOp, withRanges bool) {
	caseNo++
	emit("case %d %s batch=%d cache=%d flavour=%s n=%d", caseNo, prop, cfg.batch, cfg.cache, cfg.flavour, cfg.n)
	r := newStoreRun(cfg, memds.NewCore())
	if err := r.open(); err != nil {
		emit("ob res=openerr")
		emit("end")
		return
	}
	for _, op := range ops {
		r.do(op, withRanges)
	}
	r.close()
	emit("end")
}
