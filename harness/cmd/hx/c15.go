package main

import (
	"context"
	"errors"
	"strings"
	"time"

	header "github.com/celestiaorg/go-header"
	hsync "github.com/celestiaorg/go-header/sync"

	"verifharness/vhdr"
)

func init() { cmds["C15"] = runC15 }

// one bifurcation case: store holds 1..subj, the candidate is the chain header at `nw` (or a forgery at
// that height), non-adjacent verification succeeds up to distance R (0 = unlimited).
func c15Case(chain []*vhdr.Header, subj, nw int, R uint64, forged bool, failH int) {
	c15CaseAt(0, chain, subj, nw, R, forged, failH)
}

// c15CaseAt: the chain sits at heights base+1.. (all printed heights are relative to base)
func c15CaseAt(base uint64, chain []*vhdr.Header, subj, nw int, R uint64, forged bool, failH int) {
	ctx := context.Background()
	vhdr.TrustRange.Store(R)
	defer vhdr.TrustRange.Store(0)
	st := newStoreWith(chain, 1, subj)
	defer st.Stop(ctx) //nolint:errcheck
	g := &scriptGetter{chain: chain, base: base, failH: map[uint64]bool{}, budget: 20000}
	if failH > 0 {
		g.failH[base+uint64(failH)] = true
	}
	if failH == -2 { // every intermediate is answered with ErrNotFound
		g.nfAll = true
		g.budget = 3000
	}
	s, _ := newSyncer(g, st, hsync.WithBlockTime(time.Second), hsync.WithTrustingPeriod(1000*time.Hour))
	cand := chain[nw-1]
	if forged {
		c := *cand
		cand = &vhdr.Header{Chain: c.Chain, H: c.H, T: c.T, Prev: c.Prev, Salt: 99, Forged: true}
	}
	err := s.VerifIncomingNetworkHead(ctx, cand)
	res := "ok"
	if err != nil {
		var ve *header.VerifyError
		switch {
		case errors.Is(err, errBudget):
			res = "nonterminating"
		case errors.Is(err, errGetter), errors.Is(err, header.ErrNotFound) && !strings.Contains(err.Error(), "bifurcation: new head failed"):
			res = "geterr"
		case strings.Contains(err.Error(), "bifurcation: new head failed"):
			res = "final"
		case errors.As(err, &ve) && ve.SoftFailure:
			res = "soft"
		case errors.As(err, &ve):
			res = "hard"
		default:
			res = "other"
		}
	}
	rel := func(h uint64) uint64 { return h - base } // (wraps for requests below the chain: they show up as huge numbers)
	reqs := heightsOf(g.take(), "H:")
	if res == "nonterminating" && len(reqs) > 300 {
		reqs = reqs[:300] // (a spinning descent: the verdict says it all)
	}
	for i := range reqs {
		reqs[i] = rel(reqs[i])
	}
	var pend []uint64
	for _, r := range s.VerifPendingHeights() {
		for _, h := range r {
			pend = append(pend, rel(h))
		}
	}
	local := uint64(0)
	if h, e := s.VerifLocalHead(ctx); e == nil {
		local = rel(h.H)
	}
	stHead := uint64(0)
	_ = st.Sync(ctx)
	if h, e := st.Head(ctx); e == nil {
		stHead = rel(h.H)
	}
	emit("C15 subj=%d new=%d R=%d forged=%d failH=%d => res=%s requests=%s pending=%s local=%d storehead=%d",
		subj, nw, R, b2i(forged), failH, res, joinU(reqs), joinU(pend), local, stHead)
}

// c15HeadPath: the candidate arrives through the Head-request path. The subjective head (store 1..subj) is not recent, so
// Syncer.Head asks the network; the exchange answers the way p2p.Exchange does - the head verified against the trusted head,
// paired with the soft failure when it is beyond the trust range - and the Syncer has to bifurcate with the trusted getter.
func c15HeadPath(chain []*vhdr.Header, subj, nw int, R uint64, forged bool) {
	ctx := context.Background()
	vhdr.TrustRange.Store(R)
	defer vhdr.TrustRange.Store(0)
	st := newStoreWith(chain, 1, subj)
	defer st.Stop(ctx) //nolint:errcheck
	g := &scriptGetter{chain: chain, failH: map[uint64]bool{}, budget: 20000}
	cand := chain[nw-1]
	if forged {
		c := *cand
		cand = &vhdr.Header{Chain: c.Chain, H: c.H, T: c.T, Prev: c.Prev, Salt: 99, Forged: true}
	}
	g.headFn = func(trusted *vhdr.Header) (*vhdr.Header, error) {
		if trusted == nil {
			return cand, nil
		}
		if err := header.Verify(trusted, cand); err != nil {
			var ve *header.VerifyError
			if errors.As(err, &ve) && ve.SoftFailure {
				return cand, err
			}
			return nil, header.ErrNotFound // a hard failure: the exchange drops the answer
		}
		return cand, nil
	}
	s, _ := newSyncer(g, st, hsync.WithBlockTime(time.Second), hsync.WithTrustingPeriod(1000*time.Hour), hsync.WithRecencyThreshold(time.Nanosecond))
	h, err := s.Head(ctx)
	res := "err"
	if err == nil && h != nil {
		res = utoa(h.H)
	}
	reqs := heightsOf(g.take(), "H:")
	local := uint64(0)
	if lh, e := s.VerifLocalHead(ctx); e == nil {
		local = lh.H
	}
	emit("C15 kind=headpath subj=%d new=%d R=%d forged=%d => head=%s requests=%s local=%d", subj, nw, R, b2i(forged), res, joinU(reqs), local)
}

func runC15(tier string, r *rng) {
	n := 260
	chain := vhdr.Chain("A", n, time.Now().Add(-2*time.Hour).UnixNano(), 1e9, 0)
	for _, c := range [][3]int{{3, 4, 0}, {3, 12, 0}, {3, 12, 2}, {3, 27, 5}, {10, 74, 7}, {20, 120, 4}} {
		c15HeadPath(chain, c[0], c[1], uint64(c[2]), false)
		c15HeadPath(chain, c[0], c[1], uint64(c[2]), true)
	}
	// exhaustive small grid: distance × trust range × forged, plus a getter failure at every requested height
	maxD := 24
	if tier == "thorough" {
		maxD = 60
	}
	for d := 1; d <= maxD; d++ {
		for R := uint64(0); R <= uint64(d); R++ {
			if R > 8 && R%5 != 0 && R != uint64(d) {
				continue
			}
			for _, forged := range []bool{false, true} {
				c15Case(chain, 3, 3+d, R, forged, -1)
			}
		}
	}
	// the getter has nothing at all: ErrNotFound for every intermediate
	for _, dr := range [][2]int{{9, 1}, {17, 3}, {40, 7}, {2, 1}} {
		c15Case(chain, 3, 3+dr[0], uint64(dr[1]), false, -2)
	}
	// getter failures: for sampled (d, R) fail each height in turn
	for _, dr := range [][2]int{{9, 1}, {9, 2}, {17, 3}, {24, 5}, {40, 7}} {
		d, R := dr[0], uint64(dr[1])
		for h := 4; h < 3+d; h++ {
			c15Case(chain, 3, 3+d, R, false, h)
		}
	}
	// the same bisections at the 64-bit boundaries: heights around 2^63 (sums of two heights wrap) and near 2^64
	for _, base := range []uint64{1<<63 - 20, 1 << 63, ^uint64(0) - 300} {
		bc := vhdr.ChainFrom("A", base, 120, time.Now().Add(-2*time.Hour).UnixNano(), 1e9, 0)
		for _, dr := range [][2]int{{9, 1}, {17, 3}, {40, 7}, {33, 0}, {100, 5}} {
			c15CaseAt(base, bc, 3, 3+dr[0], uint64(dr[1]), false, -1)
			c15CaseAt(base, bc, 3, 3+dr[0], uint64(dr[1]), true, -1)
		}
	}
	// random larger distances
	k := 150
	if tier == "thorough" {
		k = 2500
	}
	for i := 0; i < k; i++ {
		subj := 1 + r.intn(20)
		d := 2 + r.intn(n-subj-2)
		R := uint64(1 + r.intn(d))
		if r.chance(1, 3) {
			R = uint64(1 + r.intn(6))
		}
		failH := -1
		if r.chance(1, 5) {
			failH = subj + 1 + r.intn(d)
		}
		c15Case(chain, subj, subj+d, R, r.chance(1, 6), failH)
	}
}
