package main

import (
	"fmt"
	"strings"

	hsync "github.com/celestiaorg/go-header/sync"
)

// rangesCases drive the Syncer's pending set (sync/ranges.go) through scripts of operations (hook VerifRangesRun) and
// print what every operation returned; the driver runs the same script on GoHeader.Sync.Ranges.
//
//	realistic scripts: what setLocalHead and the sync loop do - ascending heads with gaps, First / Get(to) / Remove(to)
//	  with `to` a cached head, heads arriving between Get and Remove, a late lower head after the set was emptied, Prune;
//	arbitrary scripts: every operation with arbitrary small arguments (ends right above / below / inside a range).
func rangesCases(prop, tier string, r *rng) {
	emitRanges := func(ops []string) {
		call := make([]string, len(ops))
		for i, o := range ops {
			call[i] = strings.Replace(o, ":", " ", 1)
		}
		res := hsync.VerifRangesRun(call)
		for i := range res {
			res[i] = strings.ReplaceAll(strings.ReplaceAll(res[i], "start=", "start:"), " ", "@")
		}
		emit("%s kind=ranges ops=%s => res=%s", prop, strings.Join(ops, "/"), strings.Join(res, "|"))
	}
	op := func(name string, x int) string { return fmt.Sprintf("%s:%d", name, x) }
	// fixed: the F41 shape (the head right below the finished target, alone in the set), ends around every boundary
	emitRanges([]string{"add:24", "first", "get:24", "remove:24", "add:23", "first", "get:24", "remove:24", "first", "dump"})
	emitRanges([]string{"add:10", "add:11", "add:12", "first", "get:9", "get:10", "get:11", "get:12", "get:13", "get:14", "remove:13", "dump"})
	emitRanges([]string{"add:10", "add:11", "add:20", "head", "first", "get:20", "add:21", "add:30", "remove:20", "first", "get:20", "remove:20", "first", "get:20", "dump", "head"})
	emitRanges([]string{"add:10", "add:12", "add:14", "prune:11", "dump", "prune:12", "dump", "prune:13", "head", "add:5", "dump", "first", "dump"})
	emitRanges([]string{"first", "get:3", "remove:3", "head", "prune:7", "dump"})
	{
		// a long burst of heads while nothing is taken out (a stalled sync): every one of them is cached
		var ops []string
		for h := 11; h <= 320; h++ {
			ops = append(ops, op("add", h))
		}
		ops = append(ops, "head", "first", op("get", 320), op("remove", 300), "head", "dump")
		emitRanges(ops)
	}
	n := 150
	if tier == "thorough" {
		n = 4000
	}
	for i := 0; i < n; i++ {
		var ops []string
		if i%3 != 0 {
			// realistic
			h := 1 + r.intn(20)
			var cached []int
			for j := 0; j < 3+r.intn(12); j++ {
				switch m := r.intn(12); {
				case m < 5:
					if r.intn(3) == 0 {
						h += 2 + r.intn(5)
					} else {
						h++
					}
					ops = append(ops, op("add", h))
					cached = append(cached, h)
				case m < 8 && len(cached) > 0:
					to := cached[r.intn(len(cached))]
					ops = append(ops, "first", op("get", to))
					for k := r.intn(3); k > 0; k-- { // heads learned between Get and Remove
						h++
						ops = append(ops, op("add", h))
						cached = append(cached, h)
					}
					ops = append(ops, op("remove", to))
					var keep []int
					for _, c := range cached {
						if c > to {
							keep = append(keep, c)
						}
					}
					cached = keep
					if r.intn(2) == 0 {
						ops = append(ops, "first", op("get", to))
					}
				case m < 9 && len(cached) == 0 && h > 2:
					// a late head below what was already synced lands in the emptied set
					ops = append(ops, op("add", h-1-r.intn(2)), "first", op("get", h), op("remove", h))
				case m < 10:
					p := h - r.intn(4)
					if p < 0 {
						p = 0
					}
					ops = append(ops, op("prune", p))
					cached = nil
				case m < 11:
					ops = append(ops, "head")
				default:
					ops = append(ops, "dump")
				}
			}
			ops = append(ops, "dump", "head")
		} else {
			for j := 0; j < 4+r.intn(14); j++ {
				x := 1 + r.intn(14)
				switch r.intn(9) {
				case 0, 1, 2:
					ops = append(ops, op("add", x))
				case 3:
					ops = append(ops, "first")
				case 4:
					ops = append(ops, "first", op("get", x))
				case 5:
					ops = append(ops, "first", op("remove", x))
				case 6:
					ops = append(ops, op("get", x))
				case 7:
					ops = append(ops, op("prune", x))
				default:
					ops = append(ops, "dump")
				}
			}
			ops = append(ops, "dump", "head")
		}
		emitRanges(ops)
	}
}
