package main

import (
	"bufio"
	"context"
	"errors"
	"fmt"
	"os"
	"strconv"
	"strings"

	header "github.com/celestiaorg/go-header"

	"verifharness/vhdr"
)

// one PRNG state (splitmix64) derived from VERIF_SEED: every random choice comes from here.
type rng struct{ s uint64 }

func (r *rng) next() uint64 {
	r.s += 0x9e3779b97f4a7c15
	z := r.s
	z = (z ^ (z >> 30)) * 0xbf58476d1ce4e5b9
	z = (z ^ (z >> 27)) * 0x94d049bb133111eb
	return z ^ (z >> 31)
}
func (r *rng) intn(n int) int {
	if n <= 0 {
		return 0
	}
	return int(r.next() % uint64(n))
}
func (r *rng) chance(num, den int) bool { return r.intn(den) < num }

func seed() uint64 {
	if s := os.Getenv("VERIF_SEED"); s != "" {
		if v, err := strconv.ParseUint(s, 10, 64); err == nil {
			return v
		}
	}
	return 1
}

var out = bufio.NewWriterSize(os.Stdout, 1<<20)

func emit(format string, a ...any) { fmt.Fprintf(out, format+"\n", a...) }

func b2i(b bool) int {
	if b {
		return 1
	}
	return 0
}

var sentinels = []struct {
	err error
	tag string
}{
	{header.ErrZeroHeader, "zero"}, {header.ErrWrongChainID, "chain"}, {header.ErrKnownHeader, "known"},
	{header.ErrUnorderedTime, "unordered"}, {header.ErrFromFuture, "future"},
	{header.ErrEmptyRange, "empty"}, {header.ErrNonAdjacentRange, "nonadj"},
}

// classify an error returned by header.Verify / VerifyRange into the model's VErr tag.
func verrTag(err error) string {
	if err == nil {
		return "nil"
	}
	var ve *header.VerifyError
	if !errors.As(err, &ve) {
		return "notve"
	}
	// the returned error itself must be the *VerifyError ("always returns VerifyError")
	if _, ok := err.(*header.VerifyError); !ok {
		return "notve-top"
	}
	soft := b2i(ve.SoftFailure)
	for _, s := range sentinels {
		if errors.Is(err, s.err) {
			return fmt.Sprintf("%s:%d", s.tag, soft)
		}
	}
	return fmt.Sprintf("type:%d", soft)
}

func tvName(vk uint8) string { return vhdr.VKNames[vk] }

func itoa(i int) string     { return strconv.Itoa(i) }
func itoa64(i int64) string { return strconv.FormatInt(i, 10) }
func utoa(u uint64) string  { return strconv.FormatUint(u, 10) }

// corpus: /verif/corpus/<prop>/*.case — minimised past failures, run first.
func loadCorpus(prop string) []string {
	dir := os.Getenv("VERIF_CORPUS")
	if dir == "" {
		dir = "/verif/corpus"
	}
	ents, err := os.ReadDir(dir + "/" + prop)
	if err != nil {
		return nil
	}
	var outp []string
	for _, e := range ents {
		if b, err := os.ReadFile(dir + "/" + prop + "/" + e.Name()); err == nil {
			outp = append(outp, string(b))
		}
	}
	return outp
}

// kvOf parses the "k=v" tokens of the input side of a case line.
func kvOf(line string) map[string]string {
	out := map[string]string{}
	if i := strings.Index(line, " => "); i >= 0 {
		line = line[:i]
	}
	for _, t := range strings.Fields(line) {
		if j := strings.Index(t, "="); j > 0 {
			out[t[:j]] = t[j+1:]
		}
	}
	return out
}

func atoiList(s string) []int {
	var out []int
	for _, f := range strings.Split(s, ",") {
		v, _ := strconv.Atoi(f)
		out = append(out, v)
	}
	return out
}

// startCtx returns a context for a component's Start call and the function that ends it right afterwards: a
// component must not keep depending on its start-up context (lifecycle hooks hand out short-lived ones).
func startCtx() (context.Context, context.CancelFunc) {
	return context.WithCancel(context.Background())
}
