package main

import (
	"context"
	"fmt"
	"github.com/celestiaorg/go-header/store"
	"strings"
	"sync"
	"time"
	"verifharness/vhdr"

	"verifharness/memds"
)

func init() { cmds["C06"] = runC06 }

// crashCase: run a history on a logging datastore, then reopen a fresh real Store on EVERY prefix of
// the commit log (each direct write / each batch commit atomic), observe it, append the continuation
// of the chain and observe Head again.
func crashCase(r *rng, tier string) {
	cfg := storeCfg{
		batch:   []int{1, 2, 3, 64}[r.intn(4)],
		cache:   []int{2, 512}[r.intn(2)],
		flavour: []string{"plain", "ctx"}[r.intn(2)],
		n:       6 + r.intn(7),
	}
	caseNo++
	emit("case %d C06 batch=%d cache=%d flavour=%s n=%d ranges=0", caseNo, cfg.batch, cfg.cache, cfg.flavour, cfg.n)
	core := memds.NewCore()
	run := newStoreRun(cfg, core)
	if err := run.open(); err != nil {
		emit("ob res=openerr")
		emit("end")
		return
	}
	g := &storeGen{r: r, prop: "C06", run: run}
	steps := 4 + r.intn(8)
	for i := 0; i < steps; i++ {
		switch m := r.intn(100); {
		case m < 25 && g.top > 0:
			g.syncObserve()
			g.do(g.deleteOp())
			g.do(storeOp{kind: "observe"})
		case m < 33:
			g.syncObserve()
			g.do(storeOp{kind: "restart"})
			g.do(storeOp{kind: "observe"})
		default:
			g.do(g.appendOp())
			if r.chance(1, 2) {
				g.syncObserve()
			}
		}
	}
	g.syncObserve()
	run.close() // Stop: final flush
	log := append([]memds.Write(nil), core.Log...)
	emit("log n=%d", len(log))
	for k := 0; k <= len(log); k++ {
		img := memds.Image(log, k)
		desc := "-"
		if k > 0 {
			desc = describeWrite(log[k-1], run.byHash)
		}
		crashReopen(cfg, run, img, k, desc)
	}
	emit("end")
}

// crashDirected: append 1..n, sync, one DeleteRange(a, b), sync, stop - then a crash at EVERY write boundary of that history.
// (head-side, tail-side and whole-chain deletions on both datastore flavours: on a context-aware datastore the deletes of a
// range travel in ONE write batch, so no boundary inside the range exists there.)
func crashDirected(flavour string, batch, n int, a, b uint64) {
	cfg := storeCfg{batch: batch, cache: 512, flavour: flavour, n: n}
	caseNo++
	emit("case %d C06 batch=%d cache=%d flavour=%s n=%d ranges=0", caseNo, cfg.batch, cfg.cache, cfg.flavour, cfg.n)
	core := memds.NewCore()
	run := newStoreRun(cfg, core)
	if err := run.open(); err != nil {
		emit("ob res=openerr")
		emit("end")
		return
	}
	g := &storeGen{prop: "C06", run: run}
	var hs []uint64
	for h := 1; h <= n; h++ {
		hs = append(hs, uint64(h))
	}
	g.do(storeOp{kind: "append", hs: hs})
	g.syncObserve()
	g.do(storeOp{kind: "delete", a: a, b: b})
	g.do(storeOp{kind: "observe"})
	g.syncObserve()
	run.close()
	log := append([]memds.Write(nil), core.Log...)
	emit("log n=%d", len(log))
	for k := 0; k <= len(log); k++ {
		img := memds.Image(log, k)
		desc := "-"
		if k > 0 {
			desc = describeWrite(log[k-1], run.byHash)
		}
		crashReopen(cfg, run, img, k, desc)
	}
	emit("end")
}

// pointerFaultCase: the datastore refuses exactly one write of a POINTER key (tail or head) - the direct write DeleteRange makes
// after the headers of the range are gone. Whatever DeleteRange returns, the Tail and Head the running Store reports resolve
// to stored headers, and a clean Stop/Start reports the same Head and Tail as before.
func pointerFaultCase(flavour, which string, n int, a, b uint64) {
	ctx := context.Background()
	cfg := storeCfg{batch: 3, cache: 512, flavour: flavour, n: n}
	core := memds.NewCore()
	run := newStoreRun(cfg, core)
	if err := run.open(); err != nil {
		panic(err)
	}
	_ = run.st.Append(ctx, run.chain[:n]...)
	_ = run.st.Sync(ctx)
	failed := 0
	core.Fault = func(w memds.Write) bool {
		if failed == 0 && len(w.Ops) == 1 && strings.HasSuffix(w.Ops[0].Key, "/"+which) { // a Put of the pointer, or (wipe) its Delete
			failed++
			return true
		}
		return false
	}
	res := errs(run.st.DeleteRange(ctx, a, b))
	core.Fault = nil
	resolve := func(st *store.Store[*vhdr.Header]) (string, string, string) {
		hd, tl, between := "none", "none", "ok"
		h, eh := st.Head(ctx)
		t, et := st.Tail(ctx)
		if eh == nil {
			hd = utoa(h.H)
			if x, err := st.Get(ctx, h.Hash()); err != nil || x == nil {
				hd += "!dangling"
			}
		}
		if et == nil {
			tl = utoa(t.H)
			if x, err := st.Get(ctx, t.Hash()); err != nil || x == nil {
				tl += "!dangling"
			}
		}
		if eh == nil && et == nil {
			for x := t.H; x <= h.H; x++ {
				if y, err := st.GetByHeight(cancelled, x); err != nil || y.H != x {
					between = "missing:" + utoa(x)
					break
				}
			}
		}
		return hd, tl, between
	}
	h1, t1, b1 := resolve(run.st)
	if h1 == "none" && t1 == "none" && b == uint64(n)+1 {
		// wiped: the chain goes on (appending the continuation makes Head advance to the new tip)
		_ = run.st.Append(ctx, run.chain[n:n+2]...)
		_ = run.st.Sync(ctx)
		h1, t1, b1 = resolve(run.st)
		h1 = "wiped+" + h1
	}
	restart := "ok"
	if err := run.st.Stop(ctx); err != nil {
		restart = "stoperr"
	}
	if err := run.open(); err != nil {
		restart = "starterr"
		emit("C06 kind=pointerfault flavour=%s key=%s n=%d a=%d b=%d => injected=%d delete=%s head1=%s tail1=%s between1=%s restart=%s head2=- tail2=- between2=-", flavour, which, n, a, b, failed, res, h1, t1, b1, restart)
		return
	}
	h2, t2, b2 := resolve(run.st)
	run.close()
	emit("C06 kind=pointerfault flavour=%s key=%s n=%d a=%d b=%d => injected=%d delete=%s head1=%s tail1=%s between1=%s restart=%s head2=%s tail2=%s between2=%s", flavour, which, n, a, b, failed, res, h1, t1, b1, restart, h2, t2, b2)
}

func describeWrite(w memds.Write, byHash map[string]uint64) string {
	var parts []string
	for _, o := range w.Ops {
		k := strings.TrimPrefix(o.Key, "/headers/")
		verb := "put"
		if o.Val == nil {
			verb = "del"
		}
		if h, ok := byHash[k]; ok {
			parts = append(parts, fmt.Sprintf("%s:hdr%d", verb, h))
		} else {
			parts = append(parts, fmt.Sprintf("%s:%s", verb, k))
		}
	}
	kind := "D"
	if w.Batch {
		kind = "B"
	}
	s := kind + "[" + strings.Join(parts, ",") + "]"
	if len(s) > 300 {
		s = s[:300] + "…"
	}
	return s
}

func crashReopen(cfg storeCfg, orig *storeRun, img map[string][]byte, k int, desc string) {
	ctx := context.Background()
	core := memds.FromImage(img)
	r2 := newStoreRun(cfg, core)
	r2.chain, r2.byHash = orig.chain, orig.byHash
	imgKeys := rawKeysOf(img, orig.byHash)
	start := "ok"
	if err := r2.open(); err != nil {
		emit("crash k=%d w=%s img: %s => start=err", k, desc, imgKeys)
		return
	}
	ob := r2.observe(false)
	// continuation: the two headers above the highest stored height (or above Head)
	cont := "-"
	top, have := uint64(0), false
	if h, err := r2.st.Head(ctx); err == nil {
		top, have = h.H, true
	} else {
		// no Head (empty or dangling pointer dropped): continue above the highest stored header
		for k := range img {
			if h, ok := orig.byHash[strings.TrimPrefix(k, "/headers/")]; ok && h > top {
				top, have = h, true
			}
		}
	}
	if have {
		var hs []uint64
		for h := top + 1; h <= top+2 && int(h) <= len(r2.chain); h++ {
			hs = append(hs, h)
		}
		if len(hs) > 0 {
			hh := make([]string, len(hs))
			for i, h := range hs {
				hh[i] = utoa(h)
				_ = r2.st.Append(ctx, r2.hdr(h))
			}
			_ = r2.st.Sync(ctx)
			if nh, err := r2.st.Head(ctx); err == nil {
				cont = fmt.Sprintf("%s>%d", strings.Join(hh, ","), nh.H)
			} else {
				cont = strings.Join(hh, ",") + ">none"
			}
		}
	}
	emit("crash k=%d w=%s img: %s => start=%s %s cont=%s", k, desc, imgKeys, start, strings.TrimPrefix(ob, "ob "), cont)
	r2.close()
}

// faultCase: N consecutive failing flush commits at a given position; the history must end in the
// same state as without faults (commits are retried; nothing lost or half applied).
func faultCase(r *rng) {
	cfg := storeCfg{batch: []int{1, 2, 3}[r.intn(3)], cache: 512, flavour: []string{"plain", "ctx"}[r.intn(2)], n: 6 + r.intn(6)}
	caseNo++
	nFail, at := []int{1, 2, 3, 5, 8}[r.intn(5)], r.intn(6) // (a bounded retry loop has to be outlasted: up to 8 consecutive failing commits)
	emit("case %d C06 batch=%d cache=%d flavour=%s n=%d ranges=0 faults=%d@%d", caseNo, cfg.batch, cfg.cache, cfg.flavour, cfg.n, nFail, at)
	core := memds.NewCore()
	seen, failed := 0, 0
	core.Fault = func(w memds.Write) bool {
		if !w.Batch || len(w.Ops) == 0 || w.Ops[0].Val == nil {
			return false // only flush commits (batches of puts)
		}
		seen++
		if seen > at && failed < nFail {
			failed++
			return true
		}
		return false
	}
	run := newStoreRun(cfg, core)
	if err := run.open(); err != nil {
		emit("ob res=openerr")
		emit("end")
		return
	}
	g := &storeGen{r: r, prop: "C06", run: run}
	for i := 0; i < 5+r.intn(6); i++ {
		g.do(g.appendOp())
		if r.chance(1, 2) {
			g.syncObserve()
		}
	}
	g.syncObserve()
	g.do(storeOp{kind: "restart"})
	g.do(storeOp{kind: "observe"})
	emit("faults injected=%d", failed)
	run.close()
	emit("end")
}

// stopDuringSyncCase: Stop overlaps a Sync while headers are still unflushed (big write batch). The flush loop is parked in
// a datastore read; a Sync request, an Append and Stop queue up behind it; then it goes on. Everything whose Append
// returned before Stop must be there after the restart.
func stopDuringSyncCase(trial int) {
	ctx := context.Background()
	chain := vhdr.Chain("A", 8, storeT0, int64(time.Second), 0)
	core := memds.NewCore()
	open := func() *store.Store[*vhdr.Header] {
		st, err := store.NewStore[*vhdr.Header](&memds.Plain{C: core}, store.WithWriteBatchSize(64))
		if err != nil {
			panic(err)
		}
		if err := func() error { sc, end := startCtx(); defer end(); return st.Start(sc) }(); err != nil {
			panic(err)
		}
		return st
	}
	st := open()
	_ = st.Append(ctx, chain[:5]...)
	_ = st.Sync(ctx)
	parked, release := make(chan struct{}), make(chan struct{})
	var fired sync.Once
	core.GetGate = func(string) { fired.Do(func() { close(parked); <-release }) }
	_ = st.Append(ctx, chain[5]) // the flush loop takes it and parks in its first datastore read
	was := "yes"
	select {
	case <-parked:
	case <-time.After(time.Second):
		was = "no"
	}
	sdone, stopdone := make(chan error, 1), make(chan error, 1)
	go func() { c, cancel := context.WithTimeout(ctx, 3*time.Second); defer cancel(); sdone <- st.Sync(c) }()
	time.Sleep(2 * time.Millisecond)
	actx, cancelA := context.WithTimeout(ctx, time.Second)
	aerr := st.Append(actx, chain[6]) // returns (queued) before Stop is called
	cancelA()
	go func() { c, cancel := context.WithTimeout(ctx, 3*time.Second); defer cancel(); stopdone <- st.Stop(c) }()
	time.Sleep(2 * time.Millisecond)
	close(release)
	core.GetGate = nil
	serr, sterr := <-sdone, <-stopdone
	st2 := open()
	defer st2.Stop(ctx) //nolint:errcheck
	hd := uint64(0)
	if h, err := st2.Head(ctx); err == nil {
		hd = h.H
	}
	var stored []string
	for h := 1; h <= 8; h++ {
		if x, err := st2.GetByHeight(cancelled, uint64(h)); err == nil && x.H == uint64(h) {
			stored = append(stored, itoa(h))
		}
	}
	want := 6
	if aerr == nil {
		want = 7
	}
	emit("C06 kind=stopsync trial=%d => parked=%s sync=%s append=%s stop=%s head=%d stored=%s want=%d", trial, was, errs(serr), errs(aerr), errs(sterr), hd,
		strings.Join(stored, ","), want)
}

func runC06(tier string, r *rng) {
	for trial := 0; trial < 8; trial++ { // which ready channel the flush loop's select takes is the runtime's choice
		stopDuringSyncCase(trial)
	}
	for _, fl := range []string{"ctx", "plain"} {
		crashDirected(fl, 3, 10, 6, 11) // head side
		crashDirected(fl, 3, 10, 1, 5)  // tail side
		crashDirected(fl, 64, 8, 1, 9)  // whole chain
	}
	for _, fl := range []string{"plain", "ctx"} {
		pointerFaultCase(fl, "tail", 10, 1, 5)
		pointerFaultCase(fl, "head", 10, 6, 11)
		pointerFaultCase(fl, "tail", 10, 1, 10)
		pointerFaultCase(fl, "head", 10, 1, 11) // whole chain: the wipe deletes both pointer keys
		pointerFaultCase(fl, "tail", 10, 1, 11)
	}
	n, nf := 25, 40
	if tier == "thorough" {
		n, nf = 600, 600
	}
	for i := 0; i < n; i++ {
		crashCase(r, tier)
	}
	for i := 0; i < nf; i++ {
		faultCase(r)
	}
}
