package main

import (
	"context"
	"fmt"
	"strings"

	"verifharness/memds"
)

func init() { cmds["C06"] = runC06 }

// crashCase: run a history on a logging datastore, then reopen a fresh real Store on EVERY prefix of
// the commit log (each direct write / each batch commit atomic), observe it, append the continuation
// of the chain and observe Head again.
func crashCase(r *rng, tier string) {
	cfg := storeCfg{
		batch:   []int{1, 2, 3, 64}[r.intn(4)],
		cache:   []int{2, 512}[r.intn(2)],
		flavour: []string{"plain", "ctx"}[r.intn(2)],
		n:       6 + r.intn(7),
	}
	caseNo++
	emit("case %d C06 batch=%d cache=%d flavour=%s n=%d ranges=0", caseNo, cfg.batch, cfg.cache, cfg.flavour, cfg.n)
	core := memds.NewCore()
	run := newStoreRun(cfg, core)
	if err := run.open(); err != nil {
		emit("ob res=openerr")
		emit("end")
		return
	}
	g := &storeGen{r: r, prop: "C06", run: run}
	steps := 4 + r.intn(8)
	for i := 0; i < steps; i++ {
		switch m := r.intn(100); {
		case m < 25 && g.top > 0:
			g.syncObserve()
			g.do(g.deleteOp())
			g.do(storeOp{kind: "observe"})
		case m < 33:
			g.syncObserve()
			g.do(storeOp{kind: "restart"})
			g.do(storeOp{kind: "observe"})
		default:
			g.do(g.appendOp())
			if r.chance(1, 2) {
				g.syncObserve()
			}
		}
	}
	g.syncObserve()
	run.close() // Stop: final flush
	log := append([]memds.Write(nil), core.Log...)
	emit("log n=%d", len(log))
	for k := 0; k <= len(log); k++ {
		img := memds.Image(log, k)
		desc := "-"
		if k > 0 {
			desc = describeWrite(log[k-1], run.byHash)
		}
		crashReopen(cfg, run, img, k, desc)
	}
	emit("end")
}

func describeWrite(w memds.Write, byHash map[string]uint64) string {
	var parts []string
	for _, o := range w.Ops {
		k := strings.TrimPrefix(o.Key, "/headers/")
		verb := "put"
		if o.Val == nil {
			verb = "del"
		}
		if h, ok := byHash[k]; ok {
			parts = append(parts, fmt.Sprintf("%s:hdr%d", verb, h))
		} else {
			parts = append(parts, fmt.Sprintf("%s:%s", verb, k))
		}
	}
	kind := "D"
	if w.Batch {
		kind = "B"
	}
	s := kind + "[" + strings.Join(parts, ",") + "]"
	if len(s) > 300 {
		s = s[:300] + "…"
	}
	return s
}

func crashReopen(cfg storeCfg, orig *storeRun, img map[string][]byte, k int, desc string) {
	ctx := context.Background()
	core := memds.FromImage(img)
	r2 := newStoreRun(cfg, core)
	r2.chain, r2.byHash = orig.chain, orig.byHash
	imgKeys := rawKeysOf(img, orig.byHash)
	start := "ok"
	if err := r2.open(); err != nil {
		emit("crash k=%d w=%s img: %s => start=err", k, desc, imgKeys)
		return
	}
	ob := r2.observe(false)
	// continuation: the two headers above the highest stored height (or above Head)
	cont := "-"
	top, have := uint64(0), false
	if h, err := r2.st.Head(ctx); err == nil {
		top, have = h.H, true
	} else {
		// no Head (empty or dangling pointer dropped): continue above the highest stored header
		for k := range img {
			if h, ok := orig.byHash[strings.TrimPrefix(k, "/headers/")]; ok && h > top {
				top, have = h, true
			}
		}
	}
	if have {
		var hs []uint64
		for h := top + 1; h <= top+2 && int(h) <= len(r2.chain); h++ {
			hs = append(hs, h)
		}
		if len(hs) > 0 {
			hh := make([]string, len(hs))
			for i, h := range hs {
				hh[i] = utoa(h)
				_ = r2.st.Append(ctx, r2.hdr(h))
			}
			_ = r2.st.Sync(ctx)
			if nh, err := r2.st.Head(ctx); err == nil {
				cont = fmt.Sprintf("%s>%d", strings.Join(hh, ","), nh.H)
			} else {
				cont = strings.Join(hh, ",") + ">none"
			}
		}
	}
	emit("crash k=%d w=%s img: %s => start=%s %s cont=%s", k, desc, imgKeys, start, strings.TrimPrefix(ob, "ob "), cont)
	r2.close()
}

// faultCase: N consecutive failing flush commits at a given position; the history must end in the
// same state as without faults (commits are retried; nothing lost or half applied).
func faultCase(r *rng) {
	cfg := storeCfg{batch: []int{1, 2, 3}[r.intn(3)], cache: 512, flavour: []string{"plain", "ctx"}[r.intn(2)], n: 6 + r.intn(6)}
	caseNo++
	nFail, at := 1+r.intn(3), r.intn(6)
	emit("case %d C06 batch=%d cache=%d flavour=%s n=%d ranges=0 faults=%d@%d", caseNo, cfg.batch, cfg.cache, cfg.flavour, cfg.n, nFail, at)
	core := memds.NewCore()
	seen, failed := 0, 0
	core.Fault = func(w memds.Write) bool {
		if !w.Batch || len(w.Ops) == 0 || w.Ops[0].Val == nil {
			return false // only flush commits (batches of puts)
		}
		seen++
		if seen > at && failed < nFail {
			failed++
			return true
		}
		return false
	}
	run := newStoreRun(cfg, core)
	if err := run.open(); err != nil {
		emit("ob res=openerr")
		emit("end")
		return
	}
	g := &storeGen{r: r, prop: "C06", run: run}
	for i := 0; i < 5+r.intn(6); i++ {
		g.do(g.appendOp())
		if r.chance(1, 2) {
			g.syncObserve()
		}
	}
	g.syncObserve()
	g.do(storeOp{kind: "restart"})
	g.do(storeOp{kind: "observe"})
	emit("faults injected=%d", failed)
	run.close()
	emit("end")
}

func runC06(tier string, r *rng) {
	n, nf := 25, 40
	if tier == "thorough" {
		n, nf = 600, 600
	}
	for i := 0; i < n; i++ {
		crashCase(r, tier)
	}
	for i := 0; i < nf; i++ {
		faultCase(r)
	}
}
