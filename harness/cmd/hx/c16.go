package main

import (
	"context"
	"errors"
	"fmt"
	"strings"
	"time"

	header "github.com/celestiaorg/go-header"
	hsync "github.com/celestiaorg/go-header/sync"

	"verifharness/vhdr"
)

func init() { cmds["C16"] = runC16 }

// chainWithTimes builds heights 1..len(ts) with the given unix-nano times.
func chainWithTimes(ts []int64) []*vhdr.Header {
	out := make([]*vhdr.Header, 0, len(ts))
	var prev *vhdr.Header
	for i, t := range ts {
		h := &vhdr.Header{Chain: "A", H: uint64(i + 1), T: t}
		if prev != nil {
			h.Prev = prev.Hash()
		}
		out = append(out, h)
		prev = h
	}
	return out
}

// subjTail calls VerifSubjectiveTail and gives up after `limit` of REAL time, whatever the call blocks on (a lock that is
// never released is not released by a context either): "hang".
func subjTail(s *hsync.Syncer[*vhdr.Header], ctx context.Context, head *vhdr.Header, limit time.Duration) error {
	done := make(chan error, 1)
	go func() {
		defer func() {
			if r := recover(); r != nil {
				done <- errPanicked
			}
		}()
		_, err := s.VerifSubjectiveTail(ctx, head)
		done <- err
	}()
	select {
	case err := <-done:
		return err
	case <-time.After(limit):
		return context.DeadlineExceeded
	}
}

var errPanicked = errors.New("panicked")

func guard(f func() string) (res string) {
	defer func() {
		if r := recover(); r != nil {
			res = "panic"
		}
	}()
	return f()
}

// level 1a: estimateTailHeight on (trustingPeriod, blockTime, head height)
func c16Estimate(tp, bt time.Duration, headH uint64) {
	g := &scriptGetter{}
	st := newStoreWith(nil, 1, 0)
	defer st.Stop(context.Background()) //nolint:errcheck
	s, _ := newSyncer(g, st)
	s.VerifSetPolicy(tp, bt, 0)
	head := &vhdr.Header{Chain: "A", H: headH, T: time.Now().UnixNano()}
	res := guard(func() string { return utoa(s.VerifEstimateTailHeight(head)) })
	emit("C16 kind=estimate tp=%d bt=%d headH=%d => res=%s", int64(tp), int64(bt), headH, res)
}

// level 1b: findTailHeight on a store holding lo..n of a chain with the given times
func c16Find(ts []int64, lo int, window, bt time.Duration, netHead *vhdr.Header) {
	ctx := context.Background()
	chain := chainWithTimes(ts)
	st := newStoreWith(chain, lo, len(chain))
	defer st.Stop(ctx) //nolint:errcheck
	g := &scriptGetter{chain: chain}
	s, _ := newSyncer(g, st, hsync.WithPruningWindow(window))
	s.VerifSetPolicy(1000*time.Hour, bt, 0)
	oldTail, head := chain[lo-1], chain[len(chain)-1]
	if netHead != nil {
		head = netHead
	}
	res := guard(func() string {
		cctx, cancel := context.WithTimeout(ctx, 1500*time.Millisecond)
		defer cancel()
		h, err := s.VerifFindTailHeight(cctx, oldTail, head)
		if err != nil {
			return "err"
		}
		return utoa(h)
	})
	tsS := make([]string, 0, len(ts))
	for i := lo - 1; i < len(ts); i++ {
		tsS = append(tsS, itoa64(ts[i]))
	}
	emit("C16 kind=find window=%d bt=%d tailH=%d headH=%d headT=%d storeH=%d times=%s => res=%s",
		int64(window), int64(bt), lo, head.H, head.T, len(chain), strings.Join(tsS, ","), res)
}

// level 2: subjectiveTail end to end (renewTail + moveTail) on the real store; observe the store afterwards
// options of the next c16Move call (kept out of its signature)
var c16FailFirst, c16Pend bool

func c16Move(ts []int64, lo int, window, bt time.Duration, netExtra int, syncFromHeight uint64, label string) {
	ctx := context.Background()
	failFirst, pend := c16FailFirst, c16Pend
	c16FailFirst, c16Pend = false, false
	chain := chainWithTimes(ts)
	local := len(chain) - netExtra // the local store holds lo..local, the network has the whole chain
	st := newStoreWith(chain, lo, local)
	defer st.Stop(ctx) //nolint:errcheck
	g := &scriptGetter{chain: chain}
	opts := []hsync.Option{hsync.WithPruningWindow(window)}
	if syncFromHeight > 0 {
		opts = append(opts, hsync.WithSyncFromHeight(syncFromHeight))
	}
	s, _ := newSyncer(g, st, opts...)
	s.VerifSetPolicy(1000*time.Hour, bt, 0)
	head := chain[len(chain)-1]
	if pend {
		// the verified network head is ahead of the store: it sits in the pending ranges while the tail is renewed
		_ = s.VerifIncomingNetworkHead(ctx, head)
	}
	if failFirst {
		// a transient getter failure on the first attempt only
		g.mu.Lock()
		g.failH = map[uint64]bool{}
		for h := 1; h <= len(chain); h++ {
			g.failH[uint64(h)] = true
		}
		g.mu.Unlock()
	}
	run := func() string {
		return guard(func() string {
			// bounded: a tail computation that parks on a height above the store head never returns by itself
			cctx, cancel := context.WithTimeout(ctx, 1500*time.Millisecond)
			defer cancel()
			err := subjTail(s, cctx, head, 3*time.Second)
			if errors.Is(err, errPanicked) {
				return "panic"
			}
			if errors.Is(err, context.DeadlineExceeded) {
				return "hang"
			}
			if err != nil {
				if errors.Is(err, header.ErrNotFound) {
					return "errNotFound"
				}
				return "err"
			}
			return "ok"
		})
	}
	r1 := run()
	_ = st.Sync(ctx)
	if failFirst {
		g.mu.Lock()
		g.failH = nil
		g.mu.Unlock()
	}
	r2 := run() // a second attempt must not fail if the first did not: no wedge
	_ = st.Sync(ctx)
	tl, hd := uint64(0), uint64(0)
	if t, err := st.Tail(ctx); err == nil {
		tl = t.H
	}
	if h, err := st.Head(ctx); err == nil {
		hd = h.H
	}
	// which heights of lo..local are still readable
	var gone []string
	youngestGone := int64(0)
	for h := lo; h <= local; h++ {
		if _, err := st.GetByHeight(cancelled, uint64(h)); err != nil {
			gone = append(gone, itoa(h))
			youngestGone = ts[h-1]
		}
	}
	gs := strings.Join(gone, ",")
	if gs == "" {
		gs = "-"
	}
	// a tail moved DOWN must have been filled in: readable heights in [tail, lo)
	filled := 0
	for h := int(tl); h >= 1 && h < lo; h++ {
		if x, err := st.GetByHeight(cancelled, uint64(h)); err == nil && x.H == uint64(h) {
			filled++
		}
	}
	// spacing facts for the retention clause
	maxGap, minGap := int64(0), int64(1<<62)
	for i := 1; i < len(ts); i++ {
		d := ts[i] - ts[i-1]
		if d > maxGap {
			maxGap = d
		}
		if d < minGap {
			minGap = d
		}
	}
	emit("C16 kind=move label=%s failfirst=%d pend=%d window=%d bt=%d lo=%d local=%d headH=%d headT=%d maxgap=%d mingap=%d sfh=%d => r1=%s r2=%s tail=%d head=%d gone=%s youngestGoneT=%d filled=%d",
		label, b2i(failFirst), b2i(pend), int64(window), int64(bt), lo, local, head.H, head.T, maxGap, minGap, syncFromHeight, r1, r2, tl, hd, gs, youngestGone, filled)
}

// a gossiped header the Syncer REFUSES (its height is already known) must not drive pruning: with a started
// Syncer (verifier registered) and a settled tail, the refused delivery leaves Tail and every stored header alone.
func c16KnownGossip(n int, window, dt time.Duration, at int) {
	ctx := context.Background()
	now := time.Now().UnixNano()
	t0 := now - int64(5*time.Second) - int64(n-1)*int64(time.Second)
	chain := vhdr.Chain("A", n, t0, int64(time.Second), 0)
	st := newStoreWith(chain, 1, n-1)
	defer st.Stop(ctx) //nolint:errcheck
	g := &scriptGetter{chain: chain}
	s, sub := newSyncer(g, st, hsync.WithPruningWindow(window), hsync.WithBlockTime(time.Second),
		hsync.WithRecencyThreshold(10*time.Hour), hsync.WithTrustingPeriod(100*time.Hour))
	sctx, cancel := context.WithTimeout(ctx, 3*time.Second)
	err := s.Start(sctx)
	cancel()
	if err != nil {
		emit("C16 kind=knowngossip n=%d window=%d dt=%d at=%d => start=err verdict=- tail0=0 tail1=0 gone=-", n, int64(window), int64(dt), at)
		return
	}
	defer s.Stop(ctx) //nolint:errcheck
	settle := func() uint64 {
		last, stable := uint64(0), 0
		for i := 0; i < 300 && stable < 15; i++ {
			time.Sleep(2 * time.Millisecond)
			_ = st.Sync(ctx)
			tl := uint64(0)
			if t, err := st.Tail(ctx); err == nil {
				tl = t.H
			}
			if tl == last {
				stable++
			} else {
				last, stable = tl, 0
			}
		}
		return last
	}
	hctx, cancel2 := context.WithTimeout(ctx, 2*time.Second)
	_, _ = s.Head(hctx)
	cancel2()
	if sub.verifier != nil {
		// the newest header arrives by gossip: accepted, and pruning is triggered lazily by it
		actx, cancelA := context.WithTimeout(ctx, 2*time.Second)
		_ = sub.verifier(actx, chain[n-1])
		cancelA()
	}
	tail0 := settle()
	c := chain[at-1]
	hd := &vhdr.Header{Chain: c.Chain, H: c.H, T: chain[n-1].T + int64(dt), Prev: c.Prev, Salt: 7}
	verdict := "refuse"
	vctx, cancel3 := context.WithTimeout(ctx, 2*time.Second)
	if sub.verifier == nil {
		verdict = "noverifier"
	} else if err := sub.verifier(vctx, hd); err == nil {
		verdict = "accept"
	}
	cancel3()
	tail1 := settle()
	var gone []string
	for h := int(tail0); h <= n && h >= 1; h++ {
		if _, err := st.GetByHeight(cancelled, uint64(h)); err != nil {
			gone = append(gone, itoa(h))
		}
	}
	gs := strings.Join(gone, ",")
	if gs == "" {
		gs = "-"
	}
	emit("C16 kind=knowngossip n=%d window=%d dt=%d at=%d => start=ok verdict=%s tail0=%d tail1=%d gone=%s",
		n, int64(window), int64(dt), at, verdict, tail0, tail1, gs)
}

func runC16(tier string, r *rng) {
	sec, hour := time.Second, time.Hour
	now := time.Now().UnixNano()
	for _, k := range [][4]int{{100, 50, 30, 100}, {100, 50, 49, 100}, {100, 50, 10, 90}, {60, 20, 15, 60}, {100, 50, 30, 60}} {
		c16KnownGossip(k[0], time.Duration(k[1])*sec, time.Duration(k[2])*sec, k[3])
	}
	// 1a: parameter grid accepted by Validate (trustingPeriod != 0; blockTime unconstrained, default 0)
	for _, tp := range []time.Duration{sec, hour, 336 * hour, -hour} {
		for _, bt := range []time.Duration{0, 1, sec, 6 * sec, hour, 400 * hour, -sec} {
			for _, hh := range []uint64{1, 2, 10, 3600, 1 << 40, ^uint64(0)} {
				c16Estimate(tp, bt, hh)
			}
		}
	}
	// chains: n headers ending at `now`, spacing `sp`
	mk := func(n int, sp time.Duration) []int64 {
		ts := make([]int64, n)
		for i := range ts {
			ts[i] = now - int64(n-1-i)*int64(sp)
		}
		return ts
	}
	type shape struct {
		name string
		ts   []int64
	}
	irregular := func(n int) []int64 {
		ts := make([]int64, n)
		t := now - int64(n)*int64(10*sec)
		for i := range ts {
			t += int64(1+r.intn(20)) * int64(sec)
			ts[i] = t
		}
		return ts
	}
	halted := func() []int64 { // 30 blocks 1 s apart, 3 h pause, 10 more
		ts := mk(30, sec)
		for i := range ts {
			ts[i] -= int64(3 * hour)
		}
		return append(ts, mk(10, sec)...)
	}
	shapes := []shape{
		{"even1s-100", mk(100, sec)}, {"even1s-11", mk(11, sec)}, {"dense1s-200", mk(200, sec)},
		{"sparse20m-11", mk(11, 20*time.Minute)}, {"halted", halted()}, {"irregular-60", irregular(60)},
	}
	for _, sh := range shapes {
		n := len(sh.ts)
		for _, window := range []time.Duration{10 * sec, 50 * sec, 100 * sec, hour, 1000 * hour} {
			for _, bt := range []time.Duration{0, sec, 2 * sec, 30 * sec, 10 * time.Minute} {
				for _, lo := range []int{1, n / 3} {
					if lo < 1 {
						lo = 1
					}
					c16Find(sh.ts, lo, window, bt, nil)
					c16Move(sh.ts, lo, window, bt, 0, 0, sh.name)
				}
			}
		}
	}
	// the node was offline: the network head is far above the local head
	for _, extra := range []int{50, 350} {
		c16Move(mk(400, sec), 1, 100*sec, sec, extra, 0, "offline")
	}
	// a long chain much denser than the configured block time: the first prune walks down hundreds of headers
	c16Move(mk(3000, sec), 1, 1200*sec, 4*sec, 0, 0, "dense-long")
	// offline across a halt: local store 1..100 (1 s apart), 10 min pause, 3 more blocks on the network only
	{
		ts := mk(100, sec)
		for i := range ts {
			ts[i] -= int64(10 * time.Minute)
		}
		ts = append(ts, mk(3, sec)...)
		c16Move(ts, 1, 50*sec, sec, 3, 0, "offline-halt")
		c16Move(ts, 40, 50*sec, sec, 3, 0, "offline-halt")
		c16Move(ts, 1, 50*sec, sec, 2, 0, "offline-halt")
	}
	// SyncFromHeight up and down
	for _, sfh := range []uint64{1, 5, 40, 80} {
		c16Move(mk(80, sec), 20, hour, sec, 0, sfh, "syncFromHeight")
	}
	// ... with a transient getter failure on the first attempt (the retry must go through), and with the verified
	// network head still pending (store lags by several headers) while the tail is moved down
	for _, sfh := range []uint64{5, 10} {
		c16FailFirst = true
		c16Move(mk(80, sec), 20, hour, sec, 0, sfh, "syncFromHeight-fault")
		c16Pend = true
		c16Move(mk(80, sec), 20, hour, sec, 6, sfh, "syncFromHeight-pending")
		c16FailFirst, c16Pend = true, true
		c16Move(mk(80, sec), 20, hour, sec, 3, sfh, "syncFromHeight-fault-pending")
	}
	// SyncFromHash pins the tail: renewals with newer heads keep it there, whatever SyncFromHeight / the window say
	for _, sfh := range []uint64{0, 80} {
		c16HashPin(mk(100, sec), 50, 10*sec, sec, sfh)
	}
	// the very first tail selection, over an EMPTY store, with the request for the chosen tail header failing once
	for _, sfh := range []uint64{0, 7, 60} { // 60: the configured tail IS the network head
		c16EmptyInit(mk(60, sec), 30*sec, sec, sfh)
	}
	c16EmptyInit(mk(1, sec), 30*sec, sec, 0) // a chain that has only its first header: tail = head
	c16EmptyInit(mk(3, sec), 30*sec, sec, 0)
	k := 40
	if tier == "thorough" {
		k = 800
	}
	for i := 0; i < k; i++ {
		n := 5 + r.intn(120)
		var ts []int64
		switch r.intn(3) {
		case 0:
			ts = mk(n, time.Duration(1+r.intn(30))*sec)
		case 1:
			ts = irregular(n)
		default:
			ts = halted()
			n = len(ts)
		}
		window := time.Duration(1+r.intn(600)) * sec
		bt := time.Duration(r.intn(40)) * sec
		lo := 1 + r.intn(n/2+1)
		c16Find(ts, lo, window, bt, nil)
		c16Move(ts, lo, window, bt, 0, 0, fmt.Sprintf("rand%d", i))
	}
}

// c16EmptyInit: empty store; the getter serves the head but fails every GetByHeight during the first attempt.
// The first attempt returns an error (it does not panic), stores nothing, and the second one goes through.
func c16EmptyInit(ts []int64, window, bt time.Duration, syncFromHeight uint64) {
	ctx := context.Background()
	chain := chainWithTimes(ts)
	st := newStoreWith(chain, 1, 0)
	defer st.Stop(ctx) //nolint:errcheck
	g := &scriptGetter{chain: chain, failH: map[uint64]bool{}}
	for h := 1; h <= len(chain); h++ {
		g.failH[uint64(h)] = true
	}
	opts := []hsync.Option{hsync.WithPruningWindow(window)}
	if syncFromHeight > 0 {
		opts = append(opts, hsync.WithSyncFromHeight(syncFromHeight))
	}
	s, _ := newSyncer(g, st, opts...)
	s.VerifSetPolicy(1000*time.Hour, bt, 0)
	head := chain[len(chain)-1]
	run := func() string {
		return guard(func() string {
			cctx, cancel := context.WithTimeout(ctx, 1500*time.Millisecond)
			defer cancel()
			err := subjTail(s, cctx, head, 3*time.Second)
			if errors.Is(err, errPanicked) {
				return "panic"
			}
			if errors.Is(err, context.DeadlineExceeded) {
				return "hang"
			}
			if err != nil {
				return "err"
			}
			return "ok"
		})
	}
	r1 := run()
	_ = st.Sync(ctx)
	stored1 := st.Height()
	g.mu.Lock()
	g.failH = nil
	g.mu.Unlock()
	r2 := run()
	_ = st.Sync(ctx)
	tl := uint64(0)
	if t, err := st.Tail(ctx); err == nil {
		tl = t.H
	}
	emit("C16 kind=emptyinit sfh=%d n=%d => r1=%s stored1=%d r2=%s tail=%d", syncFromHeight, len(chain), r1, stored1, r2, tl)
}

// c16HashPin: the store holds pin..n-3 and its tail IS the header named by SyncFromHash. Two renewals with newer heads
// follow. SyncFromHash has priority over SyncFromHeight and the pruning window: the tail stays, nothing is deleted.
func c16HashPin(ts []int64, pin int, window, bt time.Duration, syncFromHeight uint64) {
	ctx := context.Background()
	chain := chainWithTimes(ts)
	n := len(chain)
	st := newStoreWith(chain, pin, n-3)
	defer st.Stop(ctx) //nolint:errcheck
	g := &scriptGetter{chain: chain}
	opts := []hsync.Option{hsync.WithPruningWindow(window), hsync.WithSyncFromHash(chain[pin-1].Hash().String())}
	if syncFromHeight > 0 {
		opts = append(opts, hsync.WithSyncFromHeight(syncFromHeight))
	}
	s, _ := newSyncer(g, st, opts...)
	s.VerifSetPolicy(1000*time.Hour, bt, 0)
	var rs []string
	for _, hd := range []int{n - 2, n - 1, n} {
		rs = append(rs, guard(func() string {
			cctx, cancel := context.WithTimeout(ctx, 1500*time.Millisecond)
			defer cancel()
			if err := subjTail(s, cctx, chain[hd-1], 3*time.Second); err != nil {
				if errors.Is(err, errPanicked) {
					return "panic"
				}
				return "err"
			}
			return "ok"
		}))
		_ = st.Sync(ctx)
	}
	tl := uint64(0)
	if t, err := st.Tail(ctx); err == nil {
		tl = t.H
	}
	gone := 0
	for h := pin; h <= n-3; h++ {
		if x, err := st.GetByHeight(cancelled, uint64(h)); err != nil || x.H != uint64(h) {
			gone++
		}
	}
	emit("C16 kind=hashpin pin=%d sfh=%d n=%d => renewals=%s tail=%d gone=%d", pin, syncFromHeight, n, strings.Join(rs, ","), tl, gone)
}
