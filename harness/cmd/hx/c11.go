package main

import (
	"context"
	"errors"
	"fmt"
	"github.com/libp2p/go-libp2p/core/event"
	mocknet "github.com/libp2p/go-libp2p/p2p/net/mock"
	"strings"
	"sync"
	"time"
	"verifharness/peers"

	pubsub "github.com/libp2p/go-libp2p-pubsub"
	pubsub_pb "github.com/libp2p/go-libp2p-pubsub/pb"

	header "github.com/celestiaorg/go-header"
	"github.com/celestiaorg/go-header/p2p"

	"verifharness/vhdr"
)

func init() { cmds["C11"] = runC11 }

type c11Payload struct {
	name string
	data []byte
	vd   any // msg.ValidatorData preset (local publish path)
	want *vhdr.Header
}

func c11Payloads() []c11Payload {
	now := time.Now().UnixNano()
	good := &vhdr.Header{Chain: "A", H: 7, T: now - 1e9, Prev: []byte{1, 2, 3}}
	enc := func(h *vhdr.Header) []byte { b, _ := h.MarshalBinary(); return b }
	bad := &vhdr.Header{Chain: "A", H: 7, T: now, Bad: true}
	h0 := &vhdr.Header{Chain: "A", H: 0, T: now}
	noChain := &vhdr.Header{H: 7, T: now}
	pv := &vhdr.Header{Chain: "A", H: 7, T: now, PV: true}
	g := enc(good)
	return []c11Payload{
		{"valid", g, nil, good},
		{"validVD", g, good, good},            // locally published: ValidatorData carries the header
		{"badValidate", enc(bad), nil, nil},   // decodes, Validate fails
		{"badValidateVD", enc(bad), bad, nil}, // locally published header that fails Validate
		{"height0", enc(h0), nil, nil},        // Validate fails
		{"noChain", enc(noChain), nil, nil},   // Validate fails
		{"empty", []byte{}, nil, nil},         // undecodable
		{"garbage", []byte{0xde, 0xad, 0xbe, 0xef, 0x7b}, nil, nil},
		{"truncated", g[:len(g)/2], nil, nil},
		{"unknownField", []byte(`{"c":"A","h":7,"t":1,"zzz":1}`), nil, nil},
		{"wrongTypeVD", g, "not a header", nil}, // type assertion panics
		{"panicDecode", vhdr.PanicBytes, nil, nil},
		{"panicValidate", enc(pv), nil, nil},
		{"panicValidateVD", enc(pv), pv, nil},
	}
}

var c11Outcomes = []string{"nil", "soft", "hard", "wrapSoft", "wrapHard", "plain", "panic", "unset", "late-nil", "late-soft", "late-hard", "late-wrapSoft"}

func c11Verifier(outcome string) func(context.Context, *vhdr.Header) error {
	return func(context.Context, *vhdr.Header) error {
		switch outcome {
		case "soft":
			return &header.VerifyError{Reason: errors.New("x"), SoftFailure: true}
		case "hard":
			return &header.VerifyError{Reason: errors.New("x")}
		case "wrapSoft":
			return fmt.Errorf("w: %w", &header.VerifyError{Reason: errors.New("x"), SoftFailure: true})
		case "wrapHard":
			return fmt.Errorf("w: %w", &header.VerifyError{Reason: errors.New("x")})
		case "plain":
			return errors.New("plain")
		case "panic":
			panic("scripted verifier panic")
		}
		return nil
	}
}

func runC11(tier string, r *rng) {
	for _, withMetrics := range []bool{false, true} {
		runC11With(withMetrics)
	}
	c11Gossip()
	c11Sequence()
	c11Lifecycle(r)
	for _, restarts := range []int{0, 1, 2, -1} {
		c11Restart(restarts)
	}
}

func runC11With(withMetrics bool) {
	for _, p := range c11Payloads() {
		for _, oc := range c11Outcomes {
			var sopts []p2p.SubscriberOption
			if withMetrics {
				sopts = append(sopts, p2p.WithSubscriberMetrics())
			}
			sub, err := p2p.NewSubscriber[*vhdr.Header](nil, nil, sopts...)
			if err != nil {
				panic(err)
			}
			ctx := context.Background()
			late := false
			if oc == "unset" {
				ctx = cancelled // no verifier registered: the validator waits for one until its context ends
			} else if strings.HasPrefix(oc, "late-") {
				// the message is already parked in the validator when the verifier is registered (start-up window)
				late = true
				oc2 := strings.TrimPrefix(oc, "late-")
				go func() {
					time.Sleep(15 * time.Millisecond)
					_ = sub.SetVerifier(c11Verifier(oc2))
				}()
				var cancel context.CancelFunc
				ctx, cancel = context.WithTimeout(ctx, 2*time.Second)
				defer cancel()
			} else if err := sub.SetVerifier(c11Verifier(oc)); err != nil {
				panic(err)
			}
			_ = late
			topic := "t"
			msg := &pubsub.Message{Message: &pubsub_pb.Message{Data: p.data, Topic: &topic}, ValidatorData: p.vd}
			res, crashed := func() (res pubsub.ValidationResult, crashed bool) {
				defer func() {
					if recover() != nil {
						crashed = true
					}
				}()
				return sub.VerifVerifyMessage(ctx, "", msg), false
			}()
			verdict := map[pubsub.ValidationResult]string{
				pubsub.ValidationAccept: "accept", pubsub.ValidationIgnore: "ignore", pubsub.ValidationReject: "reject"}[res]
			if crashed {
				verdict = "CRASH"
			}
			// delivered value: on accept ValidatorData must be the decoded header
			deliv := "-"
			if verdict == "accept" {
				deliv = "wrong"
				if h, ok := msg.ValidatorData.(*vhdr.Header); ok && p.want != nil && sameHeader(h, p.want) {
					deliv = "same"
				}
			}
			emit("C11 payload=%s outcome=%s => verdict=%s delivered=%s", p.name, strings.TrimPrefix(oc, "late-"), verdict, deliv)
		}
	}
}

// c11Gossip: two real gossipsub nodes. The receiver's verifier is still busy with the first valid header when a
// second one is gossiped; both are accepted by the verifier, so both must be shown to it and be delivered.
func c11Gossip() {
	ctx, cancel := context.WithTimeout(context.Background(), 20*time.Second)
	defer cancel()
	mn, err := mocknet.FullMeshLinked(2)
	if err != nil {
		panic(err)
	}
	defer mn.Close()
	chain := vhdr.Chain("A", 3, time.Now().Add(-time.Minute).UnixNano(), 1e9, 0)
	newSub := func(i int, verifier func(context.Context, *vhdr.Header) error) *p2p.Subscriber[*vhdr.Header] {
		ps, err := pubsub.NewGossipSub(ctx, mn.Hosts()[i], pubsub.WithMessageSignaturePolicy(pubsub.StrictNoSign))
		if err != nil {
			panic(err)
		}
		sub, err := p2p.NewSubscriber[*vhdr.Header](ps, pubsub.DefaultMsgIdFn, p2p.WithSubscriberNetworkID(peers.NetworkID))
		if err != nil {
			panic(err)
		}
		if err := sub.Start(ctx); err != nil {
			panic(err)
		}
		if err := sub.SetVerifier(verifier); err != nil {
			panic(err)
		}
		return sub
	}
	entered := make(chan uint64, 16)
	release := make(chan struct{})
	receiver := newSub(0, func(ctx context.Context, h *vhdr.Header) error {
		entered <- h.H
		select {
		case <-release:
			return nil
		case <-ctx.Done():
			return ctx.Err()
		}
	})
	sender := newSub(1, func(context.Context, *vhdr.Header) error { return nil })
	defer receiver.Stop(ctx) //nolint:errcheck
	defer sender.Stop(ctx)   //nolint:errcheck
	evs, err := mn.Hosts()[0].EventBus().Subscribe(&event.EvtPeerIdentificationCompleted{})
	if err != nil {
		panic(err)
	}
	if err := mn.ConnectAllButSelf(); err != nil {
		panic(err)
	}
	select {
	case <-evs.Out():
	case <-time.After(3 * time.Second):
	}
	ssub, err := sender.Subscribe()
	if err != nil {
		panic(err)
	}
	defer ssub.Cancel()
	rsub, err := receiver.Subscribe()
	if err != nil {
		panic(err)
	}
	defer rsub.Cancel()
	first, second := "lost", "lost"
	if err := sender.Broadcast(ctx, chain[0], pubsub.WithReadiness(pubsub.MinTopicSize(1))); err != nil {
		first = "broadcasterr"
	}
	select {
	case h := <-entered:
		if h == 1 {
			first = "seen"
		}
	case <-time.After(5 * time.Second):
	}
	// (gossip latency is no part of the property: the second header is broadcast until the receiver's verifier has seen it;
	// every broadcast is a new message)
	for attempt := 0; attempt < 6 && second != "seen"; attempt++ {
		if err := sender.Broadcast(ctx, chain[1]); err != nil {
			second = "broadcasterr"
			break
		}
		select {
		case h := <-entered:
			if h == 2 {
				second = "seen"
			}
		case <-time.After(2 * time.Second):
		}
	}
	close(release)
	distinct := map[uint64]bool{}
	for i := 0; i < 12 && len(distinct) < 2; i++ {
		rctx, rcancel := context.WithTimeout(ctx, 1500*time.Millisecond)
		if h, err := rsub.NextHeader(rctx); err == nil && h != nil && (h.H == 1 || h.H == 2) {
			distinct[h.H] = true
		}
		rcancel()
	}
	delivered := len(distinct)
	emit("C11 kind=gossip => first=%s second=%s delivered=%d", first, second, delivered)
}

// c11Restart: the Subscriber is stopped and started again `restarts` times before anything is gossiped. Afterwards a header
// the verifier rejects is broadcast locally (must be refused, the verifier consulted), a bare gossipsub peer publishes bytes
// that are no header and then a valid header: exactly the valid header is delivered, and reading it does not panic.
func c11Restart(restarts int) {
	stopOpen := restarts < 0 // Stop is called while a Subscription is still open: it fails, and the topic stays joined
	if stopOpen {
		restarts = 0
	}
	ctx, cancel := context.WithTimeout(context.Background(), 20*time.Second)
	defer cancel()
	mn, err := mocknet.FullMeshLinked(2)
	if err != nil {
		panic(err)
	}
	defer mn.Close()
	chain := vhdr.Chain("A", 3, time.Now().Add(-time.Minute).UnixNano(), 1e9, 0)
	ps0, err := pubsub.NewGossipSub(ctx, mn.Hosts()[0], pubsub.WithMessageSignaturePolicy(pubsub.StrictNoSign))
	if err != nil {
		panic(err)
	}
	ps1, err := pubsub.NewGossipSub(ctx, mn.Hosts()[1], pubsub.WithMessageSignaturePolicy(pubsub.StrictNoSign))
	if err != nil {
		panic(err)
	}
	sub, err := p2p.NewSubscriber[*vhdr.Header](ps0, pubsub.DefaultMsgIdFn, p2p.WithSubscriberNetworkID(peers.NetworkID))
	if err != nil {
		panic(err)
	}
	var asked sync.Map
	if err := sub.Start(ctx); err != nil {
		panic(err)
	}
	if err := sub.SetVerifier(func(_ context.Context, h *vhdr.Header) error {
		asked.Store(h.H, true)
		if h.H == 2 {
			return &header.VerifyError{Reason: errors.New("scripted hard failure")}
		}
		return nil
	}); err != nil {
		panic(err)
	}
	lifecycle := "ok"
	for i := 0; i < restarts; i++ {
		if err := sub.Stop(ctx); err != nil {
			lifecycle = "stoperr"
		}
		if err := sub.Start(ctx); err != nil {
			lifecycle = "starterr"
		}
	}
	if lifecycle != "ok" {
		emit("C11 kind=restart restarts=%d => lifecycle=%s local=- verifierasked=- delivered=- crashed=0", restarts, lifecycle)
		return
	}
	defer sub.Stop(ctx) //nolint:errcheck
	evs, err := mn.Hosts()[0].EventBus().Subscribe(&event.EvtPeerIdentificationCompleted{})
	if err != nil {
		panic(err)
	}
	if err := mn.ConnectAllButSelf(); err != nil {
		panic(err)
	}
	select {
	case <-evs.Out():
	case <-time.After(3 * time.Second):
	}
	rsub, err := sub.Subscribe()
	if err != nil {
		panic(err)
	}
	defer rsub.Cancel()
	if stopOpen {
		if err := sub.Stop(ctx); err == nil {
			lifecycle = "stop-succeeded-with-open-subscription"
		}
	}
	// local broadcast of a header the verifier rejects
	local := "refused"
	if err := sub.Broadcast(ctx, chain[1]); err == nil {
		local = "published"
	}
	_, askedLocal := asked.Load(uint64(2))
	// the bare peer
	topic, err := ps1.Join(p2p.PubsubTopicID(peers.NetworkID))
	if err != nil {
		panic(err)
	}
	defer topic.Close()
	bsub, err := topic.Subscribe()
	if err != nil {
		panic(err)
	}
	defer bsub.Cancel()
	bin, _ := chain[0].MarshalBinary()
	_ = topic.Publish(ctx, []byte("definitely not a header"), pubsub.WithReadiness(pubsub.MinTopicSize(1)))
	// the valid header is published until it arrives (gossip latency is no part of the property; every publication is a new
	// message); whatever is delivered is collected: it must be that header and nothing else
	seen := map[string]bool{}
	var got []string
	crashed := 0
	read := func(wait time.Duration) {
		defer func() {
			if recover() != nil {
				crashed = 1
			}
		}()
		rctx, rcancel := context.WithTimeout(ctx, wait)
		defer rcancel()
		h, err := rsub.NextHeader(rctx)
		if err == nil && h != nil && !seen[utoa(h.H)] {
			seen[utoa(h.H)] = true
			got = append(got, utoa(h.H))
		}
	}
	for attempt := 0; attempt < 8 && crashed == 0 && !seen["1"]; attempt++ {
		_ = topic.Publish(ctx, bin, pubsub.WithReadiness(pubsub.MinTopicSize(1)))
		read(900 * time.Millisecond)
	}
	if crashed == 0 {
		read(300 * time.Millisecond) // anything else that slipped through
	}
	d := strings.Join(got, ",")
	if d == "" {
		d = "-"
	}
	if stopOpen {
		restarts = -1
	}
	emit("C11 kind=restart restarts=%d => lifecycle=%s local=%s verifierasked=%d delivered=%s crashed=%d", restarts, lifecycle, local, b2i(askedLocal), d, crashed)
}

// c11Sequence: what ONE Subscriber does with a message must not depend on earlier messages or on refused registrations.
//   - refused: SetVerifier(A) succeeds, SetVerifier(B) is refused; A rejects what B would accept: the message is rejected.
//   - after-reject: a remote header is hard-rejected by the verifier (which looked at its hash); the next remote header is
//     accepted: what is delivered is exactly that second header.
func c11Sequence() {
	ctx := context.Background()
	chain := vhdr.Chain("A", 4, time.Now().Add(-time.Minute).UnixNano(), 1e9, 0)
	topic := "t"
	verdictOf := func(sub *p2p.Subscriber[*vhdr.Header], msg *pubsub.Message) (v string) {
		defer func() {
			if recover() != nil {
				v = "CRASH"
			}
		}()
		return map[pubsub.ValidationResult]string{
			pubsub.ValidationAccept: "accept", pubsub.ValidationIgnore: "ignore", pubsub.ValidationReject: "reject"}[sub.VerifVerifyMessage(ctx, "", msg)]
	}
	remote := func(h *vhdr.Header) *pubsub.Message {
		b, _ := h.MarshalBinary()
		return &pubsub.Message{Message: &pubsub_pb.Message{Data: b, Topic: &topic}}
	}
	// refused second registration
	sub, err := p2p.NewSubscriber[*vhdr.Header](nil, nil)
	if err != nil {
		panic(err)
	}
	hard := &header.VerifyError{Reason: errors.New("scripted hard failure")}
	e1 := sub.SetVerifier(func(context.Context, *vhdr.Header) error { return hard })
	e2 := sub.SetVerifier(func(context.Context, *vhdr.Header) error { return nil })
	v := verdictOf(sub, remote(chain[0]))
	emit("C11 kind=sequence sub=refused => first=%s second=%s verdict=%s delivered=-", errs(e1), errs(e2), v)
	// a rejected message, then an accepted one
	sub2, err := p2p.NewSubscriber[*vhdr.Header](nil, nil)
	if err != nil {
		panic(err)
	}
	_ = sub2.SetVerifier(func(_ context.Context, h *vhdr.Header) error {
		_ = h.Hash()
		if h.H == 1 {
			return hard
		}
		return nil
	})
	for round := 0; round < 20; round++ { // (an object pool may drop or keep entries: several rounds)
		v1 := verdictOf(sub2, remote(chain[0]))
		m2 := remote(chain[1+round%3])
		v2 := verdictOf(sub2, m2)
		deliv := "-"
		if v2 == "accept" {
			deliv = "wrong"
			if h, ok := m2.ValidatorData.(*vhdr.Header); ok && sameHeader(h, chain[1+round%3]) && h.H == chain[1+round%3].H {
				deliv = "same"
			}
		}
		if round == 19 || v1 != "reject" || v2 != "accept" || deliv != "same" {
			emit("C11 kind=sequence sub=afterreject => first=%s second=ok verdict=%s delivered=%s", v1, v2, deliv)
			break
		}
	}
}

// c11Lifecycle: sequences of Start / Stop / Subscribe / Cancel on a real Subscriber over a real gossipsub instance; each
// call's error / no error is compared with the model (P2P.Lifecycle), and at the end a header the verifier rejects is
// broadcast: it must be refused whatever the life cycle was.
func c11Lifecycle(r *rng) {
	fixed := [][]string{
		{"start", "subscribe", "stop"}, {"start", "subscribe", "stop", "start"}, {"start", "stop", "start", "subscribe"},
		{"start", "subscribe", "stop", "cancel", "stop", "start"}, {"start", "start"}, {"start", "stop", "stop"},
		{"start", "subscribe", "subscribe", "cancel", "stop", "cancel", "stop", "start", "subscribe"},
	}
	for i := 0; i < 25; i++ {
		seq := []string{"start"}
		for j := 0; j < 2+r.intn(6); j++ {
			seq = append(seq, []string{"start", "stop", "subscribe", "cancel", "subscribe", "stop"}[r.intn(6)])
		}
		fixed = append(fixed, seq)
	}
	for _, seq := range fixed {
		c11LifecycleOne(seq)
	}
}

func c11LifecycleOne(seq []string) {
	ctx, cancel := context.WithTimeout(context.Background(), 10*time.Second)
	defer cancel()
	mn, err := mocknet.FullMeshLinked(1)
	if err != nil {
		panic(err)
	}
	defer mn.Close()
	ps, err := pubsub.NewGossipSub(ctx, mn.Hosts()[0], pubsub.WithMessageSignaturePolicy(pubsub.StrictNoSign))
	if err != nil {
		panic(err)
	}
	sub, err := p2p.NewSubscriber[*vhdr.Header](ps, pubsub.DefaultMsgIdFn, p2p.WithSubscriberNetworkID(peers.NetworkID))
	if err != nil {
		panic(err)
	}
	_ = sub.SetVerifier(func(context.Context, *vhdr.Header) error {
		return &header.VerifyError{Reason: errors.New("scripted hard failure")}
	})
	chain := vhdr.Chain("A", 2, time.Now().Add(-time.Minute).UnixNano(), 1e9, 0)
	var open []header.Subscription[*vhdr.Header]
	var results []string
	var ops []string
	for _, op := range seq {
		var e error
		switch op {
		case "start":
			e = sub.Start(ctx)
		case "stop":
			e = sub.Stop(ctx)
		case "subscribe":
			var s header.Subscription[*vhdr.Header]
			s, e = sub.Subscribe()
			if e == nil {
				open = append(open, s)
			}
		case "cancel":
			if len(open) == 0 {
				continue // nothing to cancel: not a call
			}
			open[len(open)-1].Cancel()
			open = open[:len(open)-1]
		}
		ops = append(ops, op)
		results = append(results, map[bool]string{true: "ok", false: "err"}[e == nil])
	}
	probe := "refused"
	func() {
		defer func() {
			if recover() != nil {
				probe = "CRASH"
			}
		}()
		if err := sub.Broadcast(ctx, chain[0]); err == nil {
			probe = "published"
		}
	}()
	for _, s := range open {
		s.Cancel()
	}
	_ = sub.Stop(ctx)
	emit("C11 kind=lifecycle ops=%s => results=%s probe=%s", strings.Join(ops, ","), strings.Join(results, ","), probe)
}
