package main

import (
	"context"
	"fmt"
	"github.com/celestiaorg/go-header/p2p"
	"github.com/libp2p/go-libp2p/core/network"
	"os"
	"strconv"
	"strings"
	"sync/atomic"
	"time"

	"github.com/libp2p/go-libp2p/core/peer"

	p2p_pb "github.com/celestiaorg/go-header/p2p/pb"

	"verifharness/peers"
	"verifharness/vhdr"
)

func init() { cmds["C13"] = runC13 }

// answers of a trusted peer to a single-header request for main:60
var c13Alphabet = []string{
	"valid", "other:61", "otherfork:60", "wrongchain", "nochain", "invalid", "panicdecode", "panicvalidate", "garbage", "truncated", "oversized",
	"status", "emptybody", "empty", "notfound", "reset", "hang",
}

func (e *p2pEnv) getReply(a string) peers.Reply {
	want := e.chain[59]
	enc, _ := want.MarshalBinary()
	switch {
	case a == "valid":
		return peers.Reply{Kind: "ok", Headers: []*vhdr.Header{want}}
	case a == "other:61":
		return peers.Reply{Kind: "ok", Headers: []*vhdr.Header{e.chain[60]}}
	case a == "otherfork:60":
		return peers.Reply{Kind: "ok", Headers: []*vhdr.Header{e.fork[59]}}
	case a == "wrongchain":
		return peers.Reply{Kind: "ok", Headers: []*vhdr.Header{{Chain: "B", H: 60, T: want.T, Prev: want.Prev}}}
	case a == "nochain": // decodes and validates, but carries no chain id at all
		return peers.Reply{Kind: "ok", Headers: []*vhdr.Header{{Chain: "", H: 60, T: want.T, Prev: want.Prev, NC: true}}}
	case a == "panicdecode": // a body on which the header type's decoder panics
		return peers.Reply{Kind: "garbage", Raw: peers.FrameResp(&p2p_pb.HeaderResponse{Body: vhdr.PanicBytes, StatusCode: p2p_pb.StatusCode_OK})}
	case a == "panicvalidate": // decodes, but the header type's Validate panics on it
		return peers.Reply{Kind: "ok", Headers: []*vhdr.Header{{Chain: "A", H: 60, T: want.T, Prev: want.Prev, PV: true}}}
	case a == "invalid":
		return peers.Reply{Kind: "ok", Headers: []*vhdr.Header{{Chain: "A", H: 60, T: want.T, Bad: true}}}
	case a == "garbage":
		return peers.Reply{Kind: "garbage", Raw: []byte{0x08, 0xde, 0xad, 0xbe, 0xef, 0x01, 0x02, 0x03, 0x04}}
	case a == "truncated":
		fr := peers.FrameResp(&p2p_pb.HeaderResponse{Body: enc, StatusCode: p2p_pb.StatusCode_OK})
		return peers.Reply{Kind: "truncated", Raw: fr[:len(fr)/2]}
	case a == "oversized":
		return peers.Reply{Kind: "ok", Headers: []*vhdr.Header{want, e.chain[60], e.chain[61]}}
	case a == "status":
		return peers.Reply{Kind: "status", Status: 5, Headers: []*vhdr.Header{want}}
	case a == "emptybody":
		return peers.Reply{Kind: "ok", Headers: []*vhdr.Header{nil}}
	case a == "empty":
		return peers.Reply{Kind: "empty"}
	case a == "notfound":
		return peers.Reply{Kind: "notfound"}
	case a == "reset":
		return peers.Reply{Kind: "reset"}
	}
	return peers.Reply{Kind: "hang"}
}

func (e *p2pEnv) c13Case(op string, answers []string, order []int) {
	n := len(answers)
	ids := make([]peer.ID, n)
	for i := 0; i < n; i++ {
		a := answers[i]
		e.peers[i].Reset(true, func(int, *p2p_pb.HeaderRequest) peers.Reply { return e.getReply(a) })
		ids[i] = e.hosts[i+1].ID()
	}
	ex := e.client(ids, 0, 250*time.Millisecond)
	ctx, cancel := context.WithTimeout(context.Background(), 2*time.Second)
	type res struct {
		h       *vhdr.Header
		err     error
		crashed bool
	}
	ch := make(chan res, 1)
	go func() {
		defer func() {
			if r := recover(); r != nil {
				ch <- res{nil, fmt.Errorf("panic: %v", r), true}
			}
		}()
		var h *vhdr.Header
		var err error
		if op == "get" {
			h, err = ex.Get(ctx, e.chain[59].Hash())
		} else {
			h, err = ex.GetByHeight(ctx, 60)
		}
		ch <- res{h, err, false}
	}()
	var out res
	got := false
	for _, i := range order {
		if answers[i] == "hang" {
			continue
		}
		select {
		case out = <-ch:
			got = true
		default:
		}
		if got {
			break
		}
		e.peers[i].Release(0, 300*time.Millisecond)
		time.Sleep(4 * time.Millisecond)
	}
	if !got {
		out = <-ch
	}
	cancel()
	for i := 0; i < n; i++ {
		e.peers[i].Reset(false, nil)
	}
	_ = ex.Stop(context.Background())
	r := "zero"
	if out.h != nil {
		switch {
		case sameHeader(out.h, e.chain[59]):
			r = "valid"
		case sameHeader(out.h, e.chain[60]):
			r = "other:61"
		case sameHeader(out.h, e.fork[59]):
			r = "otherfork:60"
		default:
			r = fmt.Sprintf("unknown:%d:%s", out.h.H, out.h.Chain)
		}
	}
	ec := "nil"
	if out.crashed {
		ec = "CRASH"
	} else if out.err != nil {
		ec = "err"
	}
	os := make([]string, len(order))
	for i, o := range order {
		os[i] = itoa(o)
	}
	emit("C13 op=%s n=%d answers=%s order=%s => hdr=%s err=%s", op, n, strings.Join(answers, ","), strings.Join(os, ","), r, ec)
}

// all trusted peers accept the stream and never answer, over a transport that honours deadlines: every
// per-peer request ends with a timeout error once RequestTimeout elapses while the caller's context lives on
func c13AllHang(op string, n int) {
	hosts, closeAll, err := peers.NewRealHosts(n + 1)
	if err != nil {
		fmt.Fprintln(os.Stderr, "C13 all-hang case skipped:", err) // no loopback transport: nothing observed, nothing claimed
		return
	}
	defer closeAll()
	stop := make(chan struct{})
	defer close(stop)
	ids := make([]peer.ID, 0, n)
	for _, h := range hosts[1:] {
		ids = append(ids, h.ID())
		h.SetStreamHandler(peers.ProtocolID(), func(s network.Stream) {
			<-stop
			s.Reset() //nolint:errcheck
		})
	}
	ex, err := p2p.NewExchange[*vhdr.Header](hosts[0], ids, nil,
		p2p.WithNetworkID[p2p.ClientParameters](peers.NetworkID), p2p.WithChainID("A"),
		p2p.WithRequestTimeout[p2p.ClientParameters](250*time.Millisecond))
	if err != nil {
		panic(err)
	}
	if err := func() error { sc, end := startCtx(); defer end(); return ex.Start(sc) }(); err != nil {
		panic(err)
	}
	defer ex.Stop(context.Background()) //nolint:errcheck
	// the caller itself is patient: every per-peer request runs into RequestTimeout (250 ms) long before this
	ctx, cancel := context.WithTimeout(context.Background(), 6*time.Second)
	defer cancel()
	r, ec := "zero", "nil"
	t0 := time.Now()
	func() {
		defer func() {
			if p := recover(); p != nil {
				ec = "CRASH"
			}
		}()
		var h *vhdr.Header
		var err error
		if op == "get" {
			h, err = ex.Get(ctx, []byte("0123456789abcdef0123456789abcdef"))
		} else {
			h, err = ex.GetByHeight(ctx, 60)
		}
		if h != nil {
			r = fmt.Sprintf("unknown:%d:%s", h.H, h.Chain)
		}
		if err != nil {
			ec = "err"
		}
	}()
	order := make([]string, n)
	for i := range order {
		order[i] = itoa(i)
	}
	slow := 0
	if time.Since(t0) > 3*time.Second {
		slow = 1 // still waiting long after every request timed out
	}
	emit("C13 op=%s n=%d transport=real answers=%s order=%s => hdr=%s err=%s slow=%d", op, n, strings.Repeat("hang,", n-1)+"hang", strings.Join(order, ","), r, ec, slow)
}

// c13StopInflight: the only trusted peer hangs; the Exchange is stopped while Get/GetByHeight is in flight (or had been
// stopped before the call): an error, never a panic or a nil header with a nil error.
func (e *p2pEnv) c13StopInflight(op string, before bool) {
	e.peers[0].Reset(true, func(int, *p2p_pb.HeaderRequest) peers.Reply { return peers.Reply{Kind: "hang"} })
	defer e.peers[0].Reset(false, nil)
	ex := e.client([]peer.ID{e.hosts[1].ID()}, 0, 2*time.Second)
	if before {
		_ = ex.Stop(context.Background())
	}
	ctx, cancel := context.WithTimeout(context.Background(), 3*time.Second)
	defer cancel()
	r, ec := "zero", "nil"
	done := make(chan struct{})
	go func() {
		defer close(done)
		defer func() {
			if p := recover(); p != nil {
				ec = "CRASH"
			}
		}()
		var h *vhdr.Header
		var err error
		if op == "get" {
			h, err = ex.Get(ctx, e.chain[59].Hash())
		} else {
			h, err = ex.GetByHeight(ctx, 60)
		}
		if h != nil {
			r = fmt.Sprintf("unknown:%d:%s", h.H, h.Chain)
		}
		if err != nil {
			ec = "err"
		}
	}()
	if !before {
		time.Sleep(20 * time.Millisecond)
		_ = ex.Stop(context.Background())
	}
	select {
	case <-done:
	case <-time.After(4 * time.Second):
		ec = "err" // still blocked after Stop and after its own context: reported by the slow flag
	}
	emit("C13 op=%s n=1 stop=%v answers=hang order=0 => hdr=%s err=%s", op, before, r, ec)
}

func runC13(tier string, r *rng) {
	if line := os.Getenv("VERIF_REPLAY_CASE"); line != "" {
		kv := kvOf(line)
		if kv["transport"] == "real" {
			n, _ := strconv.Atoi(kv["n"])
			c13AllHang(kv["op"], n)
			return
		}
	}
	for _, n := range []int{1, 2, 4} {
		if os.Getenv("VERIF_REPLAY_CASE") != "" {
			break
		}
		for round := 0; round < 2; round++ { // the stream deadline races the context timer: twice each
			c13AllHang("get", n)
			c13AllHang("byheight", n)
		}
	}
	e := newP2PEnv(4)
	defer e.closer()
	if os.Getenv("VERIF_REPLAY_CASE") == "" {
		for _, op := range []string{"get", "byheight"} {
			e.c13StopInflight(op, false)
			for i := 0; i < 6; i++ { // the select between a ready result and the closed lifecycle context is random
				e.c13StopInflight(op, true)
			}
		}
	}
	if line := os.Getenv("VERIF_REPLAY_CASE"); line != "" {
		kv := kvOf(line)
		if kv["kind"] == "twin" {
			e.c13Twin(kv["op"])
			return
		}
		if kv["kind"] == "allblocked" {
			n, _ := strconv.Atoi(kv["n"])
			e.c13AllBlocked(kv["op"], n)
			return
		}
		e.c13Case(kv["op"], strings.Split(kv["answers"], ","), atoiList(kv["order"]))
		return
	}
	// a header whose hash was seen valid before comes back in a form that fails Validate
	for _, op := range []string{"get", "byheight"} {
		e.c13Twin(op)
	}
	// every trusted peer has been blocked by the client itself (they served a bad range earlier)
	for _, op := range []string{"get", "byheight"} {
		for _, n := range []int{1, 2} {
			e.c13AllBlocked(op, n)
		}
	}
	// every single answer, both operations
	for _, op := range []string{"get", "byheight"} {
		for _, a := range c13Alphabet {
			e.c13Case(op, []string{a}, []int{0})
		}
		// every ordered pair (arrival order = listed order)
		for _, a := range c13Alphabet {
			for _, b := range c13Alphabet {
				if tier != "thorough" && a == "hang" && b == "hang" {
					continue
				}
				if tier == "thorough" || a == "valid" || b == "valid" || strings.HasPrefix(a, "other") || strings.HasPrefix(b, "other") {
					e.c13Case(op, []string{a, b}, []int{0, 1})
				}
			}
		}
	}
	k := 40
	if tier == "thorough" {
		k = 1200
	}
	for i := 0; i < k; i++ {
		n := 2 + r.intn(3)
		ans := make([]string, n)
		for j := range ans {
			ans[j] = c13Alphabet[r.intn(len(c13Alphabet))]
		}
		ps := perms(n)
		e.c13Case([]string{"get", "byheight"}[r.intn(2)], ans, ps[r.intn(len(ps))])
	}
}

// c13AllBlocked: the trusted peers answer a RANGE request with a forged header, for which the client blocks them in its
// connection gater. A Get / GetByHeight afterwards finds every trusted peer blocked: it returns an error (or what a peer
// still serves), never a zero header with a nil error, and it does not panic.
func (e *p2pEnv) c13AllBlocked(op string, n int) {
	ids := make([]peer.ID, n)
	for i := 0; i < n; i++ {
		e.peers[i].Reset(false, func(_ int, req *p2p_pb.HeaderRequest) peers.Reply {
			if req.GetHash() == nil && req.Amount > 1 {
				return e.rangeReply("forged:0", req.GetOrigin(), req.Amount, 100)
			}
			return e.getReply("valid")
		})
		ids[i] = e.hosts[i+1].ID()
	}
	ex := e.client(ids, 0, 250*time.Millisecond)
	ex.VerifSetTrackedPeers(ids...)
	rctx, rcancel := context.WithTimeout(context.Background(), 600*time.Millisecond)
	_, rerr := ex.GetRangeByHeight(rctx, e.chain[4], 9)
	rcancel()
	ctx, cancel := context.WithTimeout(context.Background(), 2*time.Second)
	r, ec := "zero", "nil"
	func() {
		defer func() {
			if p := recover(); p != nil {
				ec = "CRASH"
			}
		}()
		var h *vhdr.Header
		var err error
		if op == "get" {
			h, err = ex.Get(ctx, e.chain[59].Hash())
		} else {
			h, err = ex.GetByHeight(ctx, 60)
		}
		if h != nil {
			r = "other"
			if sameHeader(h, e.chain[59]) {
				r = "valid"
			}
		}
		if err != nil {
			ec = "err"
		}
	}()
	cancel()
	for i := 0; i < n; i++ {
		e.peers[i].Reset(false, nil)
	}
	_ = ex.Stop(context.Background())
	emit("C13 op=%s kind=allblocked n=%d range=%s answers=valid order=0 => hdr=%s err=%s", op, n, errs(rerr), r, ec)
}

// c13Twin: ONE client, two calls. The trusted peer first answers with the valid header; the second time it answers with a
// twin that has the SAME hash but fails Validate (the part that differs is not covered by the hash, as with the commit of
// real header types). The second call must fail: only headers that passed Validate are returned.
func (e *p2pEnv) c13Twin(op string) {
	want := e.chain[59]
	twin := &vhdr.Header{Chain: want.Chain, H: want.H, T: want.T, Prev: want.Prev, Salt: want.Salt, VK: want.VK, BadSig: true}
	var nth atomic.Int32
	e.peers[0].Reset(false, func(int, *p2p_pb.HeaderRequest) peers.Reply {
		if nth.Add(1) == 1 {
			return peers.Reply{Kind: "ok", Headers: []*vhdr.Header{want}}
		}
		return peers.Reply{Kind: "ok", Headers: []*vhdr.Header{twin}}
	})
	ex := e.client([]peer.ID{e.hosts[1].ID()}, 0, 250*time.Millisecond)
	call := func() string {
		ctx, cancel := context.WithTimeout(context.Background(), 2*time.Second)
		defer cancel()
		var h *vhdr.Header
		var err error
		func() {
			defer func() {
				if r := recover(); r != nil {
					err = fmt.Errorf("panic: %v", r)
				}
			}()
			if op == "get" {
				h, err = ex.Get(ctx, want.Hash())
			} else {
				h, err = ex.GetByHeight(ctx, 60)
			}
		}()
		switch {
		case err != nil:
			return "err"
		case h == nil:
			return "zero"
		case h.Validate() != nil:
			return "invalid"
		default:
			return "valid"
		}
	}
	first := call()
	second := call()
	e.peers[0].Reset(false, nil)
	_ = ex.Stop(context.Background())
	emit("C13 kind=twin op=%s samehash=%d => first=%s second=%s", op, b2i(string(twin.Hash()) == string(want.Hash())), first, second)
}
