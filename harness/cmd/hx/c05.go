package main

import (
	"context"
	"errors"
	"fmt"
	"os"
	"sort"
	"strconv"
	"strings"
	"time"

	"github.com/libp2p/go-libp2p/core/peer"

	p2p_pb "github.com/celestiaorg/go-header/p2p/pb"

	"verifharness/peers"
	"verifharness/vhdr"
)

func init() {
	cmds["C05"] = func(t string, r *rng) { runSession("C05", t, r) }
	cmds["C18"] = func(t string, r *rng) { runSession("C18", t, r) }
}

// a behaviour of a peer for one range request (origin o, amount a); `have` = highest height the peer holds
func (e *p2pEnv) rangeReply(beh string, o, a uint64, have int) peers.Reply {
	get := func(from, n uint64) []*vhdr.Header {
		var hs []*vhdr.Header
		for h := from; h < from+n && int(h) <= len(e.chain) && h >= 1; h++ {
			hs = append(hs, e.chain[h-1])
		}
		return hs
	}
	avail := func(hs []*vhdr.Header) []*vhdr.Header {
		var out []*vhdr.Header
		for _, h := range hs {
			if int(h.H) <= have {
				out = append(out, h)
			}
		}
		return out
	}
	parts := strings.SplitN(beh, ":", 2)
	arg := 0
	if len(parts) == 2 {
		fmt.Sscanf(parts[1], "%d", &arg)
	}
	switch parts[0] {
	case "honest":
		hs := avail(get(o, a))
		if len(hs) == 0 {
			return peers.Reply{Kind: "notfound"}
		}
		return peers.Reply{Kind: "ok", Headers: hs}
	case "slow": // honest, but the answer takes a while: later sub-ranges overtake this one
		hs := avail(get(o, a))
		if len(hs) == 0 {
			return peers.Reply{Kind: "notfound"}
		}
		return peers.Reply{Kind: "ok", Headers: hs, Delay: 45 * time.Millisecond}
	case "late": // honest, but the answer arrives after the caller has given up
		hs := avail(get(o, a))
		if len(hs) == 0 {
			return peers.Reply{Kind: "notfound"}
		}
		return peers.Reply{Kind: "ok", Headers: hs, Delay: 200 * time.Millisecond}
	case "partialreset": // k headers of the answer, then the stream is reset
		hs := avail(get(o, a))
		if arg < len(hs) {
			hs = hs[:arg]
		}
		if len(hs) == 0 {
			return peers.Reply{Kind: "reset"}
		}
		return peers.Reply{Kind: "partialreset", Headers: hs}
	case "prefix":
		hs := avail(get(o, a))
		if arg < len(hs) {
			hs = hs[:arg]
		}
		if len(hs) == 0 {
			return peers.Reply{Kind: "notfound"}
		}
		return peers.Reply{Kind: "ok", Headers: hs}
	case "shift":
		return peers.Reply{Kind: "ok", Headers: get(o+uint64(arg), a)}
	case "dup": // answers the chunk before the requested one
		if o > a {
			return peers.Reply{Kind: "ok", Headers: get(o-a, a)}
		}
		return peers.Reply{Kind: "ok", Headers: get(o, a)}
	case "reorder":
		hs := get(o, a)
		if len(hs) >= 2 {
			hs[0], hs[1] = hs[1], hs[0]
		}
		return peers.Reply{Kind: "ok", Headers: hs}
	case "gapped":
		hs := get(o, a+1)
		if len(hs) >= 3 {
			hs = append(hs[:1], hs[2:]...)
		}
		return peers.Reply{Kind: "ok", Headers: hs}
	case "forged":
		hs := get(o, a)
		if len(hs) > 0 {
			i := arg % len(hs)
			c := hs[i]
			hs[i] = &vhdr.Header{Chain: c.Chain, H: c.H, T: c.T, Prev: c.Prev, Salt: 5, Forged: true}
		}
		return peers.Reply{Kind: "ok", Headers: hs}
	case "wrongchain", "wrongchaincase": // a header of another chain; "case": its chain ID differs by letter case only
		hs := get(o, a)
		if len(hs) > 0 {
			c := hs[0]
			id := "B"
			if parts[0] == "wrongchaincase" {
				id = strings.ToLower(c.Chain)
			}
			hs[0] = &vhdr.Header{Chain: id, H: c.H, T: c.T, Prev: c.Prev}
		}
		return peers.Reply{Kind: "ok", Headers: hs}
	case "panicky": // a forged header on which the header type's own Validate panics (a hostile payload hitting a bug there)
		hs := get(o, a)
		if len(hs) > 0 {
			i := arg % len(hs)
			c := hs[i]
			hs[i] = &vhdr.Header{Chain: c.Chain, H: c.H, T: c.T, Prev: c.Prev, Salt: 5, PV: true}
		}
		return peers.Reply{Kind: "ok", Headers: hs}
	case "forgedabove": // the first header of the answer is forged, but only for chunks that start above height `arg`
		hs := get(o, a)
		if len(hs) > 0 && o > uint64(arg) {
			c := hs[0]
			hs[0] = &vhdr.Header{Chain: c.Chain, H: c.H, T: c.T, Prev: c.Prev, Salt: 5, Forged: true}
		}
		return peers.Reply{Kind: "ok", Headers: hs}
	case "invalidlast": // the LAST header of the answer fails Validate (and nothing else: same chain, same link, same fork)
		hs := get(o, a)
		if len(hs) > 0 {
			c := hs[len(hs)-1]
			hs[len(hs)-1] = &vhdr.Header{Chain: c.Chain, H: c.H, T: c.T, Prev: c.Prev, Salt: c.Salt, Bad: true}
		}
		return peers.Reply{Kind: "ok", Headers: hs}
	case "panickyverify": // a header that decodes and validates, and on which the header type's own Verify panics
		hs := get(o, a)
		if len(hs) > 0 {
			i := arg % len(hs)
			c := hs[i]
			hs[i] = &vhdr.Header{Chain: c.Chain, H: c.H, T: c.T, Prev: c.Prev, Salt: c.Salt, VK: vhdr.VKPanic}
		}
		return peers.Reply{Kind: "ok", Headers: hs}
	case "oversized":
		return peers.Reply{Kind: "ok", Headers: get(o, a+2)}
	case "status":
		return peers.Reply{Kind: "status", Status: 4, Headers: get(o, a)}
	case "garbage":
		return peers.Reply{Kind: "garbage", Raw: []byte{0x04, 0x01, 0x02, 0xff, 0xff, 0xff}}
	case "notfound", "empty", "reset", "hang", "silent":
		return peers.Reply{Kind: parts[0]}
	}
	return peers.Reply{Kind: "notfound"}
}

type sessPeer struct {
	have int      // highest height held
	behs []string // behaviour per request index; "honest" afterwards
}

func (e *p2pEnv) sessionCase(prop string, from, to uint64, chunk uint64, ps []sessPeer, timeoutMs int) {
	n := len(ps)
	ids := make([]peer.ID, n)
	for i := 0; i < n; i++ {
		p := ps[i]
		e.peers[i].Reset(false, func(k int, req *p2p_pb.HeaderRequest) peers.Reply {
			b := "honest"
			if k < len(p.behs) {
				b = p.behs[k]
			}
			return e.rangeReply(b, req.GetOrigin(), req.Amount, p.have)
		})
		ids[i] = e.hosts[i+1].ID()
	}
	ex := e.client(nil, chunk, 120*time.Millisecond)
	ex.VerifSetTrackedPeers(ids...)
	ctx, cancel := context.WithTimeout(context.Background(), time.Duration(timeoutMs)*time.Millisecond)
	var fromH *vhdr.Header
	if from >= 1 && from <= uint64(len(e.chain)) {
		fromH = e.chain[from-1]
	} else if from >= 1<<63 {
		// a trusted header at the far end of the height space
		last := e.chain[len(e.chain)-1]
		fromH = &vhdr.Header{Chain: last.Chain, H: from, T: last.T, Salt: last.Salt}
	}
	type res struct {
		hs      []*vhdr.Header
		err     error
		crashed bool
	}
	ch := make(chan res, 1)
	go func() {
		defer func() {
			if r := recover(); r != nil {
				ch <- res{nil, fmt.Errorf("panic: %v", r), true}
			}
		}()
		hs, err := ex.GetRangeByHeight(ctx, fromH, to)
		ch <- res{hs, err, false}
	}()
	out := <-ch
	cancel()
	for _, p := range ps {
		for _, b := range p.behs {
			if b == "late" { // let the late answers arrive: they must be dropped quietly
				time.Sleep(350 * time.Millisecond)
				break
			}
		}
	}
	// request logs, merged by global sequence
	type ev struct {
		seq          uint64
		peer         int
		origin, amnt uint64
		k            int
	}
	var evs []ev
	for i := 0; i < n; i++ {
		for k, l := range e.peers[i].Requests() {
			evs = append(evs, ev{l.Seq, i, l.Origin, l.Amount, k})
		}
	}
	sort.Slice(evs, func(a, b int) bool { return evs[a].seq < evs[b].seq })
	var tr []string
	for _, v := range evs {
		b := "honest"
		if v.k < len(ps[v.peer].behs) {
			b = ps[v.peer].behs[v.k]
		}
		tr = append(tr, fmt.Sprintf("%d:%d+%d:%s", v.peer, v.origin, v.amnt, b))
	}
	for i := 0; i < n; i++ {
		e.peers[i].Reset(false, nil)
	}
	_ = ex.Stop(context.Background())
	// result rendering
	r := "-"
	if out.hs != nil {
		var hs []string
		for _, h := range out.hs {
			tag := utoa(h.H)
			if int(h.H) > len(e.chain) || !sameHeader(h, e.chain[h.H-1]) {
				tag = "X" + tag
			}
			hs = append(hs, tag)
		}
		r = strings.Join(hs, ",")
		if r == "" {
			r = "empty"
		}
	}
	ec := "nil"
	switch {
	case out.crashed:
		ec = "CRASH"
	case out.err == nil:
	case errors.Is(out.err, context.DeadlineExceeded):
		ec = "ctx"
	default:
		ec = "err"
	}
	var pd []string
	for _, p := range ps {
		b := strings.Join(p.behs, "/")
		if b == "" {
			b = "-"
		}
		pd = append(pd, fmt.Sprintf("%d|%s", p.have, b))
	}
	trs := strings.Join(tr, ";")
	if trs == "" {
		trs = "-"
	}
	emit("%s from=%d to=%d chunk=%d peers=%s => res=%s err=%s trace=%s", prop, from, to, chunk, strings.Join(pd, ","), r, ec, trs)
}

var byzantine = []string{"panicky:0", "panicky:1", "panickyverify:0", "panickyverify:1", "shift:1", "shift:5", "dup", "reorder", "gapped", "forged:0", "forged:1", "wrongchain", "wrongchaincase", "oversized", "status", "garbage", "notfound", "empty", "reset", "hang", "prefix:1", "prefix:2"}
var benign = []string{"slow", "partialreset:1", "partialreset:2", "notfound", "prefix:1", "prefix:2", "prefix:3", "hang", "reset", "empty"}

func runSession(prop, tier string, r *rng) {
	e := newP2PEnv(5)
	defer e.closer()
	if line := os.Getenv("VERIF_REPLAY_CASE"); line != "" {
		kv := kvOf(line)
		if kv["op"] != "" { // a Get/GetByHeight case of the C18 run
			e.c13Case(kv["op"], strings.Split(kv["answers"], ","), atoiList(kv["order"]))
			return
		}
		from, _ := strconv.ParseUint(kv["from"], 10, 64)
		to, _ := strconv.ParseUint(kv["to"], 10, 64)
		chunk, _ := strconv.ParseUint(kv["chunk"], 10, 64)
		if kv["kind"] == "twocalls" {
			switch kv["sub"] {
			case "":
				e.twoCallCase(prop, chunk)
			case "realhang":
				if re := newRealP2PEnv(2); re != nil {
					re.scoredCase(prop, "realhang", chunk)
					re.closer()
				}
			default:
				e.scoredCase(prop, kv["sub"], chunk)
			}
			return
		}
		var ps []sessPeer
		for _, pd := range strings.Split(kv["peers"], ",") {
			f := strings.SplitN(pd, "|", 2)
			have, _ := strconv.Atoi(f[0])
			sp := sessPeer{have: have}
			if len(f) == 2 && f[1] != "-" {
				sp.behs = strings.Split(f[1], "/")
			}
			ps = append(ps, sp)
		}
		e.sessionCase(prop, from, to, chunk, ps, 4000)
		return
	}
	if prop == "C05" {
		// degenerate requests: to <= from+1 must give an error, not a hang or a panic
		for _, ft := range [][2]uint64{{10, 11}, {10, 10}, {10, 5}, {10, 0}, {1, 2}} {
			e.sessionCase(prop, ft[0], ft[1], 4, []sessPeer{{have: 100}}, 400)
		}
		// ... also at the top of the height space, where from.Height()+1 wraps to 0
		for _, to := range []uint64{1, 5, ^uint64(0)} {
			e.sessionCase(prop, ^uint64(0), to, 4, []sessPeer{{have: 100}}, 400)
		}
		e.sessionCase(prop, ^uint64(0)-1, ^uint64(0), 4, []sessPeer{{have: 100}}, 400)
		// the far ends of `to`: an error (or what the peers have), never a panic
		for _, to := range []uint64{^uint64(0), ^uint64(0) - 1, 1 << 63} { // (smaller huge values would really be allocated)
			e.sessionCase(prop, 10, to, 4, []sessPeer{{have: 100}}, 400)
		}
		// the same Byzantine answers against a client that was built WITHOUT a connection gater
		e.nilGater = true
		for _, b := range []string{"forged:0", "shift:1", "garbage", "wrongchain", "wrongchaincase", "panicky:0", "panickyverify:1"} {
			e.sessionCase(prop, 5, 14, 3, []sessPeer{{have: 100, behs: []string{b, b}}, {have: 100}}, 700)
		}
		e.nilGater = false
		// one Byzantine behaviour on the first request of a single peer, then honest; and with an honest second peer
		for _, b := range byzantine {
			e.sessionCase(prop, 5, 14, 4, []sessPeer{{have: 100, behs: []string{b}}}, 700)
			e.sessionCase(prop, 5, 14, 3, []sessPeer{{have: 100, behs: []string{b, b}}, {have: 100}}, 700)
		}
		// a forged header that can only soft-fail (its chunk is not adjacent to `from`): only the forging peer holds those heights
		fa := []string{"forgedabove:8", "forgedabove:8", "forgedabove:8", "forgedabove:8", "forgedabove:8", "forgedabove:8"}
		e.sessionCase(prop, 5, 14, 3, []sessPeer{{have: 8}, {have: 100, behs: fa}}, 700)
		e.sessionCase(prop, 5, 12, 3, []sessPeer{{have: 8}, {have: 100, behs: fa}, {have: 8}}, 700)
		// a header that fails Validate and nothing else, at the end of a chunk; an honest peer is there as well
		for _, chunk := range []uint64{3, 64} {
			e.sessionCase(prop, 5, 14, chunk, []sessPeer{{have: 100, behs: []string{"invalidlast", "invalidlast", "invalidlast"}}}, 500)
			e.sessionCase(prop, 5, 14, chunk, []sessPeer{{have: 100, behs: []string{"invalidlast", "invalidlast"}}, {have: 100}}, 700)
		}
		// the caller gives up (or its deadline passes) while valid answers are still on their way
		for _, chunk := range []uint64{1, 2} {
			e.sessionCase(prop, 3, 3+1+2*chunk, chunk, []sessPeer{{have: 120, behs: []string{"late", "late"}}, {have: 120, behs: []string{"late", "late"}}}, 40)
			e.sessionCase(prop, 3, 3+1+3*chunk, chunk, []sessPeer{{have: 120, behs: []string{"honest", "late"}}, {have: 120, behs: []string{"late"}}}, 60)
		}
		k := 60
		if tier == "thorough" {
			k = 2000
		}
		for i := 0; i < k; i++ {
			np := 1 + r.intn(4)
			ps := make([]sessPeer, np)
			for j := range ps {
				ps[j].have = 100
				for q := 0; q < r.intn(4); q++ {
					if r.chance(2, 3) {
						ps[j].behs = append(ps[j].behs, byzantine[r.intn(len(byzantine))])
					} else {
						ps[j].behs = append(ps[j].behs, "honest")
					}
				}
			}
			from := uint64(1 + r.intn(20))
			amount := uint64(1 + r.intn(20))
			chunk := uint64([]int{1, 2, 3, 4, 5, 8, 64}[r.intn(7)])
			e.sessionCase(prop, from, from+1+amount, chunk, ps, 900)
		}
		return
	}
	// a peer that accepts the request and then stays silent, on a transport whose streams honour deadlines (mocknet's do not):
	// the request times out after RequestTimeout and is re-assigned to the healthy peer
	if re := newRealP2PEnv(2); re != nil {
		for _, chunk := range []uint64{2, 64} {
			re.scoredCase(prop, "realhang", chunk)
		}
		re.closer()
	}
	// C18: honest peers that together hold the range; benign faults leaving at least one capable peer
	chunks := []uint64{1, 2, 3, 5, 8, 64}
	if tier == "thorough" {
		chunks = []uint64{1, 2, 3, 4, 5, 6, 7, 8, 16, 33, 64}
	}
	for _, chunk := range chunks {
		for _, amount := range []uint64{1, chunk - 1, chunk, chunk + 1, 2*chunk + 1, 3 * chunk} {
			if amount == 0 || amount > 100 {
				continue
			}
			e.sessionCase(prop, 3, 3+1+amount, chunk, []sessPeer{{have: 120}}, 1500)
			e.sessionCase(prop, 3, 3+1+amount, chunk, []sessPeer{{have: int(3 + amount/2)}, {have: 120}}, 1500)
		}
		// two calls on ONE client: in the first, peer 0 answers fast and then fails once (a second capable peer completes the
		// call); in the second, peer 0 is the only one holding the range, is perfectly healthy, and three lagging peers answer
		// NOT_FOUND. What the first call did to peer 0's score must not starve it.
		if chunk == 1 {
			e.scoreClassCases(prop)
		}
		if chunk <= 3 {
			e.twoCallCase(prop, chunk)
			e.scoredCase(prop, "slowcapable", chunk)
		}
		// the stream dies after part of a chunk went out: the remainder of that chunk must be asked for again
		if chunk >= 3 && chunk <= 8 {
			e.sessionCase(prop, 3, 3+1+2*chunk, chunk, []sessPeer{{have: 120, behs: []string{"partialreset:2"}}, {have: 120}}, 1500)
			e.sessionCase(prop, 3, 3+1+chunk, chunk, []sessPeer{{have: 120, behs: []string{"partialreset:1", "partialreset:1"}}}, 1500)
		}
		// one peer is slow on its first answer: sub-ranges arrive out of order
		if chunk <= 8 {
			e.sessionCase(prop, 3, 3+1+3*chunk, chunk, []sessPeer{{have: 120, behs: []string{"slow"}}, {have: 120}}, 1500)
			e.sessionCase(prop, 3, 3+1+4*chunk, chunk, []sessPeer{{have: 120, behs: []string{"slow"}}, {have: 120}, {have: 120, behs: []string{"honest", "slow"}}}, 1500)
		}
	}
	// the property's last sentence: Get and GetByHeight return the servers' data when some honest peers lag or hang
	for _, op := range []string{"get", "byheight"} {
		for _, c := range []struct {
			ans []string
			ord []int
		}{
			{[]string{"notfound", "valid"}, []int{0, 1}}, {[]string{"notfound", "valid"}, []int{1, 0}},
			{[]string{"notfound", "notfound", "valid"}, []int{0, 1, 2}}, {[]string{"hang", "valid"}, []int{0, 1}},
			{[]string{"reset", "notfound", "valid"}, []int{0, 1, 2}}, {[]string{"valid", "valid"}, []int{0, 1}},
		} {
			e.c13Case(op, c.ans, c.ord)
		}
	}
	k := 50
	if tier == "thorough" {
		k = 1500
	}
	for i := 0; i < k; i++ {
		np := 1 + r.intn(5)
		from := uint64(1 + r.intn(10))
		chunk := uint64(1 + r.intn(8))
		if r.chance(1, 5) {
			chunk = 64
		}
		amount := uint64(1 + r.intn(int(3*chunk)))
		if amount > 100 {
			amount = 100
		}
		ps := make([]sessPeer, np)
		capable := r.intn(np)
		for j := range ps {
			ps[j].have = int(from) + r.intn(int(amount)+3)
			if j == capable {
				ps[j].have = 120
				continue
			}
			for q := 0; q < r.intn(3); q++ {
				ps[j].behs = append(ps[j].behs, benign[r.intn(len(benign))])
			}
		}
		e.sessionCase(prop, from, from+1+amount, chunk, ps, 2500)
	}
}

func (e *p2pEnv) twoCallCase(prop string, chunk uint64) {
	ps1 := []sessPeer{{have: 120, behs: []string{"honest", "notfound"}}, {have: 20}, {have: 20}, {have: 20}}
	n := len(ps1)
	ids := make([]peer.ID, n)
	script := func(ps []sessPeer) {
		for i := 0; i < n; i++ {
			p := ps[i]
			e.peers[i].Reset(false, func(k int, req *p2p_pb.HeaderRequest) peers.Reply {
				b := "honest"
				if k < len(p.behs) {
					b = p.behs[k]
				}
				return e.rangeReply(b, req.GetOrigin(), req.Amount, p.have)
			})
			ids[i] = e.hosts[i+1].ID()
		}
	}
	script(ps1)
	ex := e.client(nil, chunk, 120*time.Millisecond)
	defer ex.Stop(context.Background()) //nolint:errcheck
	ex.VerifSetTrackedPeers(ids...)
	ctx1, cancel1 := context.WithTimeout(context.Background(), 2*time.Second)
	_, err1 := ex.GetRangeByHeight(ctx1, e.chain[2], 3+1+3*chunk) // within what everybody holds
	cancel1()
	// what doRequest books when a peer on a fast link answers within a millisecond and later answers NOT_FOUND once
	// (mocknet round trips are slower than that, so the two bookings are made through the hook, by the real functions)
	ex.VerifRecordOutcome(ids[0], 500, 300*time.Microsecond)
	ex.VerifRecordOutcome(ids[0], -1, 0)
	// second call(s): heights only peer 0 holds; nobody misbehaves
	script([]sessPeer{{have: 120}, {have: 20}, {have: 20}, {have: 20}})
	from, to := uint64(30), 30+1+2*chunk
	var hs []*vhdr.Header
	var err2 error
	for rep := 0; rep < 25; rep++ {
		ctx2, cancel2 := context.WithTimeout(context.Background(), 800*time.Millisecond)
		hs, err2 = ex.GetRangeByHeight(ctx2, e.chain[from-1], to)
		cancel2()
		if err2 != nil {
			break
		}
	}
	for i := 0; i < n; i++ {
		e.peers[i].Reset(false, nil)
	}
	r := "-"
	if hs != nil {
		var xs []string
		for _, h := range hs {
			tag := utoa(h.H)
			if int(h.H) > len(e.chain) || !sameHeader(h, e.chain[h.H-1]) {
				tag = "X" + tag
			}
			xs = append(xs, tag)
		}
		r = strings.Join(xs, ",")
	}
	ec := "nil"
	if err2 != nil {
		ec = "err"
		if errors.Is(err2, context.DeadlineExceeded) {
			ec = "ctx"
		}
	}
	emit("%s kind=twocalls from=%d to=%d chunk=%d first=%s => res=%s err=%s", prop, from, to, chunk, errs(err1), r, ec)
}

// newRealP2PEnv: the same environment on real loopback transports (nil when they are unavailable)
func newRealP2PEnv(npeers int) *p2pEnv {
	hosts, closeAll, err := peers.NewRealHosts(npeers + 1)
	if err != nil {
		return nil
	}
	e := &p2pEnv{hosts: hosts, closer: closeAll}
	for i := 1; i <= npeers; i++ {
		e.peers = append(e.peers, peers.NewScripted(hosts[i]))
	}
	t0 := time.Now().Add(-time.Hour).UnixNano()
	e.chain = vhdr.Chain("A", 120, t0, 1e9, 0)
	return e
}

// scoredCase: peers whose scores were earned earlier (booked through the hook by the real functions).
//   - slowcapable: the only peer holding the range earned a score below 1 (small answers over a slow link), the lagging peers
//     are fresh (score 1) and answer NOT_FOUND; their score has to decay below the capable peer's.
//   - realhang: the best-scored peer accepts the request and stays silent; the other peer is healthy.
func (e *p2pEnv) scoredCase(prop, kind string, chunk uint64) {
	var ps []sessPeer
	reqTimeout, callTimeout := 120*time.Millisecond, 2500*time.Millisecond
	switch kind {
	case "slowcapable":
		ps = []sessPeer{{have: 120}, {have: 5}, {have: 5}, {have: 5}}
	case "realhang":
		ps = []sessPeer{{have: 120, behs: []string{"silent"}}, {have: 120}}
		reqTimeout, callTimeout = 300*time.Millisecond, 4*time.Second // (the silent peer says nothing for 6 s)
	}
	n := len(ps)
	ids := make([]peer.ID, n)
	for i := 0; i < n; i++ {
		p := ps[i]
		e.peers[i].Reset(false, func(k int, req *p2p_pb.HeaderRequest) peers.Reply {
			b := "honest"
			if k < len(p.behs) {
				b = p.behs[k]
			}
			return e.rangeReply(b, req.GetOrigin(), req.Amount, p.have)
		})
		ids[i] = e.hosts[i+1].ID()
	}
	ex := e.client(nil, chunk, reqTimeout)
	defer ex.Stop(context.Background()) //nolint:errcheck
	ex.VerifSetTrackedPeers(ids...)
	var score float32
	switch kind {
	case "slowcapable":
		ex.VerifRecordOutcome(ids[0], 250, 500*time.Millisecond)
		score = ex.VerifRecordOutcome(ids[0], 250, 500*time.Millisecond)
	case "realhang":
		score = ex.VerifRecordOutcome(ids[0], 5000, 10*time.Millisecond)
	}
	from, to := uint64(6), 6+1+2*chunk
	if to > 100 {
		to = 100
	}
	ctx, cancel := context.WithTimeout(context.Background(), callTimeout)
	t0 := time.Now()
	hs, err := ex.GetRangeByHeight(ctx, e.chain[from-1], to)
	took := time.Since(t0)
	cancel()
	for i := 0; i < n; i++ {
		e.peers[i].Reset(false, nil)
	}
	r := "-"
	if hs != nil {
		var xs []string
		for _, h := range hs {
			tag := utoa(h.H)
			if int(h.H) > len(e.chain) || !sameHeader(h, e.chain[h.H-1]) {
				tag = "X" + tag
			}
			xs = append(xs, tag)
		}
		r = strings.Join(xs, ",")
	}
	ec := "nil"
	if err != nil {
		ec = "err"
		if errors.Is(err, context.DeadlineExceeded) {
			ec = "ctx"
		}
	}
	blocked := 0
	if e.lastGater != nil {
		blocked = len(e.lastGater.ListBlockedPeers()) // every peer here is honest: a benign fault must not get one blocked
	}
	emit("%s kind=twocalls sub=%s from=%d to=%d chunk=%d first=score%.2f => res=%s err=%s tookms=%d blocked=%d", prop, kind, from, to, chunk, score, r, ec, took.Milliseconds(), blocked)
}

// scoreClassCases: EVERY sequence of up to 4 outcomes (sub-millisecond success, 3 ms success, NOT_FOUND) booked on one
// tracked peer by the real updateStats / decreaseScore (hook VerifRecordOutcome): is the float32 score still a finite number?
func (e *p2pEnv) scoreClassCases(prop string) {
	ex := e.client(nil, 1, 120*time.Millisecond)
	defer ex.Stop(context.Background()) //nolint:errcheck
	id := e.hosts[1].ID()
	alphabet := []string{"ok0", "ok3", "fail"}
	var rec func(seq []string)
	rec = func(seq []string) {
		if len(seq) > 0 {
			ex.VerifSetTrackedPeers(id)
			var sc float32
			for _, o := range seq {
				switch o {
				case "ok0":
					sc = ex.VerifRecordOutcome(id, 500, 300*time.Microsecond)
				case "ok3":
					sc = ex.VerifRecordOutcome(id, 500, 3*time.Millisecond)
				default:
					sc = ex.VerifRecordOutcome(id, -1, 0)
				}
			}
			cls := "fin"
			switch {
			case sc != sc:
				cls = "nan"
			case sc > 3e38 || sc < -3e38:
				cls = "inf"
			}
			emit("%s kind=scoreclass seq=%s => class=%s", prop, strings.Join(seq, ","), cls)
		}
		if len(seq) == 4 {
			return
		}
		for _, a := range alphabet {
			rec(append(append([]string{}, seq...), a))
		}
	}
	rec(nil)
}
