package main

import (
	"context"
	"errors"
	"fmt"
	p2p_pb "github.com/celestiaorg/go-header/p2p/pb"
	"github.com/libp2p/go-libp2p/core/peer"
	"os"
	"strings"
	"sync"
	"sync/atomic"
	"time"
	"verifharness/peers"

	header "github.com/celestiaorg/go-header"
	hsync "github.com/celestiaorg/go-header/sync"

	"verifharness/vhdr"
)

func init() { cmds["C19"] = runC19 }

const (
	c19N       = 60
	c19Spacing = int64(60 * time.Second)
)

type c19Run struct {
	chain []*vhdr.Header
	g     *scriptGetter
	s     *hsync.Syncer[*vhdr.Header]
	now0  int64
	tp    time.Duration
	rt    time.Duration
	adv   time.Duration
	a1    string
	a2    string
}

func (r *c19Run) answer(a string) (*vhdr.Header, error) {
	parts := strings.SplitN(a, ":", 2)
	var h int
	if len(parts) == 2 {
		fmt.Sscanf(parts[1], "%d", &h)
	}
	r.g.softAll = parts[0] == "softnopath"
	switch parts[0] {
	case "fresh": // a header of ANOTHER fork at height h with a fresh timestamp: not expired, but it does not verify against the store
		c := r.chain[h-1]
		return &vhdr.Header{Chain: c.Chain, H: c.H, T: time.Now().Add(-2 * time.Second).UnixNano(), Prev: c.Prev, Salt: 8}, nil
	case "softnopath": // soft-failing forged head AND no intermediate header verifies: the descent bottoms out at the subjective head
		c := r.chain[h-1]
		return &vhdr.Header{Chain: c.Chain, H: c.H, T: c.T, Prev: c.Prev, Salt: 3, VK: vhdr.VKVerr1},
			&header.VerifyError{Reason: errors.New("scripted soft"), SoftFailure: true}
	case "ok":
		return r.chain[h-1], nil
	case "soft":
		return r.chain[h-1], &header.VerifyError{Reason: errors.New("scripted soft"), SoftFailure: true}
	case "softbad": // soft failure whose bifurcation cannot succeed: a forged copy
		c := r.chain[h-1]
		return &vhdr.Header{Chain: c.Chain, H: c.H, T: c.T, Prev: c.Prev, Salt: 3, Forged: true},
			&header.VerifyError{Reason: errors.New("scripted soft"), SoftFailure: true}
	}
	return nil, errors.New("scripted head failure")
}

func newC19(storeTo int, tp, rt time.Duration) *c19Run {
	now := time.Now().UnixNano()
	r := &c19Run{now0: now, tp: tp, rt: rt}
	t0 := now - int64(5*time.Second) - int64(c19N-1)*c19Spacing
	r.chain = vhdr.Chain("A", c19N, t0, c19Spacing, 0)
	st := newStoreWith(r.chain, 1, storeTo)
	r.g = &scriptGetter{chain: r.chain}
	r.g.headFn = func(trusted *vhdr.Header) (*vhdr.Header, error) {
		if trusted == nil {
			return r.answer(r.a1)
		}
		return r.answer(r.a2)
	}
	r.s, _ = newSyncer(r.g, st, hsync.WithSyncFromHeight(1))
	r.s.VerifSetPolicy(tp, 60*time.Second, rt)
	return r
}

func c19Case(r *rng, storeTo int, tp time.Duration, events []string) {
	ctx := context.Background()
	run := newC19(storeTo, tp, 600*time.Second)
	emit("case %d C19 store=%d tp=%d rt=%d bt=%d now=%d t1=%d spacing=%d n=%d", nextCase(), storeTo, int64(tp), int64(run.rt), int64(60*time.Second),
		run.now0, run.chain[0].T, c19Spacing, c19N)
	for _, ev := range events {
		f := strings.Fields(ev)
		switch f[0] {
		case "arrive":
			var h int
			fmt.Sscanf(f[1], "%d", &h)
			err := run.s.VerifIncomingNetworkHead(ctx, run.chain[h-1])
			emit("op arrive %d", h)
			emit("ob res=%s", map[bool]string{true: "ok", false: "err"}[err == nil])
		case "advance":
			var sec int
			fmt.Sscanf(f[1], "%d", &sec)
			run.adv += time.Duration(sec) * time.Second
			// advancing the clock by Δ == shifting every policy value the code compares stored times against
			run.s.VerifSetPolicy(run.tp-run.adv, 60*time.Second, run.rt-run.adv)
			emit("op advance %d", sec)
		case "head":
			run.a1, run.a2 = f[1], f[2]
			run.g.take()
			h, err := run.s.Head(ctx)
			res := "err"
			if err == nil && h != nil {
				res = utoa(h.H)
			}
			var reqs []string
			for _, l := range run.g.take() {
				if l == "Head" || strings.HasPrefix(l, "HeadT:") {
					reqs = append(reqs, l)
				}
			}
			rs := strings.Join(reqs, ",")
			if rs == "" {
				rs = "-"
			}
			subj := "-"
			if lh, e := run.s.VerifLocalHead(ctx); e == nil {
				subj = utoa(lh.H)
			}
			emit("op head %s %s", run.a1, run.a2)
			emit("ob res=%s reqs=%s subj=%s", res, rs, subj)
		}
	}
	emit("end")
}

var c19case int

func nextCase() int { c19case++; return c19case }

// Head() with its network request in flight while gossip delivers (and stores) the very header the request will
// answer: afterwards nothing may stay pending, the subjective head is the store head, and a stale gossip header
// below it is refused.
func c19HeadRace(storeTo, extra int) { c19HeadRaceLag(storeTo, extra, 1, 1) }

// c19HeadRaceLag: the in-flight request is answered with storeTo+ans only after gossip has delivered
// storeTo+1 .. storeTo+before (ans <= before: a lagging peer answers late).
func c19HeadRaceLag(storeTo, extra, ans, before int) {
	ctx := context.Background()
	run := newC19(storeTo, 2*time.Hour, 600*time.Second)
	run.a2 = fmt.Sprintf("ok:%d", storeTo+ans)
	run.g.headGate = make(chan struct{})
	done := make(chan string, 1)
	go func() {
		h, err := run.s.Head(ctx)
		if err != nil || h == nil {
			done <- "err"
			return
		}
		done <- utoa(h.H)
	}()
	time.Sleep(20 * time.Millisecond) // the request is in flight
	arr := "ok"
	for h := storeTo + 1; h <= storeTo+before; h++ {
		if err := run.s.VerifIncomingNetworkHead(ctx, run.chain[h-1]); err != nil {
			arr = "err"
		}
	}
	mid := "-"
	close(run.g.headGate)
	res := "hang"
	select {
	case res = <-done:
	case <-time.After(2 * time.Second):
	}
	// the chain keeps growing by gossip
	for h := storeTo + before + 1; h <= storeTo+before+extra && h <= c19N; h++ {
		_ = run.s.VerifIncomingNetworkHead(ctx, run.chain[h-1])
	}
	time.Sleep(20 * time.Millisecond)
	subj := uint64(0)
	run.a1, run.a2 = "fail", "fail" // the public view: Head() of a recent subjective head needs no network
	if lh, e := run.s.Head(ctx); e == nil && lh != nil {
		subj = lh.H
	}
	var pend []string
	for _, rg := range run.s.VerifPendingHeights() {
		for _, h := range rg {
			pend = append(pend, utoa(h))
		}
	}
	ps := strings.Join(pend, ",")
	if ps == "" {
		ps = "-"
	}
	// a stale forged header at a height the store already holds
	c := run.chain[storeTo]
	stale := &vhdr.Header{Chain: c.Chain, H: c.H, T: c.T, Prev: c.Prev, Salt: 6}
	sv := "refuse"
	if err := run.s.VerifIncomingNetworkHead(ctx, stale); err == nil {
		sv = "accept"
	}
	emit("C19 kind=headrace store=%d extra=%d ans=%d before=%d => head=%s mid=%s arrive=%s subj=%d pending=%s stale=%s", storeTo, extra, ans, before, res, mid, arr, subj, ps, sv)
}

// c19HeadRaceStale: caller A's head request (stale subjective head) is still in flight when gossip delivers the
// recent tip; caller B is then served the tip without network; finally A's request fails / brings nothing new.
// Heights returned by Head() never decrease: A must not report less than B already got.
func c19HeadRaceStale(storeTo int, answer string) {
	ctx := context.Background()
	run := newC19(storeTo, 2*time.Hour, 600*time.Second)
	run.a2 = answer
	run.g.headGate = make(chan struct{})
	done := make(chan string, 1)
	go func() {
		h, err := run.s.Head(ctx)
		if err != nil || h == nil {
			done <- "err"
			return
		}
		done <- utoa(h.H)
	}()
	time.Sleep(20 * time.Millisecond) // A's request is in flight
	arr := "ok"
	if err := run.s.VerifIncomingNetworkHead(ctx, run.chain[c19N-1]); err != nil {
		arr = "err"
	}
	b := "err"
	bctx, cancel := context.WithTimeout(ctx, time.Second)
	if h, err := run.s.Head(bctx); err == nil && h != nil {
		b = utoa(h.H) // the tip is recent: no network needed
	}
	cancel()
	close(run.g.headGate)
	a := "hang"
	select {
	case a = <-done:
	case <-time.After(4 * time.Second):
	}
	emit("C19 kind=headstale store=%d answer=%s => arrive=%s b=%s a=%s", storeTo, answer, arr, b, a)
}

// c19Integrated: the real Syncer on top of the real p2p Exchange (mocknet, scripted peers): a stale subjective head,
// `tracked` peers in the tracker (0 = the Exchange falls back to its trusted peers), every asked peer answering
// `answer`. Whatever the Exchange does with the answer, the Syncer must not adopt a head that does not verify
// against its subjective head.
func c19Integrated(e *p2pEnv, storeTo int, tracked int, answer string, R uint64) {
	ctx := context.Background()
	vhdr.TrustRange.Store(R)
	defer vhdr.TrustRange.Store(0)
	n := 2
	ids := make([]peer.ID, n)
	for i := 0; i < n; i++ {
		e.peers[i].Reset(false, func(int, *p2p_pb.HeaderRequest) peers.Reply { return e.headReply(answer) })
		ids[i] = e.hosts[i+1].ID()
	}
	defer func() {
		for i := 0; i < n; i++ {
			e.peers[i].Reset(false, nil)
		}
	}()
	ex := e.client(ids[:1], 0, 500*time.Millisecond) // one trusted peer
	ex.VerifSetTrackedPeers(ids[:tracked]...)
	defer ex.Stop(ctx) //nolint:errcheck
	st := newStoreWith(e.chain, 1, storeTo)
	defer st.Stop(ctx) //nolint:errcheck
	sub := &nopSub{}
	s, err := hsync.NewSyncer[*vhdr.Header](ex, st, sub, hsync.WithSyncFromHeight(1), hsync.WithBlockTime(time.Second),
		hsync.WithRecencyThreshold(time.Millisecond), hsync.WithTrustingPeriod(100*time.Hour))
	if err != nil {
		panic(err)
	}
	s.VerifInit()
	res := "err"
	hctx, cancel := context.WithTimeout(ctx, 3*time.Second)
	if h, err := s.Head(hctx); err == nil && h != nil {
		which := "?"
		if int(h.H) <= len(e.chain) && sameHeader(h, e.chain[h.H-1]) {
			which = "main"
		} else if int(h.H) <= len(e.fork) && sameHeader(h, e.fork[h.H-1]) {
			which = "fork"
		}
		res = fmt.Sprintf("%s:%d", which, h.H)
	}
	cancel()
	_ = st.Sync(ctx)
	stHead := "?"
	if h, err := st.Head(ctx); err == nil {
		if sameHeader(h, e.chain[h.H-1]) {
			stHead = fmt.Sprintf("main:%d", h.H)
		} else {
			stHead = fmt.Sprintf("fork:%d", h.H)
		}
	}
	var pend []string
	for _, rg := range s.VerifPendingHeights() {
		for _, h := range rg {
			pend = append(pend, utoa(h))
		}
	}
	ps := strings.Join(pend, ",")
	if ps == "" {
		ps = "-"
	}
	emit("C19 kind=integrated store=%d tracked=%d answer=%s R=%d => head=%s storehead=%s pending=%s", storeTo, tracked, answer, R, res, stHead, ps)
}

// concurrent callers share one head request and its result
func c19Flight(n int, answer string, prior string) { c19FlightOn(20, n, answer, prior) }

// c19FlightOn: storeTo = 0 puts the callers on the subjective (re)initialisation path
func c19FlightOn(storeTo, n int, answer string, prior string) {
	ctx := context.Background()
	run := newC19(storeTo, 2*time.Hour, 600*time.Second)
	slowTail := prior == "slowtail"
	if slowTail {
		// the fetch of the very first tail header takes a while: the callers that did not start it have to wait for it
		prior = ""
		run.g.hDelay = 120 * time.Millisecond
	}
	if prior != "" {
		// an earlier (sequential) head request with another outcome: its result must not leak into the next flight
		run.a2 = prior
		_, _ = run.s.Head(ctx)
		run.g.take()
	}
	run.a1, run.a2 = "fail", answer
	if storeTo == 0 {
		run.a1 = answer
	}
	run.g.headGate = make(chan struct{})
	var wg sync.WaitGroup
	results := make([]string, n)
	for i := 0; i < n; i++ {
		wg.Add(1)
		go func(i int) {
			defer wg.Done()
			defer func() { // a caller that panics (e.g. on a nil head handed over with a nil error) is an outcome, not a harness crash
				if p := recover(); p != nil {
					results[i] = "panic"
				}
			}()
			h, err := run.s.Head(ctx)
			if err != nil || h == nil {
				results[i] = "err"
			} else {
				results[i] = utoa(h.H)
			}
		}(i)
		time.Sleep(15 * time.Millisecond) // each caller reaches the single-flight wrapper before the next starts
	}
	time.Sleep(30 * time.Millisecond)
	close(run.g.headGate)
	wg.Wait()
	nreq := 0
	for _, l := range run.g.take() {
		if l == "Head" || strings.HasPrefix(l, "HeadT:") {
			nreq++
		}
	}
	if prior == "" {
		prior = "-"
	}
	if slowTail {
		prior = "slowtail"
	}
	emit("C19 kind=flight store=%d n=%d answer=%s prior=%s => reqs=%d results=%s", storeTo, n, answer, prior, nreq, strings.Join(results, ","))
}

func runC19(tier string, r *rng) {
	h2, m30 := 2*time.Hour, 30*time.Minute
	answers := func() string {
		switch r.intn(6) {
		case 0:
			return "fail"
		case 1:
			return fmt.Sprintf("soft:%d", 21+r.intn(39))
		case 2:
			return []string{"softbad", "softnopath"}[r.intn(2)] + fmt.Sprintf(":%d", 22+r.intn(38))
		default:
			return fmt.Sprintf("ok:%d", 1+r.intn(c19N))
		}
	}
	// fixed scenarios: recent head, stale head, expired head, empty store
	c19Case(r, 60, h2, []string{"head fail fail", "head ok:60 ok:60", "advance 700", "head fail ok:60", "head fail fail"})
	c19Case(r, 20, h2, []string{"head fail ok:30", "head fail ok:25", "head fail ok:59", "head fail fail", "arrive 60", "head fail fail"})
	c19Case(r, 20, m30, []string{"head fail fail", "head ok:10 fail", "head ok:59 fail", "head fail ok:60"})
	c19Case(r, 20, m30, []string{"head ok:30 fail", "head ok:40 fail"}) // peers' head is expired as well
	c19Case(r, 0, h2, []string{"head fail fail", "head ok:5 fail", "head ok:58 fail", "head fail fail"})
	// the stored head is expired and the trusted peers answer with a fresh header that does not verify against it
	c19Case(r, 20, m30, []string{"head fresh:15 fail", "head fresh:20 fail"})
	// soft-failing network heads through the recency path: one with a path (adopted after bifurcation), forged ones without
	c19Case(r, 20, h2, []string{"head fail soft:40", "head fail softbad:50", "head fail softnopath:55", "head fail softnopath:42", "head fail ok:59"})
	k := 60
	if tier == "thorough" {
		k = 1500
	}
	for i := 0; i < k; i++ {
		storeTo := []int{0, 20, 20, 45, 60}[r.intn(5)]
		tp := []time.Duration{h2, h2, m30, 10 * time.Minute}[r.intn(4)]
		var evs []string
		for j := 0; j < 3+r.intn(6); j++ {
			switch m := r.intn(10); {
			case m < 6:
				evs = append(evs, fmt.Sprintf("head %s %s", answers(), answers()))
			case m < 8 && storeTo > 0:
				evs = append(evs, fmt.Sprintf("arrive %d", 1+r.intn(c19N)))
			default:
				evs = append(evs, fmt.Sprintf("advance %d", []int{10, 110, 700, 2000}[r.intn(4)]))
			}
		}
		c19Case(r, storeTo, tp, evs)
	}
	for _, st := range []int{20, 0} {
		c19CancelledOwner(st)
	}
	for _, n := range []int{2, 3, 5} {
		c19Flight(n, "ok:40", "")
		c19Flight(n, "fail", "")
		c19Flight(n, "ok:40", "fail")  // a failed request earlier, then a shared successful one
		c19Flight(n, "fail", "ok:30")  // a successful request earlier, then a shared failing one
		c19Flight(n, "softbad:44", "") // the shared answer is a soft-failing forged head: nobody may adopt it
		c19Flight(n, "softnopath:44", "")
		c19FlightOn(0, n, "ok:59", "") // empty store: the callers meet on the initialisation request
		c19FlightOn(0, n, "fail", "")
		c19FlightOn(0, n, "ok:59", "slowtail")
		c19HeadRace(20, 2*n)
		c19HeadRaceLag(20, n, 2, 5)
		c19HeadRaceLag(20, 0, 3, 6)
	}
	{
		e := newP2PEnv(2)
		for _, tracked := range []int{0, 1, 2} {
			for _, ans := range []string{"main:21", "fork:21", "fork:30", "main:30", "main:60", "main:15", "fail:notfound"} {
				c19Integrated(e, 20, tracked, ans, 15) // trust range 15: main:60 only soft-fails against 20
			}
		}
		e.closer()
	}
	for _, ans := range []string{"fail", "ok:20", "ok:15", "ok:40"} {
		c19HeadRaceStale(20, ans)
	}
	c19TailDown(10, 40, 5)
	c19TailDown(20, 30, 1)
	c19LagStore(20, 5)
	c19LagStore(45, 10)
	if os.Getenv("VERIF_NO_COLDSTART") == "" {
		c19ColdStart(20)
		c19ColdStart(45)
	}
	if os.Getenv("VERIF_NO_STALEPENDING") == "" {
		for _, ab := range [][3]int{{20, 23, 24}, {20, 23, 30}, {10, 12, 13}, {20, 40, 41}} {
			c19StalePending(ab[0], ab[1], ab[2])
		}
	}
}

// c19CancelledOwner: a Head() call whose context is already done happens to own the head request; the calls after it
// are healthy: the next one issues its own single request and adopts the answer, without waiting for anything.
func c19CancelledOwner(storeTo int) {
	ctx := context.Background()
	run := newC19(storeTo, 2*time.Hour, 600*time.Second)
	run.a1, run.a2 = "fail", "ok:40"
	if storeTo == 0 {
		run.a1 = "ok:59"
	}
	dead, cancel := context.WithCancel(ctx)
	cancel()
	_, err0 := run.s.Head(dead)
	run.g.take()
	hctx, hcancel := context.WithTimeout(ctx, 5*time.Second)
	t0 := time.Now()
	h, err := run.s.Head(hctx)
	took := time.Since(t0)
	hcancel()
	res := "err"
	if err == nil && h != nil {
		res = utoa(h.H)
	}
	nreq := 0
	for _, l := range run.g.take() {
		if l == "Head" || strings.HasPrefix(l, "HeadT:") {
			nreq++
		}
	}
	slow := 0
	if took > 1700*time.Millisecond { // (a call that joins a dead flight waits for the whole NetworkHeadRequestTimeout, 2 s)
		slow = 1
	}
	emit("C19 kind=cancelledowner store=%d => first=%s head=%s reqs=%d slow=%d", storeTo, errs(err0), res, nreq, slow)
}

// c19StalePending: caller A of Head() is handed network head `a` and is stopped inside setLocalHead after it read the
// store head (check) and before it puts `a` into the pending set (act). Caller B then learns the newer head `b`, the
// sync loop stores everything up to `b` and B returns `b`. A goes on. Afterwards caller C asks again (peers still
// report `b`). Heights returned by Head() never decrease: C (which starts after B returned) must not get less than B.
func c19StalePending(storeTo, a, b int) {
	ctx := context.Background()
	run := newSyncRun(storeTo)
	run.s.VerifSetPolicy(100*time.Hour, time.Second, time.Millisecond) // the stored head is never "recent": Head() asks the network
	var cur atomic.Pointer[vhdr.Header]
	cur.Store(run.chain[storeTo-1])
	run.g.headFn = func(*vhdr.Header) (*vhdr.Header, error) { return cur.Load(), nil }
	sctx, cancel := context.WithTimeout(ctx, 3*time.Second)
	err := run.s.Start(sctx)
	cancel()
	if err != nil {
		emit("C19 kind=stalepending store=%d a=%d b=%d => start=err", storeTo, a, b)
		return
	}
	run.quiesce()
	c := run.chain[a-1]
	gated := &vhdr.Header{Chain: c.Chain, H: c.H, T: c.T, Prev: c.Prev, Salt: c.Salt, VK: c.VK,
		ParkIn: "setLocalHead", ParkDirect: true, ParkSkip: 1, Parked: make(chan struct{}), Release: make(chan struct{})}
	cur.Store(gated)
	headOnce := func(d time.Duration) string {
		hctx, cancelH := context.WithTimeout(ctx, d)
		defer cancelH()
		if h, err := run.s.Head(hctx); err == nil && h != nil {
			return utoa(h.H)
		}
		return "err"
	}
	adone := make(chan string, 1)
	go func() { adone <- headOnce(10 * time.Second) }()
	parked := "yes"
	select {
	case <-gated.Parked:
	case <-time.After(2 * time.Second):
		parked = "no"
	}
	cur.Store(run.chain[b-1])
	resB := headOnce(5 * time.Second)
	run.quiesce()
	close(gated.Release)
	resA := "hang"
	select {
	case resA = <-adone:
	case <-time.After(5 * time.Second):
	}
	run.quiesce()
	resC := headOnce(5 * time.Second)
	run.quiesce()
	emit("C19 kind=stalepending store=%d a=%d b=%d => start=ok parked=%s hb=%s ha=%s hc=%s %s", storeTo, a, b, parked, resB, resA, resC, run.observe())
	_ = run.s.Stop(ctx)
	c2, cancel3 := context.WithTimeout(ctx, time.Second)
	_ = run.st.Stop(c2)
	cancel3()
}

// gateHeadStore: a Store whose FIRST Head() call is paused after it has read the head.
type gateHeadStore struct {
	header.Store[*vhdr.Header]
	first  atomic.Bool
	read   chan struct{}
	resume chan struct{}
}

func (g *gateHeadStore) Head(ctx context.Context, opts ...header.HeadOption[*vhdr.Header]) (*vhdr.Header, error) {
	h, err := g.Store.Head(ctx, opts...)
	if g.first.CompareAndSwap(false, true) {
		close(g.read)
		<-g.resume
	}
	return h, err
}

// c19ColdStart: nothing has loaded the Syncer's cached store head yet. Caller A of Head() is paused inside its (first) read
// of the store head; gossip delivers the next header, which is adjacent and stored at once; caller B gets it; A goes on;
// caller C asks. C (which starts after B returned) must not get less than B.
func c19ColdStart(storeTo int) {
	ctx := context.Background()
	now := time.Now().UnixNano()
	t0 := now - int64(5*time.Second) - int64(c19N-1)*c19Spacing
	chain := vhdr.Chain("A", c19N, t0, c19Spacing, 0)
	gs := &gateHeadStore{Store: newStoreWith(chain, 1, storeTo), read: make(chan struct{}), resume: make(chan struct{})}
	g := &scriptGetter{chain: chain}
	g.headFn = func(*vhdr.Header) (*vhdr.Header, error) { return nil, errors.New("scripted head failure") }
	s, _ := newSyncer(g, gs, hsync.WithSyncFromHeight(1))
	s.VerifSetPolicy(100*time.Hour, 60*time.Second, 100*time.Hour) // every stored head is recent: Head() needs no network
	headOnce := func() string {
		hctx, cancel := context.WithTimeout(ctx, 3*time.Second)
		defer cancel()
		if h, err := s.Head(hctx); err == nil && h != nil {
			return utoa(h.H)
		}
		return "err"
	}
	adone := make(chan string, 1)
	go func() { adone <- headOnce() }()
	paused := "yes"
	select {
	case <-gs.read:
	case <-time.After(2 * time.Second):
		paused = "no"
	}
	arr := "ok"
	if err := s.VerifIncomingNetworkHead(ctx, chain[storeTo]); err != nil {
		arr = "err"
	}
	hb := headOnce()
	close(gs.resume)
	ha := "hang"
	select {
	case ha = <-adone:
	case <-time.After(4 * time.Second):
	}
	hc := headOnce()
	emit("C19 kind=coldstart store=%d => paused=%s arrive=%s ha=%s hb=%s hc=%s", storeTo, paused, arr, ha, hb, hc)
}

// lagStore: a Store whose own Head() does not see new writes yet (the reason syncStore caches the head at all).
type lagStore struct {
	header.Store[*vhdr.Header]
	held atomic.Pointer[vhdr.Header]
}

func (l *lagStore) Head(ctx context.Context, opts ...header.HeadOption[*vhdr.Header]) (*vhdr.Header, error) {
	if h := l.held.Load(); h != nil {
		return h, nil
	}
	return l.Store.Head(ctx, opts...)
}

// c19LagStore: over a store whose Head() lags behind Append, head 21 is learned, then the tail follows the head and the
// headers below it are pruned. Head() must not go back to what the lagging store reports.
func c19LagStore(storeTo, window int) {
	ctx := context.Background()
	now := time.Now().UnixNano()
	t0 := now - int64(5*time.Second) - int64(c19N-1)*c19Spacing
	chain := vhdr.Chain("A", c19N, t0, c19Spacing, 0)
	ls := &lagStore{Store: newStoreWith(chain, 1, storeTo)}
	g := &scriptGetter{chain: chain}
	g.headFn = func(*vhdr.Header) (*vhdr.Header, error) { return nil, errors.New("scripted head failure") }
	s, _ := newSyncer(g, ls, hsync.WithPruningWindow(time.Duration(window)*time.Duration(c19Spacing)+30*time.Second))
	s.VerifSetPolicy(100*time.Hour, time.Duration(c19Spacing), 100*time.Hour)
	headOnce := func() string {
		hctx, cancel := context.WithTimeout(ctx, 3*time.Second)
		defer cancel()
		if h, err := s.Head(hctx); err == nil && h != nil {
			return utoa(h.H)
		}
		return "err"
	}
	h0 := headOnce()
	ls.held.Store(chain[storeTo-1])
	arr := "ok"
	if err := s.VerifIncomingNetworkHead(ctx, chain[storeTo]); err != nil {
		arr = "err"
	}
	h1 := headOnce()
	mv := "ok"
	tctx, cancelT := context.WithTimeout(ctx, 3*time.Second)
	tl, err := s.VerifSubjectiveTail(tctx, chain[storeTo])
	cancelT()
	tail := uint64(0)
	if err != nil {
		mv = "err"
	} else if tl != nil {
		tail = tl.H
	}
	h2 := headOnce()
	h3 := headOnce()
	emit("C19 kind=lagstore store=%d window=%d => h0=%s arrive=%s h1=%s tailmove=%s tail=%d h2=%s h3=%s", storeTo, window, h0, arr, h1, mv, tail, h2, h3)
}

// c19TailDown: a synced store lo..hi whose configured tail (SyncFromHeight) lies BELOW its tail: the tail moves down and the
// difference is fetched and appended below the head. Head() must not follow that backward append, and a stale header
// between the old tail and the head is still refused as known.
func c19TailDown(lo, hi int, sfh uint64) {
	ctx := context.Background()
	now := time.Now().UnixNano()
	t0 := now - int64(5*time.Second) - int64(c19N-1)*c19Spacing
	chain := vhdr.Chain("A", c19N, t0, c19Spacing, 0)
	st := newStoreWith(chain, lo, hi)
	g := &scriptGetter{chain: chain}
	g.headFn = func(*vhdr.Header) (*vhdr.Header, error) { return nil, errors.New("scripted head failure") }
	s, _ := newSyncer(g, st, hsync.WithSyncFromHeight(sfh))
	s.VerifSetPolicy(100*time.Hour, time.Duration(c19Spacing), 100*time.Hour)
	headOnce := func() string {
		hctx, cancel := context.WithTimeout(ctx, 3*time.Second)
		defer cancel()
		if h, err := s.Head(hctx); err == nil && h != nil {
			return utoa(h.H)
		}
		return "err"
	}
	h1 := headOnce()
	mv := "ok"
	tctx, cancelT := context.WithTimeout(ctx, 3*time.Second)
	tl, err := s.VerifSubjectiveTail(tctx, chain[hi-1])
	cancelT()
	tail := uint64(0)
	if err != nil {
		mv = "err"
	} else if tl != nil {
		tail = tl.H
	}
	_ = st.Sync(ctx)
	h2 := headOnce()
	stale := "refuse"
	c := chain[hi-3]
	if err := s.VerifIncomingNetworkHead(ctx, &vhdr.Header{Chain: c.Chain, H: c.H, T: c.T, Prev: c.Prev, Salt: 6}); err == nil {
		stale = "accept"
	}
	h3 := headOnce()
	emit("C19 kind=taildown lo=%d hi=%d sfh=%d => h1=%s tailmove=%s tail=%d h2=%s stale=%s h3=%s", lo, hi, sfh, h1, mv, tail, h2, stale, h3)
}
