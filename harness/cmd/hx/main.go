// hx — correspondence harness: runs the real go-header code (from /repo's working tree) on
// generated inputs / operation sequences and prints inputs + canonical observations in the line
// protocol the Lean driver reads.
package main

import (
	"fmt"
	"os"
	"time"
)

var cmds = map[string]func(tier string, r *rng){}

func main() {
	if len(os.Args) < 2 {
		fmt.Fprintln(os.Stderr, "usage: hx <property> [quick|thorough]")
		os.Exit(2)
	}
	tier := "quick"
	if len(os.Args) > 2 {
		tier = os.Args[2]
	}
	f, ok := cmds[os.Args[1]]
	if !ok {
		fmt.Fprintln(os.Stderr, "unknown property", os.Args[1])
		os.Exit(2)
	}
	// watchdog: a wedged case must not wedge the check
	go func() {
		time.Sleep(25 * time.Minute)
		out.Flush()
		fmt.Fprintln(os.Stderr, "hx: watchdog timeout")
		os.Exit(3)
	}()
	r := &rng{s: seed()}
	defer out.Flush()
	f(tier, r)
}
