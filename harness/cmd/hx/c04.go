package main

import (
	"context"
	"errors"
	"fmt"
	"github.com/celestiaorg/go-header/store"
	ds "github.com/ipfs/go-datastore"
	contextds "github.com/ipfs/go-datastore/context"
	"os"
	"strconv"
	"strings"
	"sync"
	"time"
	"verifharness/memds"
	"verifharness/vhdr"
)

func init() {
	cmds["C04"] = func(t string, r *rng) { runStoreProp("C04", t, r) }
	cmds["C08"] = func(t string, r *rng) { runStoreProp("C08", t, r) }
	cmds["C14"] = func(t string, r *rng) { runStoreProp("C14", t, r) }
}

// parseStoreCase reads back a printed case (replay files, corpus).
func parseStoreCase(text string) (prop string, cfg storeCfg, ops []storeOp, ranges bool) {
	for _, l := range strings.Split(text, "\n") {
		f := strings.Fields(l)
		if len(f) == 0 {
			continue
		}
		switch f[0] {
		case "case":
			prop = f[2]
			for _, kv := range f[3:] {
				p := strings.SplitN(kv, "=", 2)
				v, _ := strconv.Atoi(p[1])
				switch p[0] {
				case "batch":
					cfg.batch = v
				case "cache":
					cfg.cache = v
				case "flavour":
					cfg.flavour = p[1]
				case "par":
					cfg.par = v
				case "n":
					cfg.n = v
				case "ranges":
					ranges = v == 1
				}
			}
		case "op":
			op := storeOp{kind: f[1]}
			switch f[1] {
			case "append":
				for _, s := range strings.Split(f[2], ",") {
					v, _ := strconv.ParseUint(s, 10, 64)
					op.hs = append(op.hs, v)
				}
			case "delete":
				op.a, _ = strconv.ParseUint(f[2], 10, 64)
				op.b, _ = strconv.ParseUint(f[3], 10, 64)
			case "ondelete":
				op.script = f[2]
			}
			ops = append(ops, op)
		}
	}
	return
}

// online generator: looks at the real store's ends to aim deletes at the interesting shapes.
type storeGen struct {
	r      *rng
	prop   string
	run    *storeRun
	top    uint64 // highest height appended so far
	ranges bool
}

func (g *storeGen) do(op storeOp) { g.run.do(op, g.ranges) }

func (g *storeGen) ends() (hd, tl uint64, ok bool) {
	h, err1 := g.run.st.Head(context.Background())
	t, err2 := g.run.st.Tail(context.Background())
	if err1 != nil || err2 != nil {
		return 0, 0, false
	}
	return h.H, t.H, true
}

func (g *storeGen) appendOp() storeOp {
	r, n := g.r, uint64(g.run.cfg.n)
	var hs []uint64
	mode := r.intn(100)
	switch {
	case mode < 55 || g.top == 0: // next contiguous chunk
		k := uint64(1 + r.intn(4))
		start := g.top + 1
		if g.top == 0 && r.chance(1, 2) {
			start = uint64(1 + r.intn(4))
		}
		for h := start; h < start+k && h <= n; h++ {
			hs = append(hs, h)
		}
	case mode < 62 && g.top > 0: // starts right above the top, k repeated headers and a hole of exactly k heights, the last one highest
		a := 1 + r.intn(3)        // contiguous heights before the repeats
		k := uint64(1 + r.intn(2)) // repeats = width of the hole
		h := g.top
		for i := 0; i < a; i++ {
			h++
			hs = append(hs, h)
		}
		for i := uint64(0); i < k; i++ {
			hs = append(hs, h)
		}
		h += k
		for i := 0; i < 1+r.intn(2); i++ {
			h++
			hs = append(hs, h)
		}
	case mode < 70: // leave a gap
		start := g.top + 2 + uint64(r.intn(2))
		for h := start; h < start+uint64(1+r.intn(2)) && h <= n; h++ {
			hs = append(hs, h)
		}
	case mode < 80: // reversed chunk
		k := uint64(2 + r.intn(3))
		for h := g.top + k; h > g.top; h-- {
			if h <= n {
				hs = append(hs, h)
			}
		}
	case mode < 88: // repeat something old
		hs = append(hs, uint64(1+r.intn(int(g.top))))
	default: // any heights (fills gaps, goes below the tail, …)
		k := 1 + r.intn(3)
		for i := 0; i < k; i++ {
			hs = append(hs, uint64(1+r.intn(int(n))))
		}
	}
	var kept []uint64
	for _, h := range hs {
		if h >= 1 && h <= n {
			kept = append(kept, h)
		}
	}
	hs = kept
	if len(hs) == 0 {
		hs = []uint64{uint64(1 + r.intn(int(n)))}
	}
	for _, h := range hs {
		if h > g.top {
			g.top = h
		}
	}
	return storeOp{kind: "append", hs: hs}
}

func (g *storeGen) deleteOp() storeOp {
	r, n := g.r, g.run.cfg.n
	hd, tl, ok := g.ends()
	a, b := uint64(r.intn(n+2)), uint64(r.intn(n+3))
	if ok {
		switch m := r.intn(100); {
		case m < 35: // tail side
			a, b = tl, tl+1+uint64(r.intn(int(hd-tl+1)))
		case m < 60 && hd > tl: // head side
			a, b = tl+1+uint64(r.intn(int(hd-tl))), hd+1
		case m < 72: // whole chain
			a, b = tl, hd+1
		case m < 80: // just off the valid shapes
			a, b = tl+uint64(r.intn(2)), hd+uint64(r.intn(3))
		}
	}
	return storeOp{kind: "delete", a: a, b: b}
}

func (g *storeGen) syncObserve() {
	g.do(storeOp{kind: "sync"})
	g.do(storeOp{kind: "observe"})
}

func genStoreCase(prop string, r *rng, tier string) {
	cfg := storeCfg{
		batch:   []int{1, 2, 3, 64}[r.intn(4)],
		cache:   []int{2, 3, 512}[r.intn(3)],
		flavour: []string{"plain", "ctx"}[r.intn(2)],
		n:       6 + r.intn(9),
	}
	if (prop == "C08" || prop == "C14") && r.chance(1, 4) {
		cfg.par = []int{2, 3, 5}[r.intn(3)] // short ranges reach deleteParallel
	}
	ranges := prop == "C04" && (tier == "thorough" || r.chance(1, 6))
	caseNo++
	emit("case %d %s batch=%d cache=%d flavour=%s n=%d ranges=%d par=%d", caseNo, prop, cfg.batch, cfg.cache, cfg.flavour, cfg.n, b2i(ranges), cfg.par)
	run := newStoreRun(cfg, memdsCore())
	if err := run.open(); err != nil {
		emit("ob res=openerr")
		emit("end")
		return
	}
	g := &storeGen{r: r, prop: prop, run: run, ranges: ranges}
	if prop == "C14" || (prop == "C08" && r.chance(1, 4)) || (prop == "C04" && r.chance(1, 5)) {
		nh := 1 + r.intn(3)
		for i := 0; i < nh; i++ {
			sc := "-"
			if (prop == "C14" && cfg.par == 0 && r.chance(2, 3)) || (prop == "C08" && cfg.par == 0 && r.chance(1, 3)) || (prop == "C04" && r.chance(1, 2)) { // call-index scripts need the sequential order
				var fs []string
				for k := 0; k < 1+r.intn(2); k++ {
					fs = append(fs, strconv.Itoa(r.intn(12))+string("epn"[r.intn(3)]))
				}
				sc = strings.Join(fs, ",")
			}
			g.do(storeOp{kind: "ondelete", script: sc})
		}
	}
	steps := 5 + r.intn(14)
	wDel, wRestart := 20, 6
	if prop != "C04" {
		wDel = 35
	}
	for i := 0; i < steps; i++ {
		switch m := r.intn(100); {
		case m < wDel && g.top > 0:
			g.syncObserve()
			g.do(g.deleteOp())
			g.do(storeOp{kind: "observe"})
		case m < wDel+wRestart:
			g.syncObserve()
			g.do(storeOp{kind: "restart"})
			g.do(storeOp{kind: "observe"})
		default:
			g.do(g.appendOp())
			if r.chance(7, 10) {
				g.syncObserve()
			}
		}
	}
	g.syncObserve()
	// continuation: later appends / flushes / a restart must not bring anything back
	if prop != "C04" || r.chance(1, 3) {
		g.do(g.appendOp())
		g.syncObserve()
		g.do(storeOp{kind: "restart"})
		g.do(storeOp{kind: "observe"})
	}
	run.close()
	emit("end")
}

func runStoreProp(prop, tier string, r *rng) {
	if text := os.Getenv("VERIF_REPLAY_CASE"); text != "" {
		p, cfg, ops, ranges := parseStoreCase(text)
		_ = p
		replayStoreCase(prop, cfg, ops, ranges)
		return
	}
	// corpus of minimised past failures first
	for _, text := range loadCorpus(prop) {
		_, cfg, ops, ranges := parseStoreCase(text)
		replayStoreCase(prop, cfg, ops, ranges)
	}
	n := 300
	if tier == "thorough" {
		n = 6000
		// small-scope exhaustive: every op sequence up to length 5 (11 relative ops) on a 9-header chain
		exhaustiveStoreCases(prop, 5, 2, "plain")
		exhaustiveStoreCases(prop, 3, 1, "ctx")
		exhaustiveStoreCases(prop, 3, 64, "plain")
	}
	if prop == "C04" {
		parFailCase(prop, 40, 31, 12, 4, true)
		parFailCase(prop, 40, 31, 12, 4, false)
	}
	if prop == "C08" || prop == "C14" {
		snapshotThenFlushCase(prop)
		readDuringDeleteCase(prop, "plain", 12, 9)
		readDuringDeleteCase(prop, "ctx", 12, 9)
	}
	if prop == "C08" {
		for _, k := range []int{1, 2, 3, 4, 7, 8, 12} {
			delFaultCase(prop, 16, 11, k)
		}
		// the caller's deadline is a parameter too: from seconds to "effectively none" (the budget arithmetic is 64-bit nanoseconds)
		for _, d := range []time.Duration{10 * time.Second, 365 * 24 * time.Hour, 5 * 365 * 24 * time.Hour, 10 * 365 * 24 * time.Hour, 100 * 365 * 24 * time.Hour, 1<<63 - 1} {
			deadlineCase(prop, d)
		}
		flushVsDeleteCase(prop)
		queuedDeleteCase(prop, 21, 31, 41, 25, 32)
		queuedDeleteCase(prop, 10, 14, 20, 12, 15)
		queuedDeleteCase(prop, 10, 14, 20, 5, 15)
	}
	if prop == "C14" || prop == "C08" {
		flushInHandlerCase(prop, 3, 4, 8, 8) // `more` = batch size: the handler's own append forces a flush
		flushInHandlerCase(prop, 6, 4, 6, 6)
		flushInHandlerCase(prop, 5, 6, 4, 4)
		flushInHandlerCaseOn(prop, "ctx", 0, 3, 4, 8, 8)
		flushInHandlerCaseOn(prop, "ctx", 0, 6, 4, 6, 6)
		flushInHandlerCaseOn(prop, "ctx", 0, 7, 8, 6, 6) // heights after the handler's flush are still in the range
		flushInHandlerCaseOn(prop, "plain", 0, 7, 8, 6, 6)
		flushInHandlerCaseOn(prop, "plain", 2, 7, 8, 6, 6) // ... and that flush fails twice before it goes through
		flushInHandlerCaseOn(prop, "ctx", 2, 7, 8, 6, 6)
		// the range's headers are all still pending when the deletion starts; the flush lands in the middle of it
		flushInHandlerCaseOn(prop, "ctx", 0, 7, 8, 12, 12)
		flushInHandlerCaseOn(prop, "plain", 0, 7, 8, 12, 12)
		flushInHandlerCaseOn(prop, "ctx", 2, 7, 8, 12, 12)
		flushInHandlerCaseOn(prop, "plain", 2, 7, 8, 12, 12)
		flushSnapshotRaceCase(prop, 7, 8, 12, 12)
	}
	if prop == "C08" || prop == "C14" {
		for round := 0; round < 8; round++ { // which worker gets which height is up to the scheduler
			parFailCase(prop, 40, 31, 12, 4, false)
			parFailCase(prop, 30, 30, 20, 3, false)
		}
		parFailCase(prop, 20, 21, 15, 5, false) // whole-chain range
		parFailCase(prop, 40, 31, 12, 4, true)  // a single refusing height: other workers carry on above it
		parFailCase(prop, 30, 30, 3, 3, true)
		parFailCase(prop, 20, 21, 10, 4, true) // whole chain, a single refusing height: the head's handlers succeed in round 1
	}
	for i := 0; i < n; i++ {
		genStoreCase(prop, r, tier)
	}
}

func replayStoreCase(prop string, cfg storeCfg, ops []storeOp, ranges bool) {
	caseNo++
	emit("case %d %s batch=%d cache=%d flavour=%s n=%d ranges=%d par=%d", caseNo, prop, cfg.batch, cfg.cache, cfg.flavour, cfg.n, b2i(ranges), cfg.par)
	run := newStoreRun(cfg, memdsCore())
	if err := run.open(); err != nil {
		emit("ob res=openerr")
		emit("end")
		return
	}
	for _, op := range ops {
		run.do(op, ranges)
	}
	run.close()
	emit("end")
}

func memdsCore() *memds.Core { return memds.NewCore() }

// parFailCase: DeleteRange(1,to) on 1..n through the PARALLEL path with a handler refusing every height >= failFrom;
// then the handler heals and the deletion is retried.
func parFailCase(prop string, n, to, failFrom, par int, only bool) {
	ctx := context.Background()
	old := store.VerifSetDeleteRangeParallelThreshold(uint64(par))
	defer store.VerifSetDeleteRangeParallelThreshold(old)
	chain := vhdr.Chain("A", n, storeT0, int64(time.Second), 0)
	core := memds.NewCore()
	st, err := store.NewStore[*vhdr.Header](&memds.Plain{C: core}, store.WithWriteBatchSize(8))
	if err != nil {
		panic(err)
	}
	if err := func() error { sc, end := startCtx(); defer end(); return st.Start(sc) }(); err != nil {
		panic(err)
	}
	defer st.Stop(ctx) //nolint:errcheck
	_ = st.Append(ctx, chain...)
	_ = st.Sync(ctx)
	var mu sync.Mutex
	healed := false
	okCalls, badCalls := map[uint64]int{}, map[uint64]int{}
	unreadable := 0
	st.OnDelete(func(ctx context.Context, h uint64) error {
		mu.Lock()
		defer mu.Unlock()
		c, cancel := context.WithCancel(ctx)
		cancel()
		if x, err := st.GetByHeight(c, h); err != nil || x.H != h {
			unreadable++
		}
		if !healed && (h == uint64(failFrom) || (!only && h > uint64(failFrom))) {
			badCalls[h]++
			time.Sleep(200 * time.Microsecond) // several workers are inside a failing handler at once
			return errors.New("scripted handler error")
		}
		okCalls[h]++
		return nil
	})
	view := func() (tail, head uint64, stored, keys []string) {
		if t, err := st.Tail(ctx); err == nil {
			tail = t.H
		}
		if h, err := st.Head(ctx); err == nil {
			head = h.H
		}
		for h := 1; h <= n; h++ {
			if x, err := st.GetByHeight(cancelled, uint64(h)); err == nil && x.H == uint64(h) {
				stored = append(stored, itoa(h))
			}
		}
		snap := core.Snapshot()
		for h := 1; h <= n; h++ {
			if _, ok := snap["/"+itoa(h)]; ok {
				keys = append(keys, itoa(h))
			} else if _, ok := snap["/headers/"+itoa(h)]; ok {
				keys = append(keys, itoa(h))
			}
		}
		return
	}
	js := func(xs []string) string {
		if len(xs) == 0 {
			return "-"
		}
		return strings.Join(xs, ",")
	}
	dctx, cancel := context.WithTimeout(ctx, 5*time.Second)
	e1 := st.DeleteRange(dctx, 1, uint64(to))
	cancel()
	t1, h1, s1, k1 := view()
	// handled: heights whose handler succeeded exactly once so far
	var once1 []string
	mu.Lock()
	for h := 1; h <= n; h++ {
		if okCalls[uint64(h)] == 1 {
			once1 = append(once1, itoa(h))
		}
	}
	healed = true
	mu.Unlock()
	dctx2, cancel2 := context.WithTimeout(ctx, 5*time.Second)
	var e2 error
	if t1 < uint64(to) && t1 >= 1 {
		e2 = st.DeleteRange(dctx2, t1, uint64(to))
	}
	cancel2()
	if e2 != nil && os.Getenv("VERIF_DEBUG") != "" {
		fmt.Fprintln(os.Stderr, "parfail retry error:", e2)
	}
	t2, h2, s2, k2 := view()
	mu.Lock()
	multi := 0
	for _, c := range okCalls {
		if c > 1 {
			multi++
		}
	}
	mu.Unlock()
	emit("%s kind=parfail n=%d to=%d failfrom=%d par=%d only=%d => res1=%s tail1=%d head1=%d stored1=%s keys1=%s handled1=%s res2=%s tail2=%d head2=%d stored2=%s keys2=%s handledTwice=%d unreadableAtCall=%d",
		prop, n, to, failFrom, par, b2i(only), errs(e1), t1, h1, js(s1), js(k1), js(once1), errs(e2), t2, h2, js(s2), js(k2), multi, unreadable)
}

// queuedDeleteCase: DeleteRange is called while an Append that has already returned is still queued behind a
// busy flush loop (its batch commit is parked). The range [a,b) is a mid-chain range of the REAL chain 1..n2 (it
// would be a head-side range of the stale chain 1..n1 seen before the queue drains): it must be rejected with no
// effect.
func queuedDeleteCase(prop string, n0, n1, n2, a, b int) {
	ctx := context.Background()
	chain := vhdr.Chain("A", n2, storeT0, int64(time.Second), 0)
	core := memds.NewCore()
	st, err := store.NewStore[*vhdr.Header](&memds.Plain{C: core}, store.WithWriteBatchSize(n1-n0))
	if err != nil {
		panic(err)
	}
	if err := func() error { sc, end := startCtx(); defer end(); return st.Start(sc) }(); err != nil {
		panic(err)
	}
	defer st.Stop(ctx) //nolint:errcheck
	_ = st.Append(ctx, chain[:n0]...)
	_ = st.Sync(ctx)
	_ = st.Stop(ctx) // flush everything, then reopen: 1..n0 are on disk
	st, err = store.NewStore[*vhdr.Header](&memds.Plain{C: core}, store.WithWriteBatchSize(n1-n0))
	if err != nil {
		panic(err)
	}
	if err := func() error { sc, end := startCtx(); defer end(); return st.Start(sc) }(); err != nil {
		panic(err)
	}
	parked, release := make(chan struct{}), make(chan struct{})
	var fired sync.Once
	core.WriteGate = func(w memds.Write) {
		if w.Batch {
			fired.Do(func() { close(parked); <-release })
		}
	}
	_ = st.Append(ctx, chain[n0:n1]...) // fills the batch: the flush loop commits and parks
	was := "yes"
	select {
	case <-parked:
	case <-time.After(2 * time.Second):
		was = "no"
	}
	actx, cancelA := context.WithTimeout(ctx, time.Second)
	_ = st.Append(actx, chain[n1:]...) // returns, but stays queued behind the parked flush
	cancelA()
	derr := make(chan error, 1)
	go func() {
		c, cancel := context.WithTimeout(ctx, 5*time.Second)
		defer cancel()
		derr <- st.DeleteRange(c, uint64(a), uint64(b))
	}()
	time.Sleep(30 * time.Millisecond)
	close(release)
	var de error
	select {
	case de = <-derr:
	case <-time.After(6 * time.Second):
		de = errors.New("hang")
	}
	core.WriteGate = nil
	_ = st.Sync(ctx)
	hd, tl := uint64(0), uint64(0)
	if h, err := st.Head(ctx); err == nil {
		hd = h.H
	}
	if h, err := st.Tail(ctx); err == nil {
		tl = h.H
	}
	var stored []string
	for h := 1; h <= n2; h++ {
		if x, err := st.GetByHeight(cancelled, uint64(h)); err == nil && x.H == uint64(h) {
			stored = append(stored, itoa(h))
		}
	}
	emit("%s kind=queued n0=%d n1=%d n2=%d a=%d b=%d => parked=%s delete=%s head=%d tail=%d stored=%s", prop, n0, n1, n2, a, b,
		was, errs(de), hd, tl, strings.Join(stored, ","))
}

// flushInHandlerCase: DeleteRange(1,to) over headers that are still only in the write batch; the handler of the
// LAST height of the range appends more headers and syncs, so that the flush loop writes the pending batch to the
// datastore while that header's handler is in flight. Afterwards nothing of the range may be left anywhere.
func flushInHandlerCase(prop string, n, to, more, batch int) {
	flushInHandlerCaseOn(prop, "plain", 0, n, to, more, batch)
}

// flavour: plain | ctx (context-aware datastore with write batches and read transactions); failCommits: that many batch
// commits of the flush triggered inside the handler fail first (the flush loop retries)
func flushInHandlerCaseOn(prop string, flavour string, failCommits int, n, to, more, batch int) {
	ctx := context.Background()
	chain := vhdr.Chain("A", n+more+2, storeT0, int64(time.Second), 0)
	core := memds.NewCore()
	var dsi ds.Batching = &memds.Plain{C: core}
	if flavour == "ctx" {
		dsi = contextds.WrapDatastore(&memds.Txn{Plain: memds.Plain{C: core}}).(ds.Batching)
	}
	st, err := store.NewStore[*vhdr.Header](dsi, store.WithWriteBatchSize(batch))
	if err != nil {
		panic(err)
	}
	if err := func() error { sc, end := startCtx(); defer end(); return st.Start(sc) }(); err != nil {
		panic(err)
	}
	defer st.Stop(ctx) //nolint:errcheck
	_ = st.Append(ctx, chain[:n]...)
	_ = st.Sync(ctx)
	var mu sync.Mutex
	calls := map[uint64]int{}
	var once sync.Once
	trigger := uint64(to - 1)
	if to >= 6 {
		trigger = uint64(to - 4) // the flush happens in the MIDDLE of the range: later heights of it were pending before
	}
	unreadable := 0
	st.OnDelete(func(ctx context.Context, h uint64) error {
		mu.Lock()
		calls[h]++
		mu.Unlock()
		// the handler looks its header up with the context it was GIVEN (same values, already cancelled: never parks)
		defer func() {
			cctx, ccancel := context.WithCancel(ctx)
			ccancel()
			if x, err := st.GetByHeight(cctx, h); err != nil || x == nil || x.H != h {
				mu.Lock()
				unreadable++
				mu.Unlock()
			}
		}()
		if h == trigger {
			once.Do(func() {
				if failCommits > 0 {
					left := failCommits
					core.Fault = func(w memds.Write) bool {
						if w.Batch && left > 0 && len(w.Ops) > 2 { // the flush loop's commits (not the deleter's)
							left--
							return true
						}
						return false
					}
				}
				_ = st.Append(ctx, chain[n:n+more]...)
				c, cancel := context.WithTimeout(context.Background(), 2*time.Second)
				_ = st.Sync(c)
				cancel()
			})
		}
		return nil
	})
	c, cancel := context.WithTimeout(ctx, 5*time.Second)
	e1 := st.DeleteRange(c, 1, uint64(to))
	cancel()
	_ = st.Sync(ctx)
	_ = st.Append(ctx, chain[n+more:]...) // the next flush must not bring anything back
	_ = st.Sync(ctx)
	hd, tl := uint64(0), uint64(0)
	if h, err := st.Head(ctx); err == nil {
		hd = h.H
	}
	if h, err := st.Tail(ctx); err == nil {
		tl = h.H
	}
	var stored, keys []string
	snap := core.Snapshot()
	for h := 1; h <= n+more+2; h++ {
		if x, err := st.GetByHeight(cancelled, uint64(h)); err == nil && x.H == uint64(h) {
			stored = append(stored, itoa(h))
		}
		if _, ok := snap["/"+itoa(h)]; ok {
			keys = append(keys, itoa(h))
		} else if _, ok := snap["/headers/"+itoa(h)]; ok {
			keys = append(keys, itoa(h))
		}
	}
	// a second delete must not call handlers for heights that were already handled
	c2, cancel2 := context.WithTimeout(ctx, 5*time.Second)
	e2 := error(nil)
	if tl >= 1 && hd > tl {
		e2 = st.DeleteRange(c2, tl, tl+1)
	}
	cancel2()
	twice := 0
	mu.Lock()
	for h, k := range calls {
		if k > 1 && h < uint64(to) {
			twice++
		}
	}
	mu.Unlock()
	js := func(xs []string) string {
		if len(xs) == 0 {
			return "-"
		}
		return strings.Join(xs, ",")
	}
	core.Fault = nil
	emit("%s kind=flushinhandler flavour=%s failcommits=%d n=%d to=%d more=%d batch=%d => delete=%s head=%d tail=%d stored=%s keys=%s second=%s handledTwice=%d unreadableAtCall=%d", prop, flavour, failCommits, n, to, more, batch,
		errs(e1), hd, tl, js(stored), js(keys), errs(e2), twice, unreadable)
}

// exhaustiveStoreCases: EVERY sequence of up to L operations from a state-relative alphabet over a short chain (thorough
// tier): appends at the top / beyond a gap / into the lowest hole / below the tail, sync, the four DeleteRange shapes,
// restart. Each operation is followed by an observation.
func exhaustiveStoreCases(prop string, L int, batch int, flavour string) {
	const nOps = 11
	var rec func(prefix []int)
	rec = func(prefix []int) {
		if len(prefix) > 0 {
			exhaustiveOne(prop, prefix, batch, flavour)
		}
		if len(prefix) == L {
			return
		}
		for k := 0; k < nOps; k++ {
			if len(prefix) == 0 && k >= 4 {
				continue // a sequence starts with an append (anything else on an empty store is covered by length-1 prefixes of others)
			}
			rec(append(append([]int{}, prefix...), k))
		}
	}
	rec(nil)
}

func exhaustiveOne(prop string, ops []int, batch int, flavour string) {
	cfg := storeCfg{batch: batch, cache: 3, flavour: flavour, n: 9}
	caseNo++
	emit("case %d %s batch=%d cache=%d flavour=%s n=%d ranges=%d par=%d", caseNo, prop, cfg.batch, cfg.cache, cfg.flavour, cfg.n, 0, 0)
	run := newStoreRun(cfg, memdsCore())
	if err := run.open(); err != nil {
		emit("ob res=openerr")
		emit("end")
		return
	}
	g := &storeGen{prop: prop, run: run}
	n := uint64(cfg.n)
	appended := map[uint64]bool{}
	app := func(hs ...uint64) {
		var kept []uint64
		for _, h := range hs {
			if h >= 1 && h <= n {
				kept = append(kept, h)
				appended[h] = true
				if h > g.top {
					g.top = h
				}
			}
		}
		if len(kept) > 0 {
			g.do(storeOp{kind: "append", hs: kept})
		}
	}
	for _, k := range ops {
		hd, tl, ok := g.ends()
		switch k {
		case 0:
			app(g.top + 1)
		case 1:
			app(g.top+1, g.top+2)
		case 2:
			app(g.top + 2) // leaves a gap
		case 3:
			app(g.top+3, g.top+2) // beyond a gap, descending
		case 4: // the lowest hole above the tail
			for h := uint64(1); h <= g.top; h++ {
				if !appended[h] && (!ok || h > tl) {
					app(h)
					break
				}
			}
		case 5:
			if ok && tl > 1 {
				app(tl - 1) // below the tail
			}
		case 6:
			g.do(storeOp{kind: "sync"})
		case 7:
			if ok {
				g.do(storeOp{kind: "sync"})
				g.do(storeOp{kind: "delete", a: tl, b: tl + 1})
				delete(appended, tl)
			}
		case 8:
			if ok {
				g.do(storeOp{kind: "sync"})
				g.do(storeOp{kind: "delete", a: hd, b: hd + 1})
			}
		case 9:
			if ok {
				g.do(storeOp{kind: "sync"})
				g.do(storeOp{kind: "delete", a: tl + 1, b: hd}) // mid-chain or empty: rejected
			}
		case 10:
			g.do(storeOp{kind: "sync"})
			g.do(storeOp{kind: "restart"})
		}
		g.do(storeOp{kind: "sync"})
		g.do(storeOp{kind: "observe"})
	}
	run.close()
	emit("end")
}

// delFaultCase: a datastore Delete fails once in the middle of a tail-side DeleteRange (the k-th direct delete);
// the retry from the new Tail must leave NOTHING of the range behind - by height, by hash, or as a raw key.
func delFaultCase(prop string, n, to, failAt int) {
	ctx := context.Background()
	chain := vhdr.Chain("A", n, storeT0, int64(time.Second), 0)
	core := memds.NewCore()
	st, err := store.NewStore[*vhdr.Header](&memds.Plain{C: core}, store.WithWriteBatchSize(4))
	if err != nil {
		panic(err)
	}
	if err := func() error { sc, end := startCtx(); defer end(); return st.Start(sc) }(); err != nil {
		panic(err)
	}
	defer st.Stop(ctx) //nolint:errcheck
	_ = st.Append(ctx, chain...)
	_ = st.Sync(ctx)
	_ = st.Stop(ctx)
	st, err = store.NewStore[*vhdr.Header](&memds.Plain{C: core}, store.WithWriteBatchSize(4))
	if err != nil {
		panic(err)
	}
	if err := func() error { sc, end := startCtx(); defer end(); return st.Start(sc) }(); err != nil {
		panic(err)
	}
	ndel := 0
	core.Fault = func(w memds.Write) bool {
		if w.Batch || len(w.Ops) != 1 || w.Ops[0].Val != nil {
			return false
		}
		ndel++
		return ndel == failAt
	}
	c, cancel := context.WithTimeout(ctx, 5*time.Second)
	e1 := st.DeleteRange(c, 1, uint64(to))
	cancel()
	core.Fault = nil
	t1 := uint64(0)
	t1stored := "-"
	if h, err := st.Tail(ctx); err == nil {
		t1 = h.H
		// does the Tail the store reports after the failed call resolve to a STORED header?
		_, eh := st.GetByHeight(cancelled, h.H)
		_, ex := st.Get(ctx, h.Hash())
		okk, _ := st.Has(ctx, h.Hash())
		t1stored = fmt.Sprintf("byheight:%s,byhash:%s,has:%v", errs(eh), errs(ex), okk)
	}
	var e2 error
	if t1 >= 1 && t1 < uint64(to) {
		c2, cancel2 := context.WithTimeout(ctx, 5*time.Second)
		e2 = st.DeleteRange(c2, t1, uint64(to))
		cancel2()
	}
	view := func(s *store.Store[*vhdr.Header]) (byh, byhash []string) {
		for h := 1; h <= n; h++ {
			if x, err := s.GetByHeight(cancelled, uint64(h)); err == nil && x.H == uint64(h) {
				byh = append(byh, itoa(h))
			}
			if x, err := s.Get(ctx, chain[h-1].Hash()); err == nil && x != nil {
				byhash = append(byhash, itoa(h))
			}
		}
		return
	}
	js := func(xs []string) string {
		if len(xs) == 0 {
			return "-"
		}
		return strings.Join(xs, ",")
	}
	bh1, bx1 := view(st)
	_ = st.Stop(ctx)
	st, err = store.NewStore[*vhdr.Header](&memds.Plain{C: core}, store.WithWriteBatchSize(4))
	if err != nil {
		panic(err)
	}
	if err := func() error { sc, end := startCtx(); defer end(); return st.Start(sc) }(); err != nil {
		panic(err)
	}
	bh2, bx2 := view(st)
	// raw keys of the range left in the datastore (hash keys and height keys)
	left := 0
	snap := core.Snapshot()
	for h := 1; h < to; h++ {
		for k := range snap {
			if strings.HasSuffix(k, "/"+itoa(h)) || strings.HasSuffix(strings.ToUpper(k), strings.ToUpper(chain[h-1].Hash().String())) {
				left++
			}
		}
	}
	tl := uint64(0)
	if h, err := st.Tail(ctx); err == nil {
		tl = h.H
	}
	emit("%s kind=delfault n=%d to=%d failat=%d => res1=%s tail1=%d tail1stored=%s res2=%s byheight=%s byhash=%s byheight2=%s byhash2=%s tail=%d rawleft=%d", prop, n, to, failAt,
		errs(e1), t1, t1stored, errs(e2), js(bh1), js(bx1), js(bh2), js(bx2), tl, left)
}

// readDuringDeleteCase: while DeleteRange(1,to) is under way, something reads a height the deleter has ALREADY processed
// (here: the handler of a later height does; a concurrent reader would do the same). On a context-aware datastore the
// deletes sit in a write batch until the end, so that read still finds the header - and may leave it in a cache.
// When DeleteRange has returned nil, nothing of the range may be retrievable.
func readDuringDeleteCase(prop string, flavour string, n, to int) {
	ctx := context.Background()
	cfg := storeCfg{batch: 4, cache: 512, flavour: flavour, n: n}
	run := newStoreRun(cfg, memdsCore())
	if err := run.open(); err != nil {
		panic(err)
	}
	st := run.st
	_ = st.Append(ctx, run.chain[:n]...)
	_ = st.Sync(ctx)
	_ = st.Stop(ctx)
	if err := run.open(); err != nil { // reopened: caches are cold, reads come from the datastore
		panic(err)
	}
	st = run.st
	seen := 0
	st.OnDelete(func(ctx context.Context, h uint64) error {
		if h >= 3 {
			c, cancel := context.WithCancel(ctx)
			cancel()
			if x, err := st.GetByHeight(c, h-2); err == nil && x != nil {
				seen++
				_, _ = st.Get(ctx, x.Hash())
			}
		}
		return nil
	})
	c, cancel := context.WithTimeout(ctx, 5*time.Second)
	e1 := st.DeleteRange(c, 1, uint64(to))
	cancel()
	var byh, byhash, has []string
	for h := 1; h < to; h++ {
		if x, err := st.GetByHeight(cancelled, uint64(h)); err == nil && x.H == uint64(h) {
			byh = append(byh, itoa(h))
		}
		if x, err := st.Get(ctx, run.chain[h-1].Hash()); err == nil && x != nil {
			byhash = append(byhash, itoa(h))
		}
		if ok, _ := st.Has(ctx, run.chain[h-1].Hash()); ok {
			has = append(has, itoa(h))
		}
	}
	js := func(xs []string) string {
		if len(xs) == 0 {
			return "-"
		}
		return strings.Join(xs, ",")
	}
	emit("%s kind=readduringdelete flavour=%s n=%d to=%d => delete=%s readsthatfound=%d byheight=%s byhash=%s has=%s", prop, flavour, n, to, errs(e1), seen, js(byh), js(byhash), js(has))
	run.close()
}

// flushSnapshotRaceCase: the headers of the range are still pending; in the middle of the deletion an Append fills the write
// batch, the flush loop takes its snapshot of the pending headers and is parked right before its batch commit; the deletion
// goes on (it removes the remaining headers from the pending batch) and returns; then the flush commits its snapshot.
// What DeleteRange reported as removed must not come back.
func flushSnapshotRaceCase(prop string, n, to, more, batch int) {
	ctx := context.Background()
	chain := vhdr.Chain("A", n+more+2, storeT0, int64(time.Second), 0)
	core := memds.NewCore()
	st, err := store.NewStore[*vhdr.Header](&memds.Plain{C: core}, store.WithWriteBatchSize(batch))
	if err != nil {
		panic(err)
	}
	if err := func() error { sc, end := startCtx(); defer end(); return st.Start(sc) }(); err != nil {
		panic(err)
	}
	defer st.Stop(ctx) //nolint:errcheck
	_ = st.Append(ctx, chain[:n]...)
	_ = st.Sync(ctx)
	parked, release := make(chan struct{}), make(chan struct{})
	var fired, once sync.Once
	trigger := uint64(to / 2)
	st.OnDelete(func(ctx context.Context, h uint64) error {
		if h == trigger {
			once.Do(func() {
				core.WriteGate = func(w memds.Write) {
					if w.Batch {
						fired.Do(func() { close(parked); <-release })
					}
				}
				_ = st.Append(ctx, chain[n:n+more]...) // fills the batch: the flush loop snapshots pending and parks at its commit
				select {
				case <-parked:
					// the commit goes through a little later - the deletion either waits for it or runs ahead of it
					go func() { time.Sleep(40 * time.Millisecond); close(release) }()
				case <-time.After(2 * time.Second):
					close(release)
				}
			})
		}
		return nil
	})
	c, cancel := context.WithTimeout(ctx, 5*time.Second)
	e1 := st.DeleteRange(c, 1, uint64(to))
	cancel()
	was := "yes"
	select {
	case <-parked:
	default:
		was = "no"
		close(release)
	}
	time.Sleep(60 * time.Millisecond)
	core.WriteGate = nil
	_ = st.Sync(ctx)
	_ = st.Append(ctx, chain[n+more:]...)
	_ = st.Sync(ctx)
	hd, tl := uint64(0), uint64(0)
	if h, err := st.Head(ctx); err == nil {
		hd = h.H
	}
	if h, err := st.Tail(ctx); err == nil {
		tl = h.H
	}
	var stored, keys []string
	snap := core.Snapshot()
	for h := 1; h <= n+more+2; h++ {
		if x, err := st.GetByHeight(cancelled, uint64(h)); err == nil && x.H == uint64(h) {
			stored = append(stored, itoa(h))
		}
		if _, ok := snap["/"+itoa(h)]; ok {
			keys = append(keys, itoa(h))
		} else if _, ok := snap["/headers/"+itoa(h)]; ok {
			keys = append(keys, itoa(h))
		}
	}
	js := func(xs []string) string {
		if len(xs) == 0 {
			return "-"
		}
		return strings.Join(xs, ",")
	}
	emit("%s kind=flushinhandler flavour=plain-snapshotrace failcommits=0 n=%d to=%d more=%d batch=%d => parked=%s delete=%s head=%d tail=%d stored=%s keys=%s second=ok handledTwice=0", prop, n, to, more, batch,
		was, errs(e1), hd, tl, js(stored), js(keys))
}

// deadlineCase: tail-side and head-side DeleteRange under a context whose deadline is `d` away.
func deadlineCase(prop string, d time.Duration) {
	ctx := context.Background()
	chain := vhdr.Chain("A", 25, storeT0, int64(time.Second), 0)
	core := memds.NewCore()
	st, err := store.NewStore[*vhdr.Header](&memds.Plain{C: core}, store.WithWriteBatchSize(64))
	if err != nil {
		panic(err)
	}
	if err := func() error { sc, end := startCtx(); defer end(); return st.Start(sc) }(); err != nil {
		panic(err)
	}
	defer st.Stop(ctx) //nolint:errcheck
	_ = st.Append(ctx, chain[:20]...)
	_ = st.Sync(ctx)
	_ = st.Append(ctx, chain[20:]...)
	c, cancel := context.WithTimeout(ctx, d)
	e1 := st.DeleteRange(c, 1, 8)
	e2 := st.DeleteRange(c, 23, 26)
	cancel()
	var byh []string
	for h := 1; h <= 25; h++ {
		if x, err := st.GetByHeight(cancelled, uint64(h)); err == nil && x.H == uint64(h) {
			byh = append(byh, itoa(h))
		}
	}
	hd, tl := uint64(0), uint64(0)
	if h, err := st.Head(ctx); err == nil {
		hd = h.H
	}
	if h, err := st.Tail(ctx); err == nil {
		tl = h.H
	}
	emit("%s kind=deadline hours=%d => tailside=%s headside=%s head=%d tail=%d byheight=%s", prop, int64(d/time.Hour), errs(e1), errs(e2), hd, tl, strings.Join(byh, ","))
}

// flushVsDeleteCase: the deleter sits in the datastore Delete of an UNFLUSHED header (it holds the store's flush lock there)
// when an Append fills the write batch and the flush loop starts a flush. The flush must write the pending batch as it is
// AFTER the deleter has finished with that header - not a copy taken before: DeleteRange returned nil, the header is gone.
func flushVsDeleteCase(prop string) {
	ctx := context.Background()
	chain := vhdr.Chain("A", 8, storeT0, int64(time.Second), 0)
	core := memds.NewCore()
	open := func() *store.Store[*vhdr.Header] {
		st, err := store.NewStore[*vhdr.Header](&memds.Plain{C: core}, store.WithWriteBatchSize(4))
		if err != nil {
			panic(err)
		}
		if err := func() error { sc, end := startCtx(); defer end(); return st.Start(sc) }(); err != nil {
			panic(err)
		}
		return st
	}
	st := open()
	_ = st.Append(ctx, chain[:3]...) // 1..3, all still pending (batch of 4)
	_ = st.Sync(ctx)
	victim := "/headers/" + strings.ToUpper(chain[1].Hash().String())
	parked, release := make(chan struct{}), make(chan struct{})
	var fired sync.Once
	core.WriteGate = func(w memds.Write) {
		if !w.Batch && len(w.Ops) == 1 && w.Ops[0].Val == nil && strings.EqualFold(w.Ops[0].Key, victim) {
			fired.Do(func() { close(parked); <-release })
		}
	}
	derr := make(chan error, 1)
	go func() {
		c, cancel := context.WithTimeout(ctx, 5*time.Second)
		defer cancel()
		derr <- st.DeleteRange(c, 1, 3)
	}()
	was := "yes"
	select {
	case <-parked:
	case <-time.After(2 * time.Second):
		was = "no"
	}
	actx, cancelA := context.WithTimeout(ctx, time.Second)
	_ = st.Append(actx, chain[3:6]...) // 4..6: the batch is full, the flush loop starts flushing
	cancelA()
	time.Sleep(60 * time.Millisecond)
	close(release)
	e := <-derr
	core.WriteGate = nil
	_ = st.Sync(ctx)
	view := func(s *store.Store[*vhdr.Header]) string {
		var xs []string
		for h := 1; h <= 6; h++ {
			a, ea := s.GetByHeight(cancelled, uint64(h))
			_, eb := s.Get(ctx, chain[h-1].Hash())
			if (ea == nil && a.H == uint64(h)) || eb == nil {
				xs = append(xs, itoa(h))
			}
		}
		if len(xs) == 0 {
			return "-"
		}
		return strings.Join(xs, ",")
	}
	v1 := view(st)
	_ = st.Stop(ctx)
	st = open()
	v2 := view(st)
	_ = st.Stop(ctx)
	emit("%s kind=flushvsdelete => parked=%s delete=%s retrievable=%s afterrestart=%s", prop, was, errs(e), v1, v2)
}

// snapshotThenFlushCase: context-aware datastore with snapshot read transactions. The deleter is parked right after the
// FIRST read transaction it opens; meanwhile an Append fills the write batch and everything pending is flushed. Whatever the
// deleter reads afterwards - for its own look-ups, for the handlers, for moving the Tail - has to see those headers.
func snapshotThenFlushCase(prop string) {
	ctx := context.Background()
	chain := vhdr.Chain("A", 9, storeT0, int64(time.Second), 0)
	core := memds.NewCore()
	dsi := contextds.WrapDatastore(&memds.Txn{Plain: memds.Plain{C: core}}).(ds.Batching)
	st, err := store.NewStore[*vhdr.Header](dsi, store.WithWriteBatchSize(6), store.WithStoreCacheSize(2), store.WithIndexCacheSize(2))
	if err != nil {
		panic(err)
	}
	if err := func() error { sc, end := startCtx(); defer end(); return st.Start(sc) }(); err != nil {
		panic(err)
	}
	defer st.Stop(ctx) //nolint:errcheck
	_ = st.Append(ctx, chain[:5]...) // 1..5 pending
	_ = st.Sync(ctx)
	var mu sync.Mutex
	unreadable, called := 0, 0
	st.OnDelete(func(hctx context.Context, h uint64) error {
		cctx, cancel := context.WithCancel(hctx)
		cancel()
		x, err := st.GetByHeight(cctx, h)
		mu.Lock()
		called++
		if err != nil || x == nil || x.H != h {
			unreadable++
		}
		mu.Unlock()
		return nil
	})
	parked, release := make(chan struct{}), make(chan struct{})
	var fired sync.Once
	core.TxnGate = func() { fired.Do(func() { close(parked); <-release }) }
	derr := make(chan error, 1)
	go func() {
		c, cancel := context.WithTimeout(ctx, 5*time.Second)
		defer cancel()
		derr <- st.DeleteRange(c, 1, 4)
	}()
	was := "yes"
	select {
	case <-parked:
	case <-time.After(2 * time.Second):
		was = "no"
	}
	actx, cancelA := context.WithTimeout(ctx, time.Second)
	_ = st.Append(actx, chain[5:7]...) // 6,7: the batch of 6 is full, 1..7 go to disk
	cancelA()
	for i := 0; i < 200 && core.LogLen() == 0; i++ {
		time.Sleep(time.Millisecond)
	}
	time.Sleep(20 * time.Millisecond)
	close(release)
	e := <-derr
	core.TxnGate = nil
	_ = st.Sync(ctx)
	tl := uint64(0)
	if t, err := st.Tail(ctx); err == nil {
		tl = t.H
	}
	var left []string
	for h := 1; h <= 7; h++ {
		if x, err := st.GetByHeight(cancelled, uint64(h)); err == nil && x.H == uint64(h) {
			left = append(left, itoa(h))
		}
	}
	emit("%s kind=snapshotflush => parked=%s delete=%s tail=%d stored=%s handlercalls=%d unreadableAtCall=%d", prop, was, errs(e), tl, strings.Join(left, ","), called, unreadable)
}
