package main

import (
	"context"
	"errors"
	"fmt"
	"github.com/celestiaorg/go-header/store"
	"os"
	"strconv"
	"strings"
	"sync"
	"time"
	"verifharness/memds"
	"verifharness/vhdr"
)

func init() {
	cmds["C04"] = func(t string, r *rng) { runStoreProp("C04", t, r) }
	cmds["C08"] = func(t string, r *rng) { runStoreProp("C08", t, r) }
	cmds["C14"] = func(t string, r *rng) { runStoreProp("C14", t, r) }
}

// parseStoreCase reads back a printed case (replay files, corpus).
func parseStoreCase(text string) (prop string, cfg storeCfg, ops []storeOp, ranges bool) {
	for _, l := range strings.Split(text, "\n") {
		f := strings.Fields(l)
		if len(f) == 0 {
			continue
		}
		switch f[0] {
		case "case":
			prop = f[2]
			for _, kv := range f[3:] {
				p := strings.SplitN(kv, "=", 2)
				v, _ := strconv.Atoi(p[1])
				switch p[0] {
				case "batch":
					cfg.batch = v
				case "cache":
					cfg.cache = v
				case "flavour":
					cfg.flavour = p[1]
				case "par":
					cfg.par = v
				case "n":
					cfg.n = v
				case "ranges":
					ranges = v == 1
				}
			}
		case "op":
			op := storeOp{kind: f[1]}
			switch f[1] {
			case "append":
				for _, s := range strings.Split(f[2], ",") {
					v, _ := strconv.ParseUint(s, 10, 64)
					op.hs = append(op.hs, v)
				}
			case "delete":
				op.a, _ = strconv.ParseUint(f[2], 10, 64)
				op.b, _ = strconv.ParseUint(f[3], 10, 64)
			case "ondelete":
				op.script = f[2]
			}
			ops = append(ops, op)
		}
	}
	return
}

// online generator: looks at the real store's ends to aim deletes at the interesting shapes.
type storeGen struct {
	r      *rng
	prop   string
	run    *storeRun
	top    uint64 // highest height appended so far
	ranges bool
}

func (g *storeGen) do(op storeOp) { g.run.do(op, g.ranges) }

func (g *storeGen) ends() (hd, tl uint64, ok bool) {
	h, err1 := g.run.st.Head(context.Background())
	t, err2 := g.run.st.Tail(context.Background())
	if err1 != nil || err2 != nil {
		return 0, 0, false
	}
	return h.H, t.H, true
}

func (g *storeGen) appendOp() storeOp {
	r, n := g.r, uint64(g.run.cfg.n)
	var hs []uint64
	mode := r.intn(100)
	switch {
	case mode < 55 || g.top == 0: // next contiguous chunk
		k := uint64(1 + r.intn(4))
		start := g.top + 1
		if g.top == 0 && r.chance(1, 2) {
			start = uint64(1 + r.intn(4))
		}
		for h := start; h < start+k && h <= n; h++ {
			hs = append(hs, h)
		}
	case mode < 70: // leave a gap
		start := g.top + 2 + uint64(r.intn(2))
		for h := start; h < start+uint64(1+r.intn(2)) && h <= n; h++ {
			hs = append(hs, h)
		}
	case mode < 80: // reversed chunk
		k := uint64(2 + r.intn(3))
		for h := g.top + k; h > g.top; h-- {
			if h <= n {
				hs = append(hs, h)
			}
		}
	case mode < 88: // repeat something old
		hs = append(hs, uint64(1+r.intn(int(g.top))))
	default: // any heights (fills gaps, goes below the tail, …)
		k := 1 + r.intn(3)
		for i := 0; i < k; i++ {
			hs = append(hs, uint64(1+r.intn(int(n))))
		}
	}
	var kept []uint64
	for _, h := range hs {
		if h >= 1 && h <= n {
			kept = append(kept, h)
		}
	}
	hs = kept
	if len(hs) == 0 {
		hs = []uint64{uint64(1 + r.intn(int(n)))}
	}
	for _, h := range hs {
		if h > g.top {
			g.top = h
		}
	}
	return storeOp{kind: "append", hs: hs}
}

func (g *storeGen) deleteOp() storeOp {
	r, n := g.r, g.run.cfg.n
	hd, tl, ok := g.ends()
	a, b := uint64(r.intn(n+2)), uint64(r.intn(n+3))
	if ok {
		switch m := r.intn(100); {
		case m < 35: // tail side
			a, b = tl, tl+1+uint64(r.intn(int(hd-tl+1)))
		case m < 60 && hd > tl: // head side
			a, b = tl+1+uint64(r.intn(int(hd-tl))), hd+1
		case m < 72: // whole chain
			a, b = tl, hd+1
		case m < 80: // just off the valid shapes
			a, b = tl+uint64(r.intn(2)), hd+uint64(r.intn(3))
		}
	}
	return storeOp{kind: "delete", a: a, b: b}
}

func (g *storeGen) syncObserve() {
	g.do(storeOp{kind: "sync"})
	g.do(storeOp{kind: "observe"})
}

func genStoreCase(prop string, r *rng, tier string) {
	cfg := storeCfg{
		batch:   []int{1, 2, 3, 64}[r.intn(4)],
		cache:   []int{2, 3, 512}[r.intn(3)],
		flavour: []string{"plain", "ctx"}[r.intn(2)],
		n:       6 + r.intn(9),
	}
	if (prop == "C08" || prop == "C14") && r.chance(1, 4) {
		cfg.par = []int{2, 3, 5}[r.intn(3)] // short ranges reach deleteParallel
	}
	ranges := prop == "C04" && (tier == "thorough" || r.chance(1, 6))
	caseNo++
	emit("case %d %s batch=%d cache=%d flavour=%s n=%d ranges=%d par=%d", caseNo, prop, cfg.batch, cfg.cache, cfg.flavour, cfg.n, b2i(ranges), cfg.par)
	run := newStoreRun(cfg, memdsCore())
	if err := run.open(); err != nil {
		emit("ob res=openerr")
		emit("end")
		return
	}
	g := &storeGen{r: r, prop: prop, run: run, ranges: ranges}
	if prop == "C14" || (prop == "C08" && r.chance(1, 4)) {
		nh := 1 + r.intn(3)
		for i := 0; i < nh; i++ {
			sc := "-"
			if (prop == "C14" && cfg.par == 0 && r.chance(2, 3)) || (prop == "C08" && cfg.par == 0 && r.chance(1, 3)) { // call-index scripts need the sequential order
				var fs []string
				for k := 0; k < 1+r.intn(2); k++ {
					fs = append(fs, strconv.Itoa(r.intn(12))+string("epn"[r.intn(3)]))
				}
				sc = strings.Join(fs, ",")
			}
			g.do(storeOp{kind: "ondelete", script: sc})
		}
	}
	steps := 5 + r.intn(14)
	wDel, wRestart := 20, 6
	if prop != "C04" {
		wDel = 35
	}
	for i := 0; i < steps; i++ {
		switch m := r.intn(100); {
		case m < wDel && g.top > 0:
			g.syncObserve()
			g.do(g.deleteOp())
			g.do(storeOp{kind: "observe"})
		case m < wDel+wRestart:
			g.syncObserve()
			g.do(storeOp{kind: "restart"})
			g.do(storeOp{kind: "observe"})
		default:
			g.do(g.appendOp())
			if r.chance(7, 10) {
				g.syncObserve()
			}
		}
	}
	g.syncObserve()
	// continuation: later appends / flushes / a restart must not bring anything back
	if prop != "C04" || r.chance(1, 3) {
		g.do(g.appendOp())
		g.syncObserve()
		g.do(storeOp{kind: "restart"})
		g.do(storeOp{kind: "observe"})
	}
	run.close()
	emit("end")
}

func runStoreProp(prop, tier string, r *rng) {
	if text := os.Getenv("VERIF_REPLAY_CASE"); text != "" {
		p, cfg, ops, ranges := parseStoreCase(text)
		_ = p
		replayStoreCase(prop, cfg, ops, ranges)
		return
	}
	// corpus of minimised past failures first
	for _, text := range loadCorpus(prop) {
		_, cfg, ops, ranges := parseStoreCase(text)
		replayStoreCase(prop, cfg, ops, ranges)
	}
	n := 300
	if tier == "thorough" {
		n = 6000
	}
	if prop == "C04" {
		parFailCase(prop, 40, 31, 12, 4, true)
		parFailCase(prop, 40, 31, 12, 4, false)
	}
	if prop == "C08" || prop == "C14" {
		for round := 0; round < 4; round++ {
			parFailCase(prop, 40, 31, 12, 4, false)
			parFailCase(prop, 30, 30, 20, 3, false)
		}
		parFailCase(prop, 20, 21, 15, 5, false) // whole-chain range
		parFailCase(prop, 40, 31, 12, 4, true)  // a single refusing height: other workers carry on above it
		parFailCase(prop, 30, 30, 3, 3, true)
	}
	for i := 0; i < n; i++ {
		genStoreCase(prop, r, tier)
	}
}

func replayStoreCase(prop string, cfg storeCfg, ops []storeOp, ranges bool) {
	caseNo++
	emit("case %d %s batch=%d cache=%d flavour=%s n=%d ranges=%d par=%d", caseNo, prop, cfg.batch, cfg.cache, cfg.flavour, cfg.n, b2i(ranges), cfg.par)
	run := newStoreRun(cfg, memdsCore())
	if err := run.open(); err != nil {
		emit("ob res=openerr")
		emit("end")
		return
	}
	for _, op := range ops {
		run.do(op, ranges)
	}
	run.close()
	emit("end")
}

func memdsCore() *memds.Core { return memds.NewCore() }

// parFailCase: DeleteRange(1,to) on 1..n through the PARALLEL path with a handler refusing every height >= failFrom;
// then the handler heals and the deletion is retried.
func parFailCase(prop string, n, to, failFrom, par int, only bool) {
	ctx := context.Background()
	old := store.VerifSetDeleteRangeParallelThreshold(uint64(par))
	defer store.VerifSetDeleteRangeParallelThreshold(old)
	chain := vhdr.Chain("A", n, storeT0, int64(time.Second), 0)
	core := memds.NewCore()
	st, err := store.NewStore[*vhdr.Header](&memds.Plain{C: core}, store.WithWriteBatchSize(8))
	if err != nil {
		panic(err)
	}
	if err := st.Start(ctx); err != nil {
		panic(err)
	}
	defer st.Stop(ctx) //nolint:errcheck
	_ = st.Append(ctx, chain...)
	_ = st.Sync(ctx)
	var mu sync.Mutex
	healed := false
	okCalls, badCalls := map[uint64]int{}, map[uint64]int{}
	unreadable := 0
	st.OnDelete(func(ctx context.Context, h uint64) error {
		mu.Lock()
		defer mu.Unlock()
		c, cancel := context.WithCancel(ctx)
		cancel()
		if x, err := st.GetByHeight(c, h); err != nil || x.H != h {
			unreadable++
		}
		if !healed && (h == uint64(failFrom) || (!only && h > uint64(failFrom))) {
			badCalls[h]++
			time.Sleep(200 * time.Microsecond) // several workers are inside a failing handler at once
			return errors.New("scripted handler error")
		}
		okCalls[h]++
		return nil
	})
	view := func() (tail, head uint64, stored, keys []string) {
		if t, err := st.Tail(ctx); err == nil {
			tail = t.H
		}
		if h, err := st.Head(ctx); err == nil {
			head = h.H
		}
		for h := 1; h <= n; h++ {
			if x, err := st.GetByHeight(cancelled, uint64(h)); err == nil && x.H == uint64(h) {
				stored = append(stored, itoa(h))
			}
		}
		snap := core.Snapshot()
		for h := 1; h <= n; h++ {
			if _, ok := snap["/"+itoa(h)]; ok {
				keys = append(keys, itoa(h))
			} else if _, ok := snap["/headers/"+itoa(h)]; ok {
				keys = append(keys, itoa(h))
			}
		}
		return
	}
	js := func(xs []string) string {
		if len(xs) == 0 {
			return "-"
		}
		return strings.Join(xs, ",")
	}
	dctx, cancel := context.WithTimeout(ctx, 5*time.Second)
	e1 := st.DeleteRange(dctx, 1, uint64(to))
	cancel()
	t1, h1, s1, k1 := view()
	// handled: heights whose handler succeeded exactly once so far
	var once1 []string
	mu.Lock()
	for h := 1; h <= n; h++ {
		if okCalls[uint64(h)] == 1 {
			once1 = append(once1, itoa(h))
		}
	}
	healed = true
	mu.Unlock()
	dctx2, cancel2 := context.WithTimeout(ctx, 5*time.Second)
	var e2 error
	if t1 < uint64(to) && t1 >= 1 {
		e2 = st.DeleteRange(dctx2, t1, uint64(to))
	}
	cancel2()
	if e2 != nil && os.Getenv("VERIF_DEBUG") != "" {
		fmt.Fprintln(os.Stderr, "parfail retry error:", e2)
	}
	t2, h2, s2, k2 := view()
	mu.Lock()
	multi := 0
	for _, c := range okCalls {
		if c > 1 {
			multi++
		}
	}
	mu.Unlock()
	emit("%s kind=parfail n=%d to=%d failfrom=%d par=%d only=%d => res1=%s tail1=%d head1=%d stored1=%s keys1=%s handled1=%s res2=%s tail2=%d head2=%d stored2=%s keys2=%s handledTwice=%d unreadableAtCall=%d",
		prop, n, to, failFrom, par, b2i(only), errs(e1), t1, h1, js(s1), js(k1), js(once1), errs(e2), t2, h2, js(s2), js(k2), multi, unreadable)
}
