package main

import (
	"errors"
	"time"

	header "github.com/celestiaorg/go-header"

	"verifharness/vhdr"
)

func init() { cmds["C01"] = runC01; cmds["C02"] = runC02 }

const driftNs = int64(10 * time.Second)

type pairSpec struct {
	tz, uz bool
	tc, uc int
	th, uh uint64
	tt, ut int64 // offsets from now, ns
	tv     uint8
}

func mk(zero bool, chain int, h uint64, t int64, vk uint8) *vhdr.Header {
	if zero {
		return nil
	}
	return &vhdr.Header{Chain: []string{"", "A", "B", "a"}[chain], H: h, T: t, VK: vk}
}

func c01Case(p pairSpec) {
	now := time.Now().UnixNano()
	t := mk(p.tz, p.tc, p.th, now+p.tt, vhdr.VKOk)
	u := mk(p.uz, p.uc, p.uh, now+p.ut, p.tv)
	err := header.Verify(t, u)
	emit("C01 tz=%d uz=%d tc=%d uc=%d th=%d uh=%d tt=%d ut=%d now=%d drift=%d tv=%s => %s",
		b2i(p.tz), b2i(p.uz), p.tc, p.uc, p.th, p.uh, now+p.tt, now+p.ut, now, driftNs, tvName(p.tv), verrTag(err))
}

// c01SharedSentinel: a header type whose Verify returns one shared *VerifyError value (hard). A non-adjacent failure is
// reported soft, as it must be; the NEXT, adjacent, failure of the same type must still be hard.
func c01SharedSentinel() {
	now := time.Now().UnixNano()
	t := &vhdr.Header{Chain: "A", H: 5, T: now - int64(time.Hour), VK: vhdr.VKOk}
	far := &vhdr.Header{Chain: "A", H: 9, T: now - int64(time.Minute), VK: vhdr.VKShared}
	adj := &vhdr.Header{Chain: "A", H: 6, T: now - int64(time.Minute), VK: vhdr.VKShared}
	vhdr.SharedVerifyError.SoftFailure = false
	cls := func(err error) string {
		var ve *header.VerifyError
		switch {
		case err == nil:
			return "nil"
		case errors.As(err, &ve) && ve.SoftFailure:
			return "soft"
		case errors.As(err, &ve):
			return "hard"
		}
		return "other"
	}
	a0 := cls(header.Verify(t, adj))
	f := cls(header.Verify(t, far))
	a1 := cls(header.Verify(t, adj))
	emit("C01 kind=sharedsentinel => adjacent0=%s nonadjacent=%s adjacent1=%s", a0, f, a1)
	vhdr.SharedVerifyError.SoftFailure = false
}

// c01TypedNil: the header type's Verify returns a typed-nil *VerifyError in the error interface (a non-nil error).
// Verify must still return a *VerifyError - hard when adjacent, soft when not - and must not panic.
func c01TypedNil() {
	now := time.Now().UnixNano()
	t := &vhdr.Header{Chain: "A", H: 5, T: now - int64(time.Hour), VK: vhdr.VKOk}
	cls := func(u *vhdr.Header) (res string) {
		defer func() {
			if recover() != nil {
				res = "PANIC"
			}
		}()
		err := header.Verify(t, u)
		var ve *header.VerifyError
		switch {
		case err == nil:
			return "nil"
		case errors.As(err, &ve) && ve != nil && ve.SoftFailure:
			return "soft"
		case errors.As(err, &ve) && ve != nil:
			return "hard"
		}
		return "other"
	}
	a := cls(&vhdr.Header{Chain: "A", H: 6, T: now - int64(time.Minute), VK: vhdr.VKNilVerr})
	f := cls(&vhdr.Header{Chain: "A", H: 9, T: now - int64(time.Minute), VK: vhdr.VKNilVerr})
	emit("C01 kind=typednil => adjacent=%s nonadjacent=%s", a, f)
}

func runC01(tier string, r *rng) {
	c01SharedSentinel()
	c01TypedNil()
	hour, min := int64(time.Hour), int64(time.Minute)
	// the complete grid of the property's quantifier (both tiers)
	for _, tz := range []bool{false, true} {
		for _, uz := range []bool{false, true} {
			for _, uc := range []int{1, 2, 3} { // 3: "a", differs from "A" by letter case only
				for _, uh := range []uint64{3, 5, 6, 9} { // <, =, +1, >+1 relative to trusted height 5
					for _, tt := range []int64{-hour, hour} {
						for _, du := range []int64{-10 * min, 0, 10 * min} {
							for tv := vhdr.VKOk; tv <= vhdr.VKJoin1; tv++ {
								c01Case(pairSpec{tz, uz, 1, uc, 5, uh, tt, tt + du, tv})
							}
						}
					}
				}
			}
		}
	}
	// near-drift times (± 2 s around now+drift: far above scheduling noise of a single call)
	for _, off := range []int64{driftNs - 2e9, driftNs + 2e9} {
		for tv := vhdr.VKOk; tv <= vhdr.VKJoin1; tv++ {
			c01Case(pairSpec{false, false, 1, 1, 5, 6, -hour, off, tv})
			c01Case(pairSpec{false, false, 1, 1, 5, 60, -hour, off, tv})
		}
	}
	// sub-second time relations to the trusted header (same Unix second, ± 1 ns, ± 400 ms)
	for _, du := range []int64{-1, 1, -400e6, 400e6, -999999999, 999999999} {
		for tv := vhdr.VKOk; tv <= vhdr.VKJoin1; tv++ {
			c01Case(pairSpec{false, false, 1, 1, 5, 6, -hour, -hour + du, tv})
			c01Case(pairSpec{false, false, 1, 1, 5, 9, -hour + 500e6, -hour + 500e6 + du, tv})
		}
	}
	// random pairs over wider domains
	n := 2000
	if tier == "thorough" {
		n = 100000
	}
	for i := 0; i < n; i++ {
		p := pairSpec{
			tz: r.chance(1, 12), uz: r.chance(1, 12),
			tc: 1 + r.intn(3), uc: 1 + r.intn(3),
			th: uint64(1 + r.intn(6)), uh: uint64(1 + r.intn(9)),
			tv: uint8(1 + r.intn(8)),
		}
		if r.chance(1, 20) {
			p.th = ^uint64(0) - uint64(r.intn(3)) // heights near 2^64 (adjacency wrap)
			p.uh = ^uint64(0) - uint64(r.intn(3))
		}
		p.tt = int64(r.intn(5)-2) * hour
		p.ut = p.tt + int64(r.intn(5)-2)*10*min
		if r.chance(1, 4) { // sub-second offsets
			p.ut = p.tt + int64(r.intn(2000000001)) - 1000000000
		}
		if r.chance(1, 2) { // mostly valid pairs: one defect at most
			p.tz, p.uz, p.uc = false, false, p.tc
			if r.chance(2, 3) {
				p.uh = p.th + 1 + uint64(r.intn(3))
				p.tt = -hour
				p.ut = p.tt + int64(r.intn(3))*10*min
			}
		}
		c01Case(p)
	}
}

// ---- C02 -----------------------------------------------------------------------------------

// header kinds of the sequence alphabet, relative to the rolling predecessor
const (
	kGood      = iota // height+1, later time, type-level ok
	kGap              // height+2
	kDup              // same height as predecessor
	kLower            // lower height
	kZero             // nil header
	kChain            // other chain id
	kSoft             // type-level bare soft error
	kHard             // type-level plain error
	kPast             // earlier time
	kFuture           // time beyond now+drift
	kPastSmall        // 0.4 s before the predecessor (still after the trusted header unless first)
	kSame             // the very same header as its predecessor in the range (the trusted header itself when first)
	kGapLinked        // height+2 whose LastHeader() names the predecessor (a hole papered over by an unauthenticated field)
	nKinds
)

func c02Case(first uint64, kinds []int) { c02CaseT(5, first, kinds) }

// c02CaseT: the same with the trusted header at height th (64-bit boundaries: heights 2^63 and more apart)
func c02CaseT(th uint64, first uint64, kinds []int) {
	now := time.Now().UnixNano()
	hour := int64(time.Hour)
	t := &vhdr.Header{Chain: "A", H: th, T: now - hour, VK: vhdr.VKOk}
	var us []*vhdr.Header
	prevH, prevT := first-1, now-hour
	for _, k := range kinds {
		h := &vhdr.Header{Chain: "A", H: prevH + 1, T: prevT + 1e9, VK: vhdr.VKOk}
		switch k {
		case kGap:
			h.H = prevH + 2
		case kDup:
			h.H = prevH
		case kLower:
			if prevH > 1 {
				h.H = prevH - 1
			} else {
				h.H = prevH
			}
		case kZero:
			h = nil
		case kChain:
			h.Chain = "B"
		case kSoft:
			h.VK = vhdr.VKVerr1
		case kHard:
			h.VK = vhdr.VKPlain
		case kPast:
			h.T = prevT - 60e9
		case kFuture:
			h.T = now + hour
		case kPastSmall:
			h.T = prevT - 400e6
		case kGapLinked:
			h.H = prevH + 2
			h.Prev = t.Hash()
			for i := len(us) - 1; i >= 0; i-- {
				if us[i] != nil {
					h.Prev = us[i].Hash()
					break
				}
			}
		case kSame:
			h = t
			for i := len(us) - 1; i >= 0; i-- {
				if us[i] != nil {
					h = us[i]
					break
				}
			}
		}
		us = append(us, h)
		if h != nil {
			prevH, prevT = h.H, h.T
		}
	}
	res, err := header.VerifyRange(t, us)
	// input rendering: per header z:c:h:t:tv
	in := ""
	for i, h := range us {
		if i > 0 {
			in += ","
		}
		if h == nil {
			in += "Z"
		} else {
			c := 1
			if h.Chain == "B" {
				c = 2
			}
			in += itoa(c) + ":" + utoa(h.H) + ":" + itoa64(h.T) + ":" + tvName(h.VK)
		}
	}
	if in == "" {
		in = "-"
	}
	// result: must be a prefix by identity; render its length and whether it is pointer-identical prefix
	pref := len(res) <= len(us)
	for i := range res {
		if !pref || res[i] != us[i] {
			pref = false
			break
		}
	}
	emit("C02 now=%d drift=%d th=%d tt=%d us=%s => len=%d prefix=%d err=%s", now, driftNs, th, now-hour, in, len(res), b2i(pref), verrTag(err))
}

// c02History: VerifyRange is a function of its arguments only. A range [h1 h2 h3] verifies; afterwards [f1 h2 h3] is
// verified, where f1 is ANOTHER header of h1's height (also valid against the trusted header) to which h2 is not
// linked: the second call returns [f1] and a hard failure, whatever happened in earlier calls.
func c02History() {
	now := time.Now().UnixNano()
	hour := int64(time.Hour)
	t := &vhdr.Header{Chain: "A", H: 5, T: now - hour, VK: vhdr.VKOk}
	h1 := &vhdr.Header{Chain: "A", H: 6, T: now - hour + 1e9, VK: vhdr.VKLink, Prev: t.Hash()}
	h2 := &vhdr.Header{Chain: "A", H: 7, T: now - hour + 2e9, VK: vhdr.VKLink, Prev: h1.Hash()}
	h3 := &vhdr.Header{Chain: "A", H: 8, T: now - hour + 3e9, VK: vhdr.VKLink, Prev: h2.Hash()}
	f1 := &vhdr.Header{Chain: "A", H: 6, T: now - hour + 1e9, VK: vhdr.VKLink, Prev: t.Hash(), Salt: 77}
	cls := func(res []*vhdr.Header, err error) string {
		var ve *header.VerifyError
		e := "nil"
		switch {
		case err == nil:
		case errors.As(err, &ve) && ve.SoftFailure:
			e = "soft"
		case errors.As(err, &ve):
			e = "hard"
		default:
			e = "other"
		}
		return itoa(len(res)) + "/" + e
	}
	for round := 0; round < 2; round++ {
		a := cls(header.VerifyRange(t, []*vhdr.Header{h1, h2, h3}))
		b := cls(header.VerifyRange(t, []*vhdr.Header{f1, h2, h3}))
		c := cls(header.VerifyRange(t, []*vhdr.Header{h1, h2, h3}))
		emit("C02 kind=history round=%d => good=%s swapped=%s again=%s", round, a, b, c)
	}
}

func runC02(tier string, r *rng) {
	c02History()
	// exhaustive: all sequences up to length L over the alphabet, first element adjacent or not
	L := 4
	if tier == "thorough" {
		L = 5
	}
	var rec func(prefix []int)
	rec = func(prefix []int) {
		for _, first := range []uint64{6, 40} {
			c02Case(first, prefix)
		}
		if len(prefix) == L {
			return
		}
		for k := 0; k < nKinds; k++ {
			rec(append(append([]int{}, prefix...), k))
		}
	}
	rec(nil)
	// heights 2^63 and more apart (signed arithmetic on height differences goes wrong exactly there)
	big := uint64(1)<<63 + 9
	for _, ks := range [][]int{{kGood, kGood, kGood}, {kGood}, {kGood, kGap}, {kGood, kLower, kGood}} {
		c02CaseT(big, 1, ks)          // range far BELOW the trusted header: known
		c02CaseT(big, big+1, ks)      // adjacent to it
		c02CaseT(5, big, ks)          // range far ABOVE a low trusted header
		c02CaseT(5, ^uint64(0)-3, ks) // up against the top of uint64
	}
	// random long sequences with one defect at a random position
	n := 300
	if tier == "thorough" {
		n = 20000
	}
	// long inputs (beyond MaxRangeRequestSize): all good, and one defect far behind
	for _, ln := range []int{63, 64, 65, 66, 100, 129, 200} {
		c02Case(6, make([]int, ln))
		c02Case(77, make([]int, ln))
		for _, k := range []int{kGap, kHard, kPastSmall} {
			ks := make([]int, ln)
			ks[ln-1] = k
			c02Case(6, ks)
			ks2 := make([]int, ln)
			ks2[ln/2+1] = k
			c02Case(6, ks2)
		}
	}
	// one defect at EVERY position of a long range (an implementation that splits long ranges has seams somewhere)
	for _, ln := range []int{64, 65, 100, 129, 256} {
		for pos := 0; pos < ln; pos++ {
			for _, k := range []int{kGap, kHard, kLower} {
				if ln > 129 && k != kGap {
					continue
				}
				ks := make([]int, ln)
				ks[pos] = k
				c02Case(6, ks)
			}
		}
	}
	for i := 0; i < n; i++ {
		ln := 1 + r.intn(40)
		if r.chance(1, 10) {
			ln = 60 + r.intn(80)
		}
		ks := make([]int, ln)
		if r.chance(4, 5) {
			ks[r.intn(ln)] = 1 + r.intn(nKinds-1)
		}
		first := uint64(6)
		if r.chance(1, 2) {
			first = uint64(7 + r.intn(100))
		}
		c02Case(first, ks)
	}
}
