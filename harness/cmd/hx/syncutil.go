package main

import (
	"context"
	"errors"
	"fmt"
	"strings"
	"sync"
	"time"

	header "github.com/celestiaorg/go-header"
	"github.com/celestiaorg/go-header/store"
	hsync "github.com/celestiaorg/go-header/sync"

	"verifharness/memds"
	"verifharness/vhdr"
)

var errGetter = errors.New("scripted getter failure")

// scriptGetter: a trusted getter over one chain with a request log and failure injection.
type scriptGetter struct {
	base     uint64 // chain[i] is at height base+i+1
	softAll  bool   // GetByHeight serves headers that soft-fail every verification
	mu       sync.Mutex
	chain    []*vhdr.Header // index h-1
	log      []string       // "H:<height>", "R:<from>-<to>", "Head", "HeadT:<trusted>", "G"
	failH    map[uint64]bool
	headFn   func(trusted *vhdr.Header) (*vhdr.Header, error) // Head() behaviour
	rangeFn  func(from *vhdr.Header, to uint64) ([]*vhdr.Header, error)
	headGate chan struct{} // when set, Head blocks until it is closed
	nfAll    bool          // GetByHeight answers header.ErrNotFound for every height (peers have nothing / pruned everything)
	hDelay   time.Duration // when > 0: every GetByHeight takes that long (a slow tail fetch)
	hGate    chan struct{} // when non-nil: every GetByHeight waits until it is closed (or its context ends)
	budget   int           // when > 0: GetByHeight fails with errBudget after that many requests (non-termination guard)
	nH       int
}

var errBudget = errors.New("scripted getter: request budget exhausted")

func (g *scriptGetter) add(s string) { g.mu.Lock(); g.log = append(g.log, s); g.mu.Unlock() }
func (g *scriptGetter) logLen() int  { g.mu.Lock(); defer g.mu.Unlock(); return len(g.log) }
func (g *scriptGetter) take() []string {
	g.mu.Lock()
	defer g.mu.Unlock()
	l := g.log
	g.log = nil
	return l
}

func (g *scriptGetter) Head(ctx context.Context, opts ...header.HeadOption[*vhdr.Header]) (*vhdr.Header, error) {
	var p header.HeadParams[*vhdr.Header]
	for _, o := range opts {
		o(&p)
	}
	if p.TrustedHead != nil {
		g.add(fmt.Sprintf("HeadT:%d", p.TrustedHead.H))
	} else {
		g.add("Head")
	}
	if g.headGate != nil {
		select {
		case <-g.headGate:
		case <-ctx.Done():
			return nil, ctx.Err()
		}
	}
	if g.headFn != nil {
		return g.headFn(p.TrustedHead)
	}
	return g.chain[len(g.chain)-1], nil
}
func (g *scriptGetter) Get(ctx context.Context, hash header.Hash) (*vhdr.Header, error) {
	g.add("G")
	if err := ctx.Err(); err != nil { // like every real getter (p2p.Exchange selects on ctx.Done()), a dead context gets nothing
		return nil, err
	}
	for _, h := range g.chain {
		if string(h.Hash()) == string(hash) {
			return h, nil
		}
	}
	return nil, header.ErrNotFound
}
func (g *scriptGetter) GetByHeight(ctx context.Context, h uint64) (*vhdr.Header, error) {
	g.add(fmt.Sprintf("H:%d", h))
	if err := ctx.Err(); err != nil {
		return nil, err
	}
	if g.hDelay > 0 {
		time.Sleep(g.hDelay)
	}
	if g.hGate != nil {
		select {
		case <-g.hGate:
		case <-ctx.Done():
			return nil, ctx.Err()
		}
	}
	g.mu.Lock()
	g.nH++
	over := g.budget > 0 && g.nH > g.budget
	g.mu.Unlock()
	if over {
		return nil, errBudget
	}
	if g.nfAll {
		return nil, fmt.Errorf("scripted getter: height %d: %w", h, header.ErrNotFound)
	}
	if g.failH[h] {
		return nil, errGetter
	}
	if h <= g.base || h-g.base > uint64(len(g.chain)) {
		return nil, header.ErrNotFound
	}
	h -= g.base
	if g.softAll {
		// an unhelpful getter: whatever it serves soft-fails every verification, adjacent or not
		c := g.chain[h-1]
		return &vhdr.Header{Chain: c.Chain, H: c.H, T: c.T, Prev: c.Prev, Salt: 4, VK: vhdr.VKVerr1}, nil
	}
	return g.chain[h-1], nil
}
func (g *scriptGetter) GetRangeByHeight(ctx context.Context, from *vhdr.Header, to uint64) ([]*vhdr.Header, error) {
	g.add(fmt.Sprintf("R:%d-%d", from.H, to))
	if err := ctx.Err(); err != nil {
		return nil, err
	}
	if g.rangeFn != nil {
		return g.rangeFn(from, to)
	}
	if to > uint64(len(g.chain))+1 {
		to = uint64(len(g.chain)) + 1
	}
	if from.H+1 >= to {
		return nil, header.ErrNotFound
	}
	return g.chain[from.H : to-1], nil
}

// nopSub: a Subscriber that only remembers the verifier.
type nopSub struct {
	verifier func(context.Context, *vhdr.Header) error
}

func (s *nopSub) Subscribe() (header.Subscription[*vhdr.Header], error) {
	return nil, errors.New("n/a")
}
func (s *nopSub) SetVerifier(f func(context.Context, *vhdr.Header) error) error {
	s.verifier = f
	return nil
}

// newStoreWith: a started real store holding chain[lo-1 .. hi-1].
// slowStore: the next newStoreWith sits on a datastore whose batch commits take this long (a busy flush loop), with this
// write batch size
var (
	slowStoreDelay time.Duration
	slowStoreBatch int
)

func newStoreWith(chain []*vhdr.Header, lo, hi int) *store.Store[*vhdr.Header] {
	core := memds.NewCore()
	batch := 8
	if slowStoreDelay > 0 {
		d := slowStoreDelay
		core.WriteGate = func(w memds.Write) {
			if w.Batch {
				time.Sleep(d)
			}
		}
		batch = slowStoreBatch
		slowStoreDelay = 0
	}
	st, err := store.NewStore[*vhdr.Header](&memds.Plain{C: core}, store.WithWriteBatchSize(batch))
	if err != nil {
		panic(err)
	}
	ctx := context.Background()
	if err := func() error { sc, end := startCtx(); defer end(); return st.Start(sc) }(); err != nil {
		panic(err)
	}
	if hi >= lo && lo >= 1 {
		if err := st.Append(ctx, chain[lo-1:hi]...); err != nil {
			panic(err)
		}
		if err := st.Sync(ctx); err != nil {
			panic(err)
		}
	}
	return st
}

var nSyncers int

func newSyncer(g *scriptGetter, st header.Store[*vhdr.Header], opts ...hsync.Option) (*hsync.Syncer[*vhdr.Header], *nopSub) {
	sub := &nopSub{}
	nSyncers++
	if nSyncers%2 == 0 {
		opts = append(opts, hsync.WithMetrics()) // every other Syncer runs with its metrics on
	}
	s, err := hsync.NewSyncer[*vhdr.Header](g, st, sub, opts...)
	if err != nil {
		panic(err)
	}
	s.VerifInit()
	return s, sub
}

func joinU(xs []uint64) string {
	if len(xs) == 0 {
		return "-"
	}
	s := make([]string, len(xs))
	for i, x := range xs {
		s[i] = utoa(x)
	}
	return strings.Join(s, ",")
}

func heightsOf(log []string, prefix string) []uint64 {
	var out []uint64
	for _, l := range log {
		if strings.HasPrefix(l, prefix) {
			var h uint64
			fmt.Sscanf(l[len(prefix):], "%d", &h)
			out = append(out, h)
		}
	}
	return out
}

var _ = time.Second
