// Package memds: in-memory datastores for the store correspondence harness.
//   Plain — Batching only (like sync.MutexWrap(MapDatastore)): the Store's context-attached write
//           batches and read transactions are no-ops, every delete is a direct write.
//   Txn   — Batching + read transactions (snapshot); wrapped in contextds.WrapDatastore it is the
//           "context-aware" flavour: deletes of one deleteSequential join one atomic batch.
// Both record a commit log (each direct write / each batch commit = one atomic entry) and take a
// fault oracle deciding which writes fail.
package memds

import (
	"context"
	"errors"
	"sort"
	"sync"

	ds "github.com/ipfs/go-datastore"
	dsq "github.com/ipfs/go-datastore/query"
)

var ErrInjected = errors.New("memds: injected write fault")

// ErrInjectedRead is what a Get refused by GetFault returns (a transient read error, NOT ds.ErrNotFound).
var ErrInjectedRead = errors.New("memds: injected read fault")

// Op is one key mutation; Val == nil means delete.
type Op struct {
	Key string
	Val []byte
}

// Write is one atomic entry of the commit log.
type Write struct {
	Batch bool
	Ops   []Op
}

type Core struct {
	mu  sync.Mutex
	m   map[string][]byte
	Log []Write
	// Fault, when set, is consulted once per atomic write (direct write or batch commit), in order;
	// returning true makes that write fail with no effect.
	Fault func(w Write) bool
	// GetGate, when set, is called before every Get (outside the lock); used to park a reader.
	GetGate func(key string)
	// GetGateAfter, when set, is called after every Get has read its value (outside the lock): the caller
	// is parked holding a possibly stale answer.
	GetGateAfter func(key string, found bool)
	// GetFault, when set, is consulted before every Get; returning true makes that Get fail with ErrInjectedRead.
	GetFault func(key string) bool
	// TxnGate, when set, is called right after a read transaction took its snapshot (outside the lock).
	TxnGate func()
	// WriteGate, when set, is called before every atomic write (direct Put/Delete or batch commit) is applied.
	WriteGate func(w Write)
}

func NewCore() *Core { return &Core{m: map[string][]byte{}} }

// FromImage builds a core holding exactly the given key/values (a crash image).
func FromImage(img map[string][]byte) *Core {
	c := NewCore()
	for k, v := range img {
		c.m[k] = append([]byte(nil), v...)
	}
	return c
}

// Image replays a prefix of a commit log.
func Image(log []Write, upto int) map[string][]byte {
	m := map[string][]byte{}
	for _, w := range log[:upto] {
		for _, o := range w.Ops {
			if o.Val == nil {
				delete(m, o.Key)
			} else {
				m[o.Key] = o.Val
			}
		}
	}
	return m
}

func (c *Core) apply(w Write) error {
	if g := c.WriteGate; g != nil {
		g(w) // outside the lock: the writer (flush loop, deleter) can be parked right before its write lands
	}
	c.mu.Lock()
	defer c.mu.Unlock()
	if c.Fault != nil && c.Fault(w) {
		return ErrInjected
	}
	for _, o := range w.Ops {
		if o.Val == nil {
			delete(c.m, o.Key)
		} else {
			c.m[o.Key] = o.Val
		}
	}
	c.Log = append(c.Log, w)
	return nil
}

func (c *Core) Keys() []string {
	c.mu.Lock()
	defer c.mu.Unlock()
	out := make([]string, 0, len(c.m))
	for k := range c.m {
		out = append(out, k)
	}
	sort.Strings(out)
	return out
}

func (c *Core) Snapshot() map[string][]byte {
	c.mu.Lock()
	defer c.mu.Unlock()
	out := make(map[string][]byte, len(c.m))
	for k, v := range c.m {
		out[k] = v
	}
	return out
}

func (c *Core) LogLen() int {
	c.mu.Lock()
	defer c.mu.Unlock()
	return len(c.Log)
}

// ---- Plain ---------------------------------------------------------------------------------

type Plain struct{ C *Core }

var _ ds.Batching = (*Plain)(nil)

func (p *Plain) Get(_ context.Context, k ds.Key) ([]byte, error) {
	if g := p.C.GetGate; g != nil {
		g(k.String())
	}
	if f := p.C.GetFault; f != nil && f(k.String()) {
		return nil, ErrInjectedRead
	}
	p.C.mu.Lock()
	v, ok := p.C.m[k.String()]
	p.C.mu.Unlock()
	if g := p.C.GetGateAfter; g != nil {
		g(k.String(), ok)
	}
	if !ok {
		return nil, ds.ErrNotFound
	}
	return v, nil
}
func (p *Plain) Has(_ context.Context, k ds.Key) (bool, error) {
	p.C.mu.Lock()
	defer p.C.mu.Unlock()
	_, ok := p.C.m[k.String()]
	return ok, nil
}
func (p *Plain) GetSize(ctx context.Context, k ds.Key) (int, error) {
	v, err := p.Get(ctx, k)
	if err != nil {
		return -1, err
	}
	return len(v), nil
}
func (p *Plain) Query(context.Context, dsq.Query) (dsq.Results, error) {
	return nil, errors.New("memds: query unsupported")
}
func (p *Plain) Put(_ context.Context, k ds.Key, v []byte) error {
	return p.C.apply(Write{Ops: []Op{{k.String(), append([]byte{}, v...)}}})
}
func (p *Plain) Delete(_ context.Context, k ds.Key) error {
	return p.C.apply(Write{Ops: []Op{{k.String(), nil}}})
}
func (p *Plain) Sync(context.Context, ds.Key) error { return nil }
func (p *Plain) Close() error                        { return nil }
func (p *Plain) Batch(context.Context) (ds.Batch, error) {
	return &batch{c: p.C}, nil
}

type batch struct {
	c   *Core
	ops []Op
}

func (b *batch) Put(_ context.Context, k ds.Key, v []byte) error {
	b.ops = append(b.ops, Op{k.String(), append([]byte{}, v...)})
	return nil
}
func (b *batch) Delete(_ context.Context, k ds.Key) error {
	b.ops = append(b.ops, Op{k.String(), nil})
	return nil
}
func (b *batch) Commit(context.Context) error {
	if len(b.ops) == 0 {
		return nil
	}
	err := b.c.apply(Write{Batch: true, Ops: b.ops})
	if err == nil {
		b.ops = nil
	}
	return err
}

// ---- Txn -----------------------------------------------------------------------------------

type Txn struct{ Plain }

var _ ds.TxnDatastore = (*Txn)(nil)

func (t *Txn) NewTransaction(_ context.Context, readOnly bool) (ds.Txn, error) {
	if !readOnly {
		return nil, errors.New("memds: only read-only transactions")
	}
	r := &rtxn{snap: t.C.Snapshot(), c: t.C}
	if g := t.C.TxnGate; g != nil {
		g()
	}
	return r, nil
}

type rtxn struct {
	snap map[string][]byte
	c    *Core
}

func (r *rtxn) Get(_ context.Context, k ds.Key) ([]byte, error) {
	if g := r.c.GetGate; g != nil {
		g(k.String())
	}
	if f := r.c.GetFault; f != nil && f(k.String()) {
		return nil, ErrInjectedRead
	}
	v, ok := r.snap[k.String()]
	if g := r.c.GetGateAfter; g != nil {
		g(k.String(), ok)
	}
	if !ok {
		return nil, ds.ErrNotFound
	}
	return v, nil
}
func (r *rtxn) Has(_ context.Context, k ds.Key) (bool, error) {
	_, ok := r.snap[k.String()]
	return ok, nil
}
func (r *rtxn) GetSize(ctx context.Context, k ds.Key) (int, error) {
	v, err := r.Get(ctx, k)
	if err != nil {
		return -1, err
	}
	return len(v), nil
}
func (r *rtxn) Query(context.Context, dsq.Query) (dsq.Results, error) {
	return nil, errors.New("memds: query unsupported")
}
func (r *rtxn) Put(context.Context, ds.Key, []byte) error { return errors.New("read-only") }
func (r *rtxn) Delete(context.Context, ds.Key) error      { return errors.New("read-only") }
func (r *rtxn) Commit(context.Context) error              { return nil }
func (r *rtxn) Discard(context.Context)                   {}
