// Package vhdr is the header type the correspondence harness instantiates go-header with.
// Unlike headertest.DummyHeader its hash covers every field, Validate can fail, and the type-level
// Verify really checks the hash link of adjacent headers, honours a configurable trust range for
// non-adjacent ones, and can be scripted to produce every shape of error (plain, bare or wrapped
// *VerifyError, soft or hard).
package vhdr

import (
	"bytes"
	"crypto/sha256"
	"encoding/json"
	"errors"
	"fmt"
	"runtime"
	"strings"
	"sync"
	"sync/atomic"
	"time"

	header "github.com/celestiaorg/go-header"
)

// scripted verdict kinds (VK): how the type-level Verify judges THIS header when it is the untrusted one.
const (
	VKLink    uint8 = iota // real rule: adjacent ⇒ hash link; non-adjacent ⇒ within TrustRange and not forged
	VKOk                   // nil
	VKPlain                // plain error
	VKVerr0                // bare *VerifyError, hard
	VKVerr1                // bare *VerifyError, soft
	VKWrap0                // wrapped *VerifyError, hard
	VKWrap1                // wrapped *VerifyError, soft
	VKJoin0                // *VerifyError (hard) inside a multi-error: errors.Join(context, ve)
	VKJoin1                // *VerifyError (soft) inside a multi-error: fmt.Errorf("%w: %w", context, ve)
	VKNilVerr              // a typed-nil *VerifyError inside the error interface: "no error" written the wrong way round
	VKPanic                // the type's Verify panics on this header (a peer-crafted header hitting a bug there)
	VKShared               // ONE package-level *VerifyError (hard) returned by every call, as header types with sentinel errors do
)

var VKNames = []string{"link", "ok", "plain", "verr0", "verr1", "wrap0", "wrap1", "join0", "join1", "nilverr", "panic", "shared"}

var (
	ErrLink     = errors.New("vhdr: previous-hash link broken")
	ErrForged   = errors.New("vhdr: forged header")
	ErrTooFar   = errors.New("vhdr: beyond trust range")
	ErrScripted = errors.New("vhdr: scripted type-level failure")
	ErrInvalid  = errors.New("vhdr: invalid header")
)

// TrustRange: non-adjacent verification succeeds iff distance ≤ TrustRange (0 = unlimited).
var TrustRange atomic.Uint64

type Header struct {
	Chain  string `json:"c"`
	H      uint64 `json:"h"`
	T      int64  `json:"t"` // unix nanoseconds
	Prev   []byte `json:"p"`
	Salt   uint64 `json:"s,omitempty"`
	VK     uint8  `json:"v,omitempty"`
	Forged bool   `json:"f,omitempty"`
	Bad    bool   `json:"b,omitempty"`
	PV     bool   `json:"pv,omitempty"` // Validate panics
	NC     bool   `json:"nc,omitempty"` // Validate tolerates an empty chain id (as headertest.DummyHeader does)
	// BadSig: a part of the header that Validate checks but that the HASH does not cover (as commits / signatures of real
	// header types): Validate fails, the hash is that of the same header with a good signature.
	BadSig bool `json:"bs,omitempty"`

	mu   sync.Mutex
	hash header.Hash

	// Park (not serialised): when set, the first Height() call made from a function whose name contains ParkIn
	// signals Parked and blocks until Release is closed - a way to stop one goroutine in the middle of a library
	// function that reads the header, without any hook in the library.
	ParkIn string
	// ParkDirect: only calls made DIRECTLY from a function matching ParkIn count; ParkSkip: let that many matching calls pass first
	ParkDirect bool
	ParkSkip   int32
	parkSeen   atomic.Int32
	Parked     chan struct{}
	Release    chan struct{}
	parkOnce   sync.Once
}

var _ header.Header[*Header] = (*Header)(nil)

func (d *Header) New() *Header    { return new(Header) }
func (d *Header) IsZero() bool    { return d == nil }
func (d *Header) ChainID() string { return d.Chain }
func (d *Header) Height() uint64 {
	if d.ParkIn != "" {
		pcs := make([]uintptr, 8)
		n := runtime.Callers(2, pcs)
		fr := runtime.CallersFrames(pcs[:n])
		for {
			f, more := fr.Next()
			if strings.Contains(f.Function, d.ParkIn) {
				if d.parkSeen.Add(1) > d.ParkSkip {
					d.parkOnce.Do(func() { close(d.Parked); <-d.Release })
				}
				break
			}
			if !more || d.ParkDirect {
				break
			}
		}
	}
	return d.H
}
func (d *Header) Time() time.Time { return time.Unix(0, d.T).UTC() }
func (d *Header) LastHeader() header.Hash {
	return d.Prev
}

func (d *Header) Hash() header.Hash {
	d.mu.Lock()
	defer d.mu.Unlock()
	if d.hash == nil {
		b, _ := json.Marshal(wire{d.Chain, d.H, d.T, d.Prev, d.Salt, d.VK, d.Forged, d.Bad, d.PV, d.NC, false})
		s := sha256.Sum256(b)
		d.hash = s[:]
	}
	return d.hash
}

// SharedVerifyError is what VKShared returns on every call: a hard failure.
var SharedVerifyError = &header.VerifyError{Reason: ErrScripted}

func scripted(vk uint8) error {
	switch vk {
	case VKOk:
		return nil
	case VKPlain:
		return errors.New("vhdr: plain scripted error")
	case VKVerr0:
		return &header.VerifyError{Reason: ErrScripted}
	case VKVerr1:
		return &header.VerifyError{Reason: ErrScripted, SoftFailure: true}
	case VKWrap0:
		return fmt.Errorf("vhdr wrap: %w", &header.VerifyError{Reason: ErrScripted})
	case VKWrap1:
		return fmt.Errorf("vhdr wrap: %w", &header.VerifyError{Reason: ErrScripted, SoftFailure: true})
	case VKJoin0:
		return errors.Join(errors.New("vhdr: context"), &header.VerifyError{Reason: ErrScripted})
	case VKJoin1:
		return fmt.Errorf("%w: %w", errors.New("vhdr: context"), &header.VerifyError{Reason: ErrScripted, SoftFailure: true})
	case VKPanic:
		panic("vhdr: scripted panic in Verify")
	case VKNilVerr:
		var ve *header.VerifyError
		return ve
	case VKShared:
		return SharedVerifyError
	}
	return nil
}

func (d *Header) Verify(u *Header) error {
	if u.VK != VKLink {
		return scripted(u.VK)
	}
	if u.Forged {
		return &header.VerifyError{Reason: ErrForged}
	}
	if u.H == d.H+1 {
		if !bytes.Equal(u.Prev, d.Hash()) {
			return &header.VerifyError{Reason: ErrLink}
		}
		return nil
	}
	if u.Salt != d.Salt {
		// a header of another fork never verifies against this one (non-adjacent: Verify makes it a soft failure)
		return &header.VerifyError{Reason: ErrLink}
	}
	if tr := TrustRange.Load(); tr != 0 && u.H > d.H && u.H-d.H > tr {
		return &header.VerifyError{Reason: ErrTooFar}
	}
	return nil
}

func (d *Header) Validate() error {
	if d.PV {
		panic("vhdr: scripted panic in Validate")
	}
	if d.Bad || d.BadSig || d.H == 0 || (d.Chain == "" && !d.NC) {
		return ErrInvalid
	}
	return nil
}

type wire struct {
	Chain  string `json:"c"`
	H      uint64 `json:"h"`
	T      int64  `json:"t"`
	Prev   []byte `json:"p"`
	Salt   uint64 `json:"s,omitempty"`
	VK     uint8  `json:"v,omitempty"`
	Forged bool   `json:"f,omitempty"`
	Bad    bool   `json:"b,omitempty"`
	PV     bool   `json:"pv,omitempty"`
	NC     bool   `json:"nc,omitempty"`
	BadSig bool   `json:"bs,omitempty"`
}

func (d *Header) MarshalBinary() ([]byte, error) {
	return json.Marshal(wire{d.Chain, d.H, d.T, d.Prev, d.Salt, d.VK, d.Forged, d.Bad, d.PV, d.NC, d.BadSig})
}

// PanicBytes makes UnmarshalBinary panic (a hostile payload hitting a decoder bug).
var PanicBytes = []byte("\x00PANIC")

func (d *Header) UnmarshalBinary(b []byte) error {
	if bytes.Equal(b, PanicBytes) {
		panic("vhdr: scripted panic in UnmarshalBinary")
	}
	var w wire
	dec := json.NewDecoder(bytes.NewReader(b))
	dec.DisallowUnknownFields()
	if err := dec.Decode(&w); err != nil {
		return err
	}
	d.Chain, d.H, d.T, d.Prev, d.Salt, d.VK, d.Forged, d.Bad, d.PV, d.NC, d.BadSig = w.Chain, w.H, w.T, w.Prev, w.Salt, w.VK, w.Forged, w.Bad, w.PV, w.NC, w.BadSig
	// (the cached hash is NOT reset: like most header types, this one assumes it is decoded into a fresh value)
	return nil
}

// Chain builds heights 1..n of chain `chain`: start time t0, spacing dt (ns); salt distinguishes forks.
func Chain(chain string, n int, t0, dt int64, salt uint64) []*Header {
	out := make([]*Header, 0, n)
	var prev *Header
	for i := 1; i <= n; i++ {
		h := &Header{Chain: chain, H: uint64(i), T: t0 + int64(i-1)*dt, Salt: salt}
		if prev != nil {
			h.Prev = prev.Hash()
		}
		out = append(out, h)
		prev = h
	}
	return out
}

// ChainFrom builds n headers at heights base+1 .. base+n (64-bit boundary tests).
func ChainFrom(chain string, base uint64, n int, t0, dt int64, salt uint64) []*Header {
	out := Chain(chain, n, t0, dt, salt)
	var prev *Header
	for _, h := range out {
		h.H += base
		h.hash = nil
		h.Prev = nil
		if prev != nil {
			h.Prev = prev.Hash()
		}
		prev = h
	}
	return out
}

// Extend appends k headers on top of `from`.
func Extend(from *Header, k int, dt int64, salt uint64) []*Header {
	out := make([]*Header, 0, k)
	prev := from
	for i := 0; i < k; i++ {
		h := &Header{Chain: prev.Chain, H: prev.H + 1, T: prev.T + dt, Salt: salt, Prev: prev.Hash()}
		out = append(out, h)
		prev = h
	}
	return out
}
