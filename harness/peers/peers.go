// Package peers: libp2p mocknet plumbing for the p2p correspondence harness — a raw stream client,
// scripted (Byzantine / omission) peers speaking the header-ex protocol, and a recording Store proxy.
package peers

import (
	"context"
	"errors"
	"fmt"
	"testing"

	"github.com/libp2p/go-libp2p/core/peerstore"
	blankhost "github.com/libp2p/go-libp2p/p2p/host/blank"
	swarmt "github.com/libp2p/go-libp2p/p2p/net/swarm/testing"
	"io"
	"strings"
	"sync"
	"time"

	"github.com/libp2p/go-libp2p/core/host"
	"github.com/libp2p/go-libp2p/core/network"
	"github.com/libp2p/go-libp2p/core/peer"
	"github.com/libp2p/go-libp2p/core/protocol"
	mocknet "github.com/libp2p/go-libp2p/p2p/net/mock"

	"github.com/celestiaorg/go-libp2p-messenger/serde"

	header "github.com/celestiaorg/go-header"
	p2p_pb "github.com/celestiaorg/go-header/p2p/pb"

	"verifharness/vhdr"
)

const NetworkID = "verifnet"

// ProtocolID mirrors p2p.protocolID(networkID).
func ProtocolID() protocol.ID {
	return protocol.ID(fmt.Sprintf("/%s/%s", NetworkID, "header-ex/v0.0.3"))
}

// NewNet: a fully connected mock network of n hosts.
func NewNet(n int) (mocknet.Mocknet, []host.Host, error) {
	net, err := mocknet.FullMeshConnected(n)
	if err != nil {
		return nil, nil, err
	}
	return net, net.Hosts(), nil
}

// fakeTB lets the swarm test helpers of go-libp2p run outside `go test`.
type fakeTB struct {
	testing.TB
	cleanups []func()
	failed   bool
}

func (f *fakeTB) Helper()               {}
func (f *fakeTB) Cleanup(fn func())     { f.cleanups = append(f.cleanups, fn) }
func (f *fakeTB) Errorf(string, ...any) { f.failed = true }
func (f *fakeTB) Fatalf(string, ...any) { f.failed = true; panic("fakeTB: fatal") }
func (f *fakeTB) Fatal(...any)          { f.failed = true; panic("fakeTB: fatal") }
func (f *fakeTB) FailNow()              { f.failed = true; panic("fakeTB: fatal") }
func (f *fakeTB) Logf(string, ...any)   {}
func (f *fakeTB) Log(...any)            {}
func (f *fakeTB) Name() string          { return "verifharness" }
func (f *fakeTB) Setenv(string, string) {}
func (f *fakeTB) TempDir() string       { return "" }
func (f *fakeTB) Failed() bool          { return f.failed }

// NewRealHosts builds n libp2p hosts on real loopback transports (streams honour deadlines, unlike mocknet's);
// every host knows the addresses of the others. The returned func closes them.
func NewRealHosts(n int) (hosts []host.Host, closeAll func(), err error) {
	tb := &fakeTB{}
	defer func() {
		if p := recover(); p != nil {
			err = fmt.Errorf("real hosts unavailable: %v", p)
		}
	}()
	hosts = make([]host.Host, n)
	for i := range hosts {
		sw := swarmt.GenSwarm(tb, swarmt.OptDisableQUIC)
		hosts[i] = blankhost.NewBlankHost(sw)
		for _, h := range hosts[:i] {
			hosts[i].Peerstore().AddAddrs(h.ID(), h.Network().ListenAddresses(), peerstore.PermanentAddrTTL)
			h.Peerstore().AddAddrs(hosts[i].ID(), hosts[i].Network().ListenAddresses(), peerstore.PermanentAddrTTL)
		}
	}
	closeAll = func() {
		for _, h := range hosts {
			_ = h.Close()
		}
		for _, c := range tb.cleanups {
			func() { defer func() { _ = recover() }(); c() }()
		}
	}
	return hosts, closeAll, nil
}

// Resp is one decoded HeaderResponse frame.
type Resp struct {
	Status int32
	H      uint64 // decoded header height (0 if the body does not decode)
	Hash   string
	BodyOK bool
}

// RawRequest opens a stream, writes `frame` (already length-prefixed or arbitrary bytes), and reads
// response frames until the stream ends. end ∈ eof | reset | timeout | err.
func RawRequest(ctx context.Context, h host.Host, to peer.ID, frame []byte, timeout time.Duration) (resps []Resp, end string) {
	ctx, cancel := context.WithTimeout(ctx, timeout)
	defer cancel()
	s, err := h.NewStream(ctx, to, ProtocolID())
	if err != nil {
		return nil, "nostream"
	}
	_ = s.SetDeadline(time.Now().Add(timeout))
	if _, err := s.Write(frame); err != nil {
		s.Reset() //nolint:errcheck
		return nil, "writeerr"
	}
	_ = s.CloseWrite()
	for {
		var r p2p_pb.HeaderResponse
		_, err := serde.Read(s, &r)
		if err != nil {
			switch {
			case errors.Is(err, io.EOF):
				end = "eof"
			case errors.Is(err, network.ErrReset) || strings.Contains(err.Error(), "reset"):
				end = "reset"
			case errors.Is(err, context.DeadlineExceeded) || strings.Contains(err.Error(), "deadline") || strings.Contains(err.Error(), "timeout"):
				end = "timeout"
			default:
				end = "err"
			}
			if end == "eof" {
				s.Close()
			} else {
				s.Reset() //nolint:errcheck
			}
			return resps, end
		}
		rp := Resp{Status: int32(r.StatusCode)}
		var hd vhdr.Header
		if len(r.Body) > 0 && hd.UnmarshalBinary(r.Body) == nil {
			rp.H, rp.Hash, rp.BodyOK = hd.H, hd.Hash().String(), true
		}
		resps = append(resps, rp)
		if len(resps) > 1000 {
			s.Reset() //nolint:errcheck
			return resps, "flood"
		}
	}
}

// Frame encodes a HeaderRequest the way the client does (varint length prefix).
func Frame(req *p2p_pb.HeaderRequest) []byte {
	var sb sliceWriter
	_, _ = serde.Write(&sb, req)
	return sb.b
}

type sliceWriter struct{ b []byte }

func (w *sliceWriter) Write(p []byte) (int, error) { w.b = append(w.b, p...); return len(p), nil }

// ---- recording Store proxy ------------------------------------------------------------------

// Recorder wraps a header.Store and logs every call the server makes on it.
type Recorder struct {
	header.Store[*vhdr.Header]
	mu    sync.Mutex
	Calls []string
	Reads uint64 // number of headers asked of the store (GetRange widths, Get, GetByHeight, Head for a head request)
	// OnHasAt, when set, runs right after the underlying HasAt answered: the store may change between the server's
	// existence check and its next read.
	OnHasAt func(h uint64)
}

func (r *Recorder) log(s string, reads uint64) {
	r.mu.Lock()
	r.Calls = append(r.Calls, s)
	r.Reads += reads
	r.mu.Unlock()
}

func (r *Recorder) Take() (calls []string, reads uint64) {
	r.mu.Lock()
	defer r.mu.Unlock()
	calls, reads = r.Calls, r.Reads
	r.Calls, r.Reads = nil, 0
	return
}

func (r *Recorder) Head(ctx context.Context, o ...header.HeadOption[*vhdr.Header]) (*vhdr.Header, error) {
	r.log("Head", 0)
	return r.Store.Head(ctx, o...)
}
func (r *Recorder) HasAt(ctx context.Context, h uint64) bool {
	r.log(fmt.Sprintf("HasAt:%d", h), 0)
	ok := r.Store.HasAt(ctx, h)
	if f := r.OnHasAt; f != nil {
		f(h)
	}
	return ok
}
func (r *Recorder) Get(ctx context.Context, hash header.Hash) (*vhdr.Header, error) {
	r.log("Get", 1)
	return r.Store.Get(ctx, hash)
}
func (r *Recorder) GetByHeight(ctx context.Context, h uint64) (*vhdr.Header, error) {
	r.log(fmt.Sprintf("GetByHeight:%d", h), 1)
	return r.Store.GetByHeight(ctx, h)
}
func (r *Recorder) GetRange(ctx context.Context, a, b uint64) ([]*vhdr.Header, error) {
	w := uint64(0)
	if b > a {
		w = b - a
	}
	r.log(fmt.Sprintf("GetRange:%d-%d", a, b), w)
	return r.Store.GetRange(ctx, a, b)
}
func (r *Recorder) GetRangeByHeight(ctx context.Context, from *vhdr.Header, to uint64) ([]*vhdr.Header, error) {
	r.log(fmt.Sprintf("GetRangeByHeight:%d-%d", from.H, to), to-from.H-1)
	return r.Store.GetRangeByHeight(ctx, from, to)
}

// ---- scripted peers ---------------------------------------------------------------------------

// Reply is what a scripted peer does with one request.
type Reply struct {
	Kind    string         // ok | notfound | empty | reset | hang | garbage | status | truncated
	Headers []*vhdr.Header // for ok / status
	Raw     []byte         // for garbage
	Status  int32          // for status
	Delay   time.Duration  // the answer is written this much later (arrival order of concurrent sub-requests)
}

// Scripted is a peer speaking header-ex with scripted answers. Every request is stamped with a global
// sequence number; an answer is written only after the harness released it (Gate) when gating is on.
type Scripted struct {
	Host   host.Host
	mu     sync.Mutex
	Script func(n int, req *p2p_pb.HeaderRequest) Reply // n = index of the request at this peer
	nreq   int
	Gated  bool
	gates  []chan struct{}
	Log    []ReqLog
	done   []chan struct{}
}

type ReqLog struct {
	Seq    uint64
	Origin uint64
	Amount uint64
	Hash   []byte
}

var seq struct {
	mu sync.Mutex
	n  uint64
}

func nextSeq() uint64 { seq.mu.Lock(); defer seq.mu.Unlock(); seq.n++; return seq.n }

func NewScripted(h host.Host) *Scripted {
	p := &Scripted{Host: h}
	h.SetStreamHandler(ProtocolID(), p.handle)
	return p
}

// Reset clears the script state between cases.
func (p *Scripted) Reset(gated bool, script func(n int, req *p2p_pb.HeaderRequest) Reply) {
	p.mu.Lock()
	for _, g := range p.gates {
		select {
		case <-g:
		default:
			close(g)
		}
	}
	p.Script, p.Gated, p.nreq, p.gates, p.Log, p.done = script, gated, 0, nil, nil, nil
	p.mu.Unlock()
}

// Release lets the i-th request of this peer be answered and waits until the answer is written.
func (p *Scripted) Release(i int, wait time.Duration) bool {
	deadline := time.Now().Add(wait)
	for {
		p.mu.Lock()
		if i < len(p.gates) {
			g, d := p.gates[i], p.done[i]
			p.mu.Unlock()
			select {
			case <-g:
			default:
				close(g)
			}
			select {
			case <-d:
				return true
			case <-time.After(time.Until(deadline)):
				return false
			}
		}
		p.mu.Unlock()
		if time.Now().After(deadline) {
			return false
		}
		time.Sleep(200 * time.Microsecond)
	}
}

func (p *Scripted) Requests() []ReqLog {
	p.mu.Lock()
	defer p.mu.Unlock()
	return append([]ReqLog(nil), p.Log...)
}

func (p *Scripted) handle(s network.Stream) {
	_ = s.SetDeadline(time.Now().Add(5 * time.Second))
	var req p2p_pb.HeaderRequest
	if _, err := serde.Read(s, &req); err != nil {
		s.Reset() //nolint:errcheck
		return
	}
	p.mu.Lock()
	n := p.nreq
	p.nreq++
	gate, done := make(chan struct{}), make(chan struct{})
	p.gates = append(p.gates, gate)
	p.done = append(p.done, done)
	p.Log = append(p.Log, ReqLog{Seq: nextSeq(), Origin: req.GetOrigin(), Amount: req.Amount, Hash: req.GetHash()})
	script, gated := p.Script, p.Gated
	p.mu.Unlock()
	defer close(done)
	if gated {
		select {
		case <-gate:
		case <-time.After(5 * time.Second):
			s.Reset() //nolint:errcheck
			return
		}
	}
	var r Reply
	if script != nil {
		r = script(n, &req)
	} else {
		r = Reply{Kind: "notfound"}
	}
	if r.Delay > 0 {
		time.Sleep(r.Delay)
	}
	switch r.Kind {
	case "ok", "status":
		code := p2p_pb.StatusCode_OK
		if r.Kind == "status" {
			code = p2p_pb.StatusCode(r.Status)
		}
		for _, h := range r.Headers {
			var body []byte
			if h != nil {
				body, _ = h.MarshalBinary()
			}
			if _, err := serde.Write(s, &p2p_pb.HeaderResponse{Body: body, StatusCode: code}); err != nil {
				s.Reset() //nolint:errcheck
				return
			}
		}
		s.Close()
	case "partialreset": // the connection dies after part of the answer went out
		for _, h := range r.Headers {
			body, _ := h.MarshalBinary()
			if _, err := serde.Write(s, &p2p_pb.HeaderResponse{Body: body, StatusCode: p2p_pb.StatusCode_OK}); err != nil {
				break
			}
		}
		time.Sleep(5 * time.Millisecond) // let the client read what was written before the reset tears the stream down
		s.Reset() //nolint:errcheck
	case "notfound":
		_, _ = serde.Write(s, &p2p_pb.HeaderResponse{StatusCode: p2p_pb.StatusCode_NOT_FOUND})
		s.Close()
	case "empty":
		s.Close()
	case "reset":
		s.Reset() //nolint:errcheck
	case "garbage", "truncated":
		_, _ = s.Write(r.Raw)
		s.Close()
	case "silent":
		// accepted the request and says nothing for a long while (a stream that honours deadlines lets the client give up)
		time.Sleep(6 * time.Second)
		s.Reset() //nolint:errcheck
	case "hang":
		// keep the stream open until the other side gives up
		buf := make([]byte, 1)
		_ = s.SetDeadline(time.Now().Add(3 * time.Second))
		_, _ = s.Read(buf)
		s.Reset() //nolint:errcheck
	default:
		s.Reset() //nolint:errcheck
	}
}

// FrameResp encodes one HeaderResponse with its length prefix.
func FrameResp(r *p2p_pb.HeaderResponse) []byte {
	var sb sliceWriter
	_, _ = serde.Write(&sb, r)
	return sb.b
}
