module verifharness

go 1.25.7

require github.com/celestiaorg/go-header v0.0.0

require (
	github.com/decred/dcrd/dcrec/secp256k1/v4 v4.4.0 // indirect
	github.com/gogo/protobuf v1.3.2 // indirect
	github.com/hashicorp/golang-lru/v2 v2.0.7 // indirect
	github.com/ipfs/go-cid v0.6.0 // indirect
	github.com/klauspost/cpuid/v2 v2.3.0 // indirect
	github.com/libp2p/go-buffer-pool v0.1.0 // indirect
	github.com/libp2p/go-libp2p v0.48.0 // indirect
	github.com/libp2p/go-libp2p-pubsub v0.16.0 // indirect
	github.com/libp2p/go-msgio v0.3.0 // indirect
	github.com/mr-tron/base58 v1.2.0 // indirect
	github.com/multiformats/go-base32 v0.1.0 // indirect
	github.com/multiformats/go-base36 v0.2.0 // indirect
	github.com/multiformats/go-multiaddr v0.16.1 // indirect
	github.com/multiformats/go-multiaddr-fmt v0.1.0 // indirect
	github.com/multiformats/go-multibase v0.2.0 // indirect
	github.com/multiformats/go-multicodec v0.10.0 // indirect
	github.com/multiformats/go-multihash v0.2.3 // indirect
	github.com/multiformats/go-multistream v0.6.1 // indirect
	github.com/multiformats/go-varint v0.1.0 // indirect
	github.com/spaolacci/murmur3 v1.1.0 // indirect
	golang.org/x/crypto v0.52.0 // indirect
	golang.org/x/exp v0.0.0-20251209150349-8475f28825e9 // indirect
	golang.org/x/sys v0.45.0 // indirect
	google.golang.org/protobuf v1.36.11 // indirect
	lukechampine.com/blake3 v1.4.1 // indirect
)

replace github.com/celestiaorg/go-header => /repo
